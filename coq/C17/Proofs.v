(* C17/Proofs.v — lemmas about C17/Model.v *)
From IoraVerif Require Import Common.Bytes C17.Model.
From Coq Require Import ZArith ZifyBool ZifyN ZifyNat.
Local Open Scope N_scope.

Definition is_send (a : act) : bool := match a with ActSend _ _ => true | _ => false end.
Definition has_send (acts : list act) : bool := existsb is_send acts.

Lemma has_send_app a b : has_send (a ++ b) = has_send a || has_send b.
Proof. apply existsb_app. Qed.

(* ------------------------------------------------------------ the receive loop *)
Lemma receive_spec st c a : forall l,
  let r := receive st c a l in
  snd (fst r) <> ANotSent /\ has_send (snd r) = false /\
  ((snd (fst r) = AOk /\ fst (fst r) = st /\ snd r = []) \/
   (fst (fst r) = fst (drop st c) /\ snd r = [ActClose c])).
Proof.
  induction l as [|x l IH]; cbn [receive].
  - cbn. repeat split; try discriminate. right. auto.
  - destruct x as [v| |cd| | |]; try (cbn; repeat split; try discriminate; right; auto; fail).
    + destruct v as [|reusable|].
      * exact IH.
      * destruct (reusable && a); cbn; repeat split; try discriminate; [left|right]; auto.
      * cbn; repeat split; try discriminate; right; auto.
    + destruct cd; cbn; repeat split; try discriminate; right; auto.
Qed.

(* ------------------------------------------------------------ one attempt *)
(* an attempt that ends in the pre-send region handed nothing to the transport's send *)
Lemma execute_notsent st sc : snd (fst (execute st sc)) = ANotSent -> has_send (snd (execute st sc)) = false.
Proof.
  unfold execute.
  assert (R : forall s c l, snd (fst (receive s c (a_async sc) l)) <> ANotSent) by (intros; apply receive_spec).
  destruct (c_cache st) as [c|]; [destruct (a_idle sc)|]; destruct (a_connect sc); cbn [fst snd];
    try (intros _; reflexivity);
    (destruct (a_setmode sc); cbn [negb fst snd]; [|intros _; reflexivity]);
    (destruct (a_send sc); cbn [negb fst snd]; [|discriminate]);
    intros H; exfalso; eapply R; exact H.
Qed.

(* whenever an attempt does not return a response, nothing stays cached; the connection it used is closed *)
Lemma execute_fail_evicts st sc : snd (fst (execute st sc)) <> AOk -> c_cache (fst (fst (execute st sc))) = None.
Proof.
  unfold execute.
  assert (R : forall s c l, snd (fst (receive s c (a_async sc) l)) <> AOk ->
                            c_cache s = Some c -> c_cache (fst (fst (receive s c (a_async sc) l))) = None).
  { intros s c l Hne Hc. destruct (receive_spec s c (a_async sc) l) as (_ & _ & [[H _]|[H _]]); [congruence|].
    rewrite H. unfold drop. cbn [fst c_cache]. rewrite Hc, N.eqb_refl. reflexivity. }
  destruct (c_cache st) as [c|] eqn:Ec; [destruct (a_idle sc)|]; destruct (a_connect sc); cbn [fst snd c_cache];
    try (intros _; reflexivity);
    (destruct (a_setmode sc); cbn [negb fst snd];
     [|intros _; unfold drop; cbn [fst c_cache]; rewrite ?Ec, ?N.eqb_refl; reflexivity]);
    (destruct (a_send sc); cbn [negb fst snd];
     [|intros _; unfold drop; cbn [fst c_cache]; rewrite ?Ec, ?N.eqb_refl; reflexivity]);
    intros H; apply R; auto.
Qed.

(* ------------------------------------------------------------ the retry loop *)
Definition presend (p : aout * list act) : Prop := fst p = ANotSent /\ has_send (snd p) = false.

(* non-idempotent: every attempt but the last ended in the pre-send region *)
Theorem nonidem_at_most_once retries : forall scripts attempt st,
  Forall presend (removelast (snd (perform false retries attempt st scripts))).
Proof.
  induction scripts as [|sc rest IH]; intros attempt st; cbn [perform snd removelast]; [constructor|].
  destruct (execute st sc) as [[st' out] acts] eqn:E.
  destruct out; cbn [orb negb]; try (cbn; constructor).
  - (* not sent *)
    destruct (Z.leb retries attempt); [cbn; constructor|].
    cbn [snd]. specialize (IH (Z.add attempt 1) st').
    destruct (snd (perform false retries (attempt + 1) st' rest)) as [|y ys] eqn:Ep.
    + cbn. constructor.
    + change (removelast ((ANotSent, acts) :: y :: ys)) with ((ANotSent, acts) :: removelast (y :: ys)).
      constructor; [|exact IH]. split; [reflexivity|]. cbn [snd].
      pose proof (execute_notsent st sc) as H. rewrite E in H. cbn [fst snd] in H. now apply H.
Qed.

Corollary nonidem_send_count retries scripts attempt st :
  (length (filter (fun p => has_send (snd p)) (snd (perform false retries attempt st scripts))) <= 1)%nat.
Proof.
  pose proof (nonidem_at_most_once retries scripts attempt st) as H.
  set (tr := snd (perform false retries attempt st scripts)) in *. clearbody tr.
  induction tr as [|x tr' _] using rev_ind; [cbn; lia|].
  rewrite removelast_last in H. rewrite filter_app, app_length.
  assert (Hz : filter (fun p => has_send (snd p)) tr' = []).
  { induction tr' as [|y ys IHy]; [reflexivity|]. inversion H; subst. cbn [filter].
    destruct H2 as [_ H2]. rewrite H2. now apply IHy. }
  rewrite Hz. cbn [length filter]. destruct (has_send (snd x)); cbn; lia.
Qed.

(* at most max(budget - attempt, 0) + 1 attempts, whatever happens *)
Theorem attempts_bounded idem retries : forall scripts attempt st,
  (Z.of_nat (length (snd (perform idem retries attempt st scripts))) <= Z.max (retries - attempt) 0 + 1)%Z.
Proof.
  induction scripts as [|sc rest IH]; intros attempt st; cbn [perform snd length]; [lia|].
  destruct (execute st sc) as [[st' out] acts].
  destruct out; try (cbn [snd length]; lia);
    (destruct (negb _); [cbn [snd length]; lia|]);
    (destruct (Z.leb retries attempt) eqn:El; [cbn [snd length]; lia|]);
    cbn [snd length]; specialize (IH (Z.add attempt 1) st'); lia.
Qed.

(* a response (AOk) or a framing error ends the loop: neither is ever followed by another attempt *)
Theorem final_outcomes_last idem retries : forall scripts attempt st,
  Forall (fun p => fst p <> AOk /\ fst p <> AFraming) (removelast (snd (perform idem retries attempt st scripts))).
Proof.
  induction scripts as [|sc rest IH]; intros attempt st; cbn [perform snd removelast]; [constructor|].
  destruct (execute st sc) as [[st' out] acts].
  destruct out; try (cbn; constructor);
    (destruct (negb _); [cbn; constructor|]);
    (destruct (Z.leb retries attempt); [cbn; constructor|]);
    cbn [snd]; specialize (IH (Z.add attempt 1) st');
    (destruct (snd (perform idem retries (attempt + 1) st' rest)) as [|y ys]; [cbn; constructor|]);
    match goal with |- Forall _ (removelast (?x :: y :: ys)) =>
      change (removelast (x :: y :: ys)) with (x :: removelast (y :: ys)) end;
    (constructor; [cbn; split; discriminate|exact IH]).
Qed.

(* ------------------------------------------------------------ connections over a client's life *)
(* replaying a transport trace: a send must be on a connection that was not closed before, and a
   connect creates the next fresh ordinal *)
Fixpoint trace_ok (closed : list N) (next : N) (acts : list act) : bool :=
  match acts with
  | [] => true
  | ActConnect c _ :: l => (c =? next) && trace_ok closed (next + 1) l
  | ActSend c _ :: l => negb (existsb (N.eqb c) closed) && (c <? next) && trace_ok closed next l
  | ActClose c :: l => trace_ok (c :: closed) next l
  end.
Fixpoint closes (acts : list act) : list N :=
  match acts with [] => [] | ActClose c :: l => c :: closes l | _ :: l => closes l end.
Fixpoint nconnects (acts : list act) : N :=
  match acts with [] => 0 | ActConnect _ _ :: l => 1 + nconnects l | _ :: l => nconnects l end.

Definition cinv (st : cstate) (closed : list N) : Prop :=
  (forall c, c_cache st = Some c -> existsb (N.eqb c) closed = false /\ c < c_next st) /\
  (forall c, existsb (N.eqb c) closed = true -> c < c_next st).

Lemma trace_ok_app closed next a b :
  trace_ok closed next (a ++ b) = trace_ok closed next a && trace_ok (rev (closes a) ++ closed) (next + nconnects a) b.
Proof.
  revert closed next. induction a as [|x a IH]; intros closed next; cbn [app trace_ok closes nconnects rev].
  - now rewrite N.add_0_r.
  - destruct x as [c ok|c ok|c]; cbn [trace_ok closes nconnects].
    + rewrite IH, andb_assoc. do 2 f_equal. lia.
    + rewrite IH, !andb_assoc. reflexivity.
    + rewrite IH. cbn [rev]. now rewrite <- app_assoc.
Qed.

Lemma not_closed_fresh st closed : cinv st closed -> existsb (N.eqb (c_next st)) closed = false.
Proof.
  intros [_ H]. destruct (existsb (N.eqb (c_next st)) closed) eqn:E; [|reflexivity].
  specialize (H _ E). lia.
Qed.

(* the part of an attempt after the connection c has been chosen *)
Definition after_conn (sc : script) (st1 : cstate) (c : N) : cstate * aout * list act :=
  if negb (a_setmode sc) then let r := drop st1 c in (fst r, ANotSent, snd r)
  else if negb (a_send sc) then let r := drop st1 c in (fst r, AOther, [ActSend c false] ++ snd r)
  else let r := receive st1 c (a_async sc) (a_rx sc) in (fst (fst r), snd (fst r), [ActSend c true] ++ snd r).

Lemma after_conn_trace sc st1 c cl : c_cache st1 = Some c -> cinv st1 cl ->
  let r := after_conn sc st1 c in
  trace_ok cl (c_next st1) (snd r) = true /\
  cinv (fst (fst r)) (rev (closes (snd r)) ++ cl) /\
  c_next (fst (fst r)) = c_next st1 /\ nconnects (snd r) = 0.
Proof.
  intros Hc Hi. destruct (proj1 Hi c Hc) as [Hcl Hlt]. destruct Hi as [_ Hbelow].
  assert (Hltb : (c <? c_next st1) = true) by lia.
  assert (Hdrop : cinv (fst (drop st1 c)) (c :: cl)).
  { split.
    - intros c0. unfold drop. cbn [fst c_cache]. rewrite Hc, N.eqb_refl. discriminate.
    - intros c0. unfold drop. cbn [fst c_next existsb]. intros H. apply orb_true_iff in H. destruct H as [H|H].
      + apply N.eqb_eq in H. lia.
      + now apply Hbelow. }
  unfold after_conn. destruct (a_setmode sc); cbn [negb].
  - destruct (a_send sc); cbn [negb].
    + destruct (receive_spec st1 c (a_async sc) (a_rx sc)) as (_ & _ & [(Ho & Hs & Ha)|(Hs & Ha)]);
        cbn [fst snd]; rewrite Ha, ?Hs; cbn [app trace_ok closes rev nconnects]; rewrite ?Hcl, ?Hltb; cbn [negb andb].
      * split; [reflexivity|]. split; [|split; reflexivity]. split; [|exact Hbelow].
        intros c0 Hc0. rewrite Hc in Hc0. inversion Hc0; subst. auto.
      * split; [reflexivity|]. split; [exact Hdrop|split; reflexivity].
    + cbn [fst snd app trace_ok closes rev nconnects drop]. rewrite Hcl, Hltb. cbn [negb andb].
      split; [reflexivity|]. split; [exact Hdrop|split; reflexivity].
  - cbn [fst snd trace_ok closes rev nconnects drop app].
    split; [reflexivity|]. split; [exact Hdrop|split; reflexivity].
Qed.

Lemma execute_unfold st sc :
  execute st sc =
  match c_cache st with
  | Some c =>
    if a_idle sc then
      if a_connect sc then
        let r := after_conn sc (mkC (Some (c_next st)) (c_next st + 1)) (c_next st) in
        (fst (fst r), snd (fst r), [ActClose c; ActConnect (c_next st) true] ++ snd r)
      else (mkC None (c_next st + 1), ANotSent, [ActClose c; ActConnect (c_next st) false])
    else let r := after_conn sc st c in (fst (fst r), snd (fst r), [] ++ snd r)
  | None =>
    if a_connect sc then
      let r := after_conn sc (mkC (Some (c_next st)) (c_next st + 1)) (c_next st) in
      (fst (fst r), snd (fst r), [ActConnect (c_next st) true] ++ snd r)
    else (mkC None (c_next st + 1), ANotSent, [ActConnect (c_next st) false])
  end.
Proof.
  unfold execute, after_conn.
  destruct (c_cache st) as [c|]; [destruct (a_idle sc)|]; destruct (a_connect sc); cbn [fst snd];
    try reflexivity;
    destruct (negb (a_setmode sc)); try reflexivity; destruct (negb (a_send sc)); reflexivity.
Qed.

(* one attempt, started in a consistent state, produces a legal trace and ends in a consistent state *)
Lemma execute_trace st sc closed : cinv st closed ->
  let r := execute st sc in
  trace_ok closed (c_next st) (snd r) = true /\
  cinv (fst (fst r)) (rev (closes (snd r)) ++ closed) /\
  c_next (fst (fst r)) = c_next st + nconnects (snd r).
Proof.
  intros Hi. pose proof (not_closed_fresh st closed Hi) as Hfresh. rewrite execute_unfold.
  assert (Hnew : forall cl, (forall c, existsb (N.eqb c) cl = true -> c < c_next st) ->
            cinv (mkC (Some (c_next st)) (c_next st + 1)) cl).
  { intros cl Hb. split.
    - intros c0 Hc0. cbn [c_cache c_next] in *. inversion Hc0; subst c0. split; [|lia].
      destruct (existsb (N.eqb (c_next st)) cl) eqn:E; [|reflexivity]. specialize (Hb _ E). lia.
    - intros c0 Hc0. cbn [c_next]. specialize (Hb _ Hc0). lia. }
  assert (Hnone : forall cl, (forall c, existsb (N.eqb c) cl = true -> c < c_next st) -> cinv (mkC None (c_next st + 1)) cl).
  { intros cl Hb. split; [intros c0; cbn [c_cache]; discriminate|]. intros c0 Hc0. cbn [c_next]. specialize (Hb _ Hc0). lia. }
  destruct (c_cache st) as [c|] eqn:Ec.
  - destruct (proj1 Hi c Ec) as [Hcl Hlt].
    assert (Hb2 : forall c0, existsb (N.eqb c0) (c :: closed) = true -> c0 < c_next st).
    { intros c0 H. cbn [existsb] in H. apply orb_true_iff in H. destruct H as [H|H]; [apply N.eqb_eq in H; lia|now apply (proj2 Hi)]. }
    destruct (a_idle sc).
    + destruct (a_connect sc).
      * destruct (after_conn_trace sc (mkC (Some (c_next st)) (c_next st + 1)) (c_next st) (c :: closed) eq_refl (Hnew _ Hb2))
          as (R1 & R2 & R3 & R4).
        cbn zeta in *. cbn [fst snd app trace_ok closes rev nconnects c_next] in *. rewrite N.eqb_refl. cbn [andb].
        split; [exact R1|]. split; [rewrite <- app_assoc; exact R2|rewrite R3, R4; lia].
      * cbn [fst snd app trace_ok closes rev nconnects c_next]. rewrite N.eqb_refl. cbn [andb].
        split; [reflexivity|]. split; [exact (Hnone _ Hb2)|lia].
    + destruct (after_conn_trace sc st c closed Ec Hi) as (R1 & R2 & R3 & R4). cbn zeta in *. cbn [fst snd app] in *.
      split; [exact R1|]. split; [exact R2|rewrite R3, R4; lia].
  - destruct (a_connect sc).
    + destruct (after_conn_trace sc (mkC (Some (c_next st)) (c_next st + 1)) (c_next st) closed eq_refl (Hnew _ (proj2 Hi)))
        as (R1 & R2 & R3 & R4).
      cbn zeta in *. cbn [fst snd app trace_ok closes rev nconnects c_next] in *. rewrite N.eqb_refl. cbn [andb].
      split; [exact R1|]. split; [exact R2|rewrite R3, R4; lia].
    + cbn [fst snd app trace_ok closes rev nconnects c_next]. rewrite N.eqb_refl. cbn [andb].
      split; [reflexivity|]. split; [exact (Hnone _ (proj2 Hi))|lia].
Qed.

Definition all_acts (tr : list (aout * list act)) : list act := flat_map snd tr.

Lemma closes_app a b : closes (a ++ b) = closes a ++ closes b.
Proof. induction a as [|x a IH]; [reflexivity|]. destruct x; cbn [app closes]; now rewrite IH. Qed.
Lemma nconnects_app a b : nconnects (a ++ b) = nconnects a + nconnects b.
Proof. induction a as [|x a IH]; [reflexivity|]. destruct x; cbn [app nconnects]; rewrite IH; lia. Qed.

Definition legal (st : cstate) (closed : list N) (st' : cstate) (acts : list act) : Prop :=
  trace_ok closed (c_next st) acts = true /\
  cinv st' (rev (closes acts) ++ closed) /\
  c_next st' = c_next st + nconnects acts.

Lemma legal_nil st closed : cinv st closed -> legal st closed st [].
Proof. intros H. split; [reflexivity|]. split; [exact H|cbn; lia]. Qed.

Lemma legal_app st closed st1 a st2 b :
  legal st closed st1 a -> legal st1 (rev (closes a) ++ closed) st2 b -> legal st closed st2 (a ++ b).
Proof.
  intros (A1 & A2 & A3) (B1 & B2 & B3). split; [|split].
  - rewrite trace_ok_app, A1. cbn [andb]. rewrite <- A3. exact B1.
  - rewrite closes_app, rev_app_distr, <- app_assoc. exact B2.
  - rewrite nconnects_app. lia.
Qed.

Lemma perform_legal idem retries : forall scripts attempt st closed, cinv st closed ->
  legal st closed (fst (fst (perform idem retries attempt st scripts))) (all_acts (snd (perform idem retries attempt st scripts))).
Proof.
  induction scripts as [|sc rest IH]; intros attempt st closed Hi; cbn [perform].
  - cbn [fst snd all_acts flat_map]. now apply legal_nil.
  - pose proof (execute_trace st sc closed Hi) as He. cbn zeta in He.
    destruct (execute st sc) as [[st' out] acts]. cbn [fst snd] in He.
    assert (Hone : legal st closed st' (all_acts [(out, acts)])).
    { unfold all_acts. cbn [flat_map snd]. rewrite app_nil_r. exact He. }
    destruct out; try exact Hone;
      (destruct (negb _); [exact Hone|]); (destruct (Z.leb retries attempt); [exact Hone|]);
      cbn [fst snd]; unfold all_acts; cbn [flat_map snd]; fold (all_acts (snd (perform idem retries (attempt + 1) st' rest)));
      (eapply legal_app; [exact He|]); apply IH; apply He.
Qed.

Definition req_acts (rs : list (option aout * list (aout * list act))) : list act := flat_map (fun r => all_acts (snd r)) rs.

Lemma requests_legal : forall rs st closed, cinv st closed ->
  legal st closed (fst (requests st rs)) (req_acts (snd (requests st rs))).
Proof.
  induction rs as [|[[idem retries] scs] rs IH]; intros st closed Hi; cbn [requests].
  - cbn [fst snd req_acts flat_map]. now apply legal_nil.
  - cbn [fst snd req_acts flat_map]. fold (req_acts (snd (requests (fst (fst (perform idem retries 0 st scs))) rs))).
    eapply legal_app; [apply perform_legal; exact Hi|]. apply IH. apply (perform_legal idem retries scs 0%Z st closed Hi).
Qed.

Lemma init_cinv : cinv cinit [].
Proof. split; intros c; cbn; discriminate. Qed.

(* over the whole life of a client: every send is on a connection not closed before, connects are fresh *)
Theorem client_trace_legal rs : trace_ok [] 1 (req_acts (snd (requests cinit rs))) = true.
Proof. exact (proj1 (requests_legal rs cinit [] init_cinv)). Qed.

(* a failing attempt closes the connection it used *)
Lemma after_conn_fail_closes sc st1 c : snd (fst (after_conn sc st1 c)) <> AOk -> In (ActClose c) (snd (after_conn sc st1 c)).
Proof.
  unfold after_conn. destruct (a_setmode sc); cbn [negb]; [|intros _; cbn; auto].
  destruct (a_send sc); cbn [negb]; [|intros _; cbn; auto].
  destruct (receive_spec st1 c (a_async sc) (a_rx sc)) as (_ & _ & [(Ho & _)|(_ & Ha)]); cbn [fst snd]; [congruence|].
  intros _. rewrite Ha. cbn. auto.
Qed.

Theorem failed_attempt_closes st sc c : snd (fst (execute st sc)) <> AOk ->
  (exists ok, In (ActSend c ok) (snd (execute st sc))) \/ In (ActConnect c true) (snd (execute st sc)) ->
  In (ActClose c) (snd (execute st sc)).
Proof.
  rewrite execute_unfold.
  assert (S : forall st1 c1 ok, In (ActSend c ok) (snd (after_conn sc st1 c1)) -> c = c1).
  { intros st1 c1 ok. unfold after_conn. destruct (a_setmode sc); cbn [negb]; [|cbn; intuition congruence].
    destruct (a_send sc); cbn [negb]; [|cbn; intuition congruence].
    destruct (receive_spec st1 c1 (a_async sc) (a_rx sc)) as (_ & _ & [(_ & _ & Ha)|(_ & Ha)]); cbn [fst snd]; rewrite Ha;
      cbn; intuition congruence. }
  assert (NC : forall st1 c1 x, ~ In (ActConnect c x) (snd (after_conn sc st1 c1))).
  { intros st1 c1 x. unfold after_conn. destruct (a_setmode sc); cbn [negb]; [|cbn; intuition congruence].
    destruct (a_send sc); cbn [negb]; [|cbn; intuition congruence].
    destruct (receive_spec st1 c1 (a_async sc) (a_rx sc)) as (_ & _ & [(_ & _ & Ha)|(_ & Ha)]); cbn [fst snd]; rewrite Ha;
      cbn; intuition congruence. }
  destruct (c_cache st) as [c0|]; [destruct (a_idle sc)|]; destruct (a_connect sc); cbn [fst snd app In];
    intros Hne Huse.
  - assert (c = c_next st).
    { destruct Huse as [[ok [H|[H|H]]]|[H|[H|H]]]; try congruence; [now apply S in H|exfalso; now apply NC in H]. }
    subst c. right; right. now apply after_conn_fail_closes.
  - destruct Huse as [[ok [H|[H|[]]]]|[H|[H|[]]]]; congruence.
  - assert (c = c0).
    { destruct Huse as [[ok H]|H]; [now apply S in H|exfalso; now apply NC in H]. }
    subst c. now apply after_conn_fail_closes.
  - assert (c = c0).
    { destruct Huse as [[ok H]|H]; [now apply S in H|exfalso; now apply NC in H]. }
    subst c. now apply after_conn_fail_closes.
  - assert (c = c_next st).
    { destruct Huse as [[ok [H|H]]|[H|H]]; try congruence; [now apply S in H|exfalso; now apply NC in H]. }
    subst c. right. now apply after_conn_fail_closes.
  - destruct Huse as [[ok [H|[]]]|[H|[]]]; congruence.
Qed.

(* a peer that sends nothing: the first receive wait ends the attempt *)
Theorem silent_peer_ends_attempt st c a l :
  receive st c a (RTimeout :: l) = (fst (drop st c), AOther, snd (drop st c)) /\
  receive st c a [] = (fst (drop st c), AOther, snd (drop st c)).
Proof. split; reflexivity. Qed.
