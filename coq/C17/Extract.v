(* C17/Extract.v — extraction of the HTTP client exchange/retry model (ExtrOcamlBasic only) *)
From IoraVerif Require Import C17.Model.
Require Import ExtrOcamlBasic.
Extraction Language OCaml.
Extraction "../build/ocaml/c17_model.ml" execute perform requests cinit.
