(* C17/Properties.v — the property theorems for C17 and nothing else.
   An attempt script (Model.v script) fixes what the network and the peer do in one attempt:
   the fault and its position are arbitrary. *)
From IoraVerif Require Import Common.Bytes C17.Model C17.Proofs.
From Coq Require Import ZArith.
Local Open Scope N_scope.

(* 1. Non-idempotent method, ANY retry budget, ANY list of attempt scripts: every attempt except
      the last ended in the pre-send region (HttpRequestNotSentError) without handing a byte to
      the transport's send ... *)
Theorem client_non_idempotent_at_most_once : forall retries scripts attempt st,
  Forall presend (removelast (snd (perform false retries attempt st scripts))).
Proof. exact nonidem_at_most_once. Qed.
Print Assumptions client_non_idempotent_at_most_once.

(* ... hence at most one attempt reaches the send. *)
Theorem client_non_idempotent_send_count : forall retries scripts attempt st,
  (length (filter (fun p => has_send (snd p)) (snd (perform false retries attempt st scripts))) <= 1)%nat.
Proof. exact nonidem_send_count. Qed.
Print Assumptions client_non_idempotent_send_count.

(* 2. Any method: at most max(budget, 0) + 1 attempts. *)
Theorem client_attempts_bounded : forall idem retries scripts st,
  (Z.of_nat (length (snd (perform idem retries 0 st scripts))) <= Z.max retries 0 + 1)%Z.
Proof. intros. pose proof (attempts_bounded idem retries scripts 0%Z st) as H. now rewrite Z.sub_0_r in H. Qed.
Print Assumptions client_attempts_bounded.

(* 3. A framing error (and a response) is final: never followed by another attempt. *)
Theorem client_framing_never_retried : forall idem retries scripts attempt st,
  Forall (fun p => fst p <> AOk /\ fst p <> AFraming) (removelast (snd (perform idem retries attempt st scripts))).
Proof. exact final_outcomes_last. Qed.
Print Assumptions client_framing_never_retried.

(* 4. Over the whole life of a client (any sequence of requests, methods, budgets, scripts): a
      request is only ever sent on a connection that has not been closed, and every new
      connection is a fresh one. *)
Theorem client_no_send_on_closed_connection : forall rs,
  trace_ok [] 1 (req_acts (snd (requests cinit rs))) = true.
Proof. exact client_trace_legal. Qed.
Print Assumptions client_no_send_on_closed_connection.

(* 5. An attempt that does not return a response closes the connection it used and leaves
      nothing cached (so neither a retry nor a later request can reuse it). *)
Theorem client_failure_evicts : forall st sc, snd (fst (execute st sc)) <> AOk ->
  c_cache (fst (fst (execute st sc))) = None.
Proof. exact execute_fail_evicts. Qed.
Print Assumptions client_failure_evicts.

Theorem client_failure_closes : forall st sc c, snd (fst (execute st sc)) <> AOk ->
  (exists ok, In (ActSend c ok) (snd (execute st sc))) \/ In (ActConnect c true) (snd (execute st sc)) ->
  In (ActClose c) (snd (execute st sc)).
Proof. exact failed_attempt_closes. Qed.
Print Assumptions client_failure_closes.

(* 6. A response that is complete but not reusable (close signal, surplus bytes, close-delimited
      body, or a failing switch back to Async) also closes the connection. *)
Theorem client_non_reusable_closed : forall st c a l reusable,
  reusable && a = false ->
  receive st c a (RChunk (VDone reusable) :: l) = (fst (drop st c), AOk, [ActClose c]) /\
  receive st c a (RClosed true :: l) = (fst (drop st c), AOk, [ActClose c]).
Proof. intros st c a l reusable H. cbn [receive]. rewrite H. split; reflexivity. Qed.
Print Assumptions client_non_reusable_closed.

(* 7. A peer that sends nothing: the attempt ends at the first receive timeout. *)
Theorem client_silent_peer : forall st c a l,
  receive st c a (RTimeout :: l) = (fst (drop st c), AOther, snd (drop st c)) /\
  receive st c a [] = (fst (drop st c), AOther, snd (drop st c)).
Proof. exact silent_peer_ends_attempt. Qed.
Print Assumptions client_silent_peer.

(* ------------------------------------------------ non-vacuity *)
Definition s_refused := mkScript false false true true true [].
Definition s_reset_after_send := mkScript false true true true true [RClosed false].
Definition s_ok := mkScript false true true true true [RChunk VMore; RChunk (VDone true)].
Example post_refused_twice_then_reset :
  (* POST, budget 3: two refused connects are retried, the reset after the send is not *)
  perform false 3 0 cinit [s_refused; s_refused; s_reset_after_send; s_ok] =
  (mkC None 4, Some AOther,
   [(ANotSent, [ActConnect 1 false]); (ANotSent, [ActConnect 2 false]);
    (AOther, [ActConnect 3 true; ActSend 3 true; ActClose 3])]).
Proof. vm_compute. reflexivity. Qed.
Example get_retried_after_reset :
  snd (fst (perform true 3 0 cinit [s_reset_after_send; s_ok])) = Some AOk.
Proof. vm_compute. reflexivity. Qed.
