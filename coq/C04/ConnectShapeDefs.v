(* C04/ConnectShapeDefs.v — vocabulary of the generated coq/Gen/ConnectShape.v: Transport::connectSync as the sequence
   (program order, with statement nesting depth) of lock / unlock of syncMutex, reads of the shuttingDown fence, the call
   of engine->connect, the registration in pendingConnects, the wait on the operation's condition variable and the call
   of engine->close.

   The caller of the C04 model (C04/Model.v) is ONE atomic step from "takes syncMutex" to "is parked in wait_for with its
   entry registered" - the I/O thread's onConnect / onClose handlers, which take syncMutex, cannot run in between - and its
   time-out path issues engine->close with syncMutex released and takes it again before it returns.  [connect_shape_ok]
   checks that the source has exactly this shape (the seeded change C04 round 3 narrowed the lock around
   engine->connect; it is refused).  Definitions only. *)
From Coq Require Import List Bool Arith.
Import ListNotations.

Inductive kev :=
| KLock (d : nat) | KUnlock (d : nat) | KFence (d : nat) | KEngineConnect (d : nat) | KRegister (d : nat)
| KWait (d : nat) | KEngineClose (d : nat) | KReturn (d : nat).

Definition depth_of (e : kev) : nat :=
  match e with KLock d | KUnlock d | KFence d | KEngineConnect d | KRegister d | KWait d | KEngineClose d | KReturn d => d end.
Definition top_level (l : list kev) : list kev := filter (fun e => Nat.eqb (depth_of e) 0) l.

(* phases of the main path: 0 before the lock, 1 locked, 2 fence read, 3 connect issued, 4 registered, 5 parked (waited),
   6 unlocked for the time-out close, 7 close issued, 8 locked again *)
Fixpoint phases (ph : nat) (l : list kev) : bool :=
  match l with
  | [] => Nat.eqb ph 5 || Nat.eqb ph 8 || Nat.eqb ph 9
  | e :: t =>
    match ph, e with
    | 0, KLock _ => phases 1 t
    | 1, KFence _ => phases 2 t
    | 2, KEngineConnect _ => phases 3 t
    | 3, KRegister _ => phases 4 t
    | 4, KWait _ => phases 5 t
    | 5, KFence _ => phases 5 t
    | 5, KUnlock _ => phases 6 t
    | 6, KEngineClose _ => phases 7 t
    | 7, KLock _ => phases 8 t
    | 8, KFence _ => phases 8 t
    | 8, KReturn _ => phases 8 t
    | 8, KUnlock _ => phases 9 t           (* scope exit at the end of the function *)
    | 5, KReturn _ => phases 5 t
    | _, _ => false
    end
  end.

(* nothing at any depth touches the engine's close with the lock held, nor connects / registers without it
   (the UDP shortcut - engine->connect at depth 1 before the lock - is the one exception the code documents) *)
Fixpoint lock_discipline (held seen_lock : bool) (l : list kev) : bool :=
  match l with
  | [] => true
  | KLock _ :: t => lock_discipline true true t
  | KUnlock _ :: t => lock_discipline false seen_lock t
  | KEngineClose _ :: t => negb held && lock_discipline held seen_lock t
  | KRegister _ :: t => held && lock_discipline held seen_lock t
  | KWait _ :: t => held && lock_discipline held seen_lock t
  | KEngineConnect d :: t => (held || (negb seen_lock && Nat.eqb d 1)) && lock_discipline held seen_lock t
  | _ :: t => lock_discipline held seen_lock t
  end.

Definition connect_shape_ok (l : list kev) : bool := phases 0 (top_level l) && lock_discipline false false l.
