(* C04/Properties.v — the property theorems for C04 and nothing else.
   A history is any interleaving of connectSync callers (each: fence check + engine->connect + registration +
   park as one critical section; wake; timeout; the close it issues with the mutex released; the re-lock and
   return), plain connects, the I/O thread's onConnect / onClose handlers and the teardown fence.  `all_legal`
   restricts the engine's events to what C02 proves of the engines: at most one onConnect and one onClose per
   identifier, nothing after the close, and only for identifiers the engine handed out. *)
From IoraVerif Require Import C04.Model C04.Proofs.
Local Open Scope N_scope.

(* 1. Success only for a session whose handshake completed and that this call did not close. *)
Theorem sync_ok_is_live : forall ops c sid r,
  all_legal true cinit ops = true ->
  aget (c_callers (crun true cinit ops)) c = Some (PDone sid (ROk r)) ->
  r = sid /\ In sid (c_connected (crun true cinit ops)) /\ ~ In sid (c_closecmds (crun true cinit ops)).
Proof. intros ops c sid r Hl. apply t_ok_is_live. apply vinv_run; [apply vinv_init|exact Hl]. Qed.
Print Assumptions sync_ok_is_live.

(* 2. A global connect / close callback for an identifier of a synchronous connect means its caller has
      received (or, still parked with the result set, is about to receive) that identifier as success. *)
Theorem sync_globals_only_for_handed : forall ops g c p,
  all_legal true cinit ops = true ->
  In g (c_glog (crun true cinit ops)) -> aget (c_callers (crun true cinit ops)) c = Some p -> pc_sid p = gev_sid g ->
  (p = PWaiting (gev_sid g) /\ o_done (get_op (crun true cinit ops) (gev_sid g)) = Some (ROk (gev_sid g))) \/
  p = PDone (gev_sid g) (ROk (gev_sid g)).
Proof. intros ops g c p Hl. apply t_globals_only_for_handed. apply vinv_run; [apply vinv_init|exact Hl]. Qed.
Print Assumptions sync_globals_only_for_handed.

(* 3. A timed-out attempt has issued the close of its connection before it returns. *)
Theorem sync_timeout_closes : forall ops c sid,
  all_legal true cinit ops = true ->
  aget (c_callers (crun true cinit ops)) c = Some (PDone sid (RErr ETimeout)) ->
  In sid (c_closecmds (crun true cinit ops)).
Proof. intros ops c sid Hl. apply t_timeout_closes. apply vinv_run; [apply vinv_init|exact Hl]. Qed.
Print Assumptions sync_timeout_closes.

(* 4. A pendingConnects entry never outlives the engine's close of its identifier, and exists exactly as
      long as the operation has no result. *)
Theorem sync_no_orphan_entry : forall ops sid,
  all_legal true cinit ops = true ->
  In sid (c_pending (crun true cinit ops)) ->
  ~ In sid (c_closed (crun true cinit ops)) /\ o_done (get_op (crun true cinit ops) sid) = None.
Proof. intros ops sid Hl. apply t_no_orphan. apply vinv_run; [apply vinv_init|exact Hl]. Qed.
Print Assumptions sync_no_orphan_entry.

(* 5. Every return is definite, and behind the fence no connect is issued. *)
Theorem sync_fence_rejects : forall s c,
  c_shut s = true -> aget (c_callers s) c = None ->
  aget (c_callers (cstep true s (SBegin c))) c = Some (PDone 0 (RErr EShutting)) /\
  c_next (cstep true s (SBegin c)) = c_next s.
Proof.
  intros s c Hs Hc. cbn [cstep]. rewrite Hc, Hs. unfold set_caller. cbn [c_callers c_next]. rewrite aget_aset, N.eqb_refl. auto.
Qed.
Print Assumptions sync_fence_rejects.

(* 6. The code as found: the connect completes in the window between the timeout and the close the caller
      issues; the handler hands the id to nobody, erases the entry, and the close that follows is delivered to
      the GLOBAL close callback although the caller returned Timeout.  Refuted. *)
Definition late_connect_trace : list cop :=
  [SBegin 0; STimeout 0; SHConnect 1; SIssueClose 0; SFinish 0; SHClose 1].
Theorem sync_late_connect_refuted :
  all_legal false cinit late_connect_trace = true /\
  aget (c_callers (crun false cinit late_connect_trace)) 0 = Some (PDone 1 (RErr ETimeout)) /\
  c_glog (crun false cinit late_connect_trace) = [GClose 1].
Proof. vm_compute. auto. Qed.
Print Assumptions sync_late_connect_refuted.

(* 6'. The same for a caller woken by the teardown fence while the engine still runs. *)
Definition late_connect_fence_trace : list cop := [SBegin 0; SFence; SWake 0; SHConnect 1; SHClose 1].
Theorem sync_late_connect_fence_refuted :
  all_legal false cinit late_connect_fence_trace = true /\
  aget (c_callers (crun false cinit late_connect_fence_trace)) 0 = Some (PDone 1 (RErr EShutting)) /\
  c_glog (crun false cinit late_connect_fence_trace) = [GClose 1].
Proof. vm_compute. auto. Qed.
Print Assumptions sync_late_connect_fence_refuted.

(* ------------------------------------------------ non-vacuity *)
Example sync_demo :
  let ops := [SBegin 0; SAsync; SBegin 1; SHConnect 1; SWake 0; SHConnect 2; STimeout 1; SHConnect 3; SIssueClose 1;
              SHClose 1; SFinish 1; SHClose 3; SHClose 2; SFence; SBegin 2] in
  all_legal true cinit ops = true /\
  c_callers (crun true cinit ops) = [(2, PDone 0 (RErr EShutting)); (1, PDone 3 (RErr ETimeout)); (0, PDone 1 (ROk 1))] /\
  c_glog (crun true cinit ops) = [GConnect 2; GClose 1; GClose 2] /\
  c_pending (crun true cinit ops) = [] /\ c_closecmds (crun true cinit ops) = [3].
Proof. vm_compute. repeat split. Qed.
