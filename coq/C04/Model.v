(* C04/Model.v — Transport::connectSync against the I/O thread's onConnect / onClose handlers and teardown.

   transport_impl.hpp: connectSync holds syncMutex from engine->connect() until it parks in wait_for, so the
   handlers (which take syncMutex) see the pendingConnects entry; on timeout it releases the mutex, issues
   engine->close(sid), re-locks and returns Timeout.  The engine is an event source: onConnect(sid) /
   onClose(sid) arrive in any order the engine's own guarantee (C02: at most one connect, one close, nothing
   after the close) allows; `legal` states exactly that guarantee.
   `fixed = false` is the code as found (a late onConnect in the unlock window erased the entry, so the close
   that followed went to the GLOBAL callbacks); `fixed = true` marks the operation abandoned on timeout and
   keeps the entry until the engine's close. *)
From IoraVerif Require Export Common.Assoc.
Local Open Scope N_scope.

Inductive ecode := EShutting | ETimeout | EEngine | ERefused.
Inductive cres := ROk (sid : N) | RErr (e : ecode).

Inductive cpc :=
| PWaiting (sid : N)        (* registered, parked in wait_for (syncMutex released) *)
| PUnlocked (sid : N)       (* timed out, mutex released, close not yet issued *)
| PCloseIssued (sid : N)    (* engine->close(sid) called, not yet re-locked *)
| PDone (sid : N) (r : cres). (* returned; sid = 0 when no connect was issued *)

Record op := mkOp { o_done : option cres; o_abandoned : bool }.
Inductive gev := GConnect (sid : N) | GClose (sid : N).

Record cst := mkC {
  c_next : N;                  (* engine's next session id *)
  c_ops : amap op;             (* sid -> the SyncConnectOp the caller holds (shared_ptr: outlives the map entry) *)
  c_pending : list N;          (* keys of pendingConnects *)
  c_shut : bool;               (* shuttingDown *)
  c_refuse : bool;             (* the engine's command queue is closed: connect() returns an error *)
  c_callers : amap cpc;        (* caller index -> where it is; absent = has not called yet *)
  c_async : list N;            (* ids returned by plain connect() *)
  c_closecmds : list N;        (* engine->close(sid) issued by a timed-out connectSync *)
  c_connected : list N;        (* ghost: onConnect(sid) has been delivered by the engine *)
  c_closed : list N;           (* ghost: onClose(sid) has been delivered by the engine *)
  c_glog : list gev            (* global callbacks invoked *)
}.
Definition cinit : cst := mkC 1 [] [] false false [] [] [] [] [] [].

Inductive cop :=
| SBegin (c : N)          (* a caller enters connectSync: fence check, engine->connect, registration, park *)
| SAsync                  (* plain connect() by the application *)
| SHConnect (sid : N)     (* I/O thread: onConnect handler *)
| SHClose (sid : N)       (* I/O thread: onClose handler *)
| SWake (c : N)           (* the parked caller re-checks its predicate *)
| STimeout (c : N)        (* wait_for timed out: release the mutex *)
| SIssueClose (c : N)     (* engine->close(sid) *)
| SFinish (c : N)         (* re-lock and return *)
| SFence                  (* teardown sets shuttingDown and notifies *)
| SRefuse.                (* the engine closed its command queue *)

Definition mem (x : N) (l : list N) : bool := existsb (N.eqb x) l.
Definition remove (x : N) (l : list N) : list N := filter (fun y => negb (y =? x)) l.
Definition get_op (s : cst) (sid : N) : op := match aget (c_ops s) sid with Some o => o | None => mkOp None false end.

Definition set_caller (s : cst) (c : N) (p : cpc) : cst :=
  mkC (c_next s) (c_ops s) (c_pending s) (c_shut s) (c_refuse s) (aset (c_callers s) c p) (c_async s)
      (c_closecmds s) (c_connected s) (c_closed s) (c_glog s).

Definition cstep (fixed : bool) (s : cst) (o : cop) : cst :=
  match o with
  | SBegin c =>
    match aget (c_callers s) c with
    | Some _ => s
    | None =>
      if c_shut s then set_caller s c (PDone 0 (RErr EShutting))
      else if c_refuse s then
        mkC (c_next s + 1) (c_ops s) (c_pending s) (c_shut s) (c_refuse s) (aset (c_callers s) c (PDone 0 (RErr ERefused)))
            (c_async s) (c_closecmds s) (c_connected s) (c_closed s) (c_glog s)
      else
        let sid := c_next s in
        mkC (sid + 1) (aset (c_ops s) sid (mkOp None false)) (sid :: c_pending s) (c_shut s) (c_refuse s)
            (aset (c_callers s) c (PWaiting sid)) (c_async s) (c_closecmds s) (c_connected s) (c_closed s) (c_glog s)
    end
  | SAsync =>
    if c_refuse s then
      mkC (c_next s + 1) (c_ops s) (c_pending s) (c_shut s) (c_refuse s) (c_callers s) (c_async s)
          (c_closecmds s) (c_connected s) (c_closed s) (c_glog s)
    else
      mkC (c_next s + 1) (c_ops s) (c_pending s) (c_shut s) (c_refuse s) (c_callers s) (c_next s :: c_async s)
          (c_closecmds s) (c_connected s) (c_closed s) (c_glog s)
  | SHConnect sid =>
    if mem sid (c_pending s) then
      if fixed && o_abandoned (get_op s sid) then
        (* abandoned: nobody will take the id; keep the entry for the close that follows *)
        mkC (c_next s) (c_ops s) (c_pending s) (c_shut s) (c_refuse s) (c_callers s) (c_async s)
            (c_closecmds s) (sid :: c_connected s) (c_closed s) (c_glog s)
      else
        mkC (c_next s) (aset (c_ops s) sid (mkOp (Some (ROk sid)) (o_abandoned (get_op s sid)))) (remove sid (c_pending s))
            (c_shut s) (c_refuse s) (c_callers s) (c_async s) (c_closecmds s) (sid :: c_connected s) (c_closed s) (c_glog s)
    else
      mkC (c_next s) (c_ops s) (c_pending s) (c_shut s) (c_refuse s) (c_callers s) (c_async s)
          (c_closecmds s) (sid :: c_connected s) (c_closed s) (c_glog s ++ [GConnect sid])
  | SHClose sid =>
    if mem sid (c_pending s) then
      mkC (c_next s) (aset (c_ops s) sid (mkOp (Some (RErr EEngine)) (o_abandoned (get_op s sid)))) (remove sid (c_pending s))
          (c_shut s) (c_refuse s) (c_callers s) (c_async s) (c_closecmds s) (c_connected s) (sid :: c_closed s) (c_glog s)
    else
      mkC (c_next s) (c_ops s) (c_pending s) (c_shut s) (c_refuse s) (c_callers s) (c_async s)
          (c_closecmds s) (c_connected s) (sid :: c_closed s) (c_glog s ++ [GClose sid])
  | SWake c =>
    match aget (c_callers s) c with
    | Some (PWaiting sid) =>
      match o_done (get_op s sid) with
      | Some r => set_caller s c (PDone sid r)
      | None =>
        if c_shut s then
          mkC (c_next s) (if fixed then aset (c_ops s) sid (mkOp None true) else c_ops s) (c_pending s) (c_shut s) (c_refuse s)
              (aset (c_callers s) c (PDone sid (RErr EShutting))) (c_async s) (c_closecmds s) (c_connected s) (c_closed s) (c_glog s)
        else s
      end
    | _ => s
    end
  | STimeout c =>
    match aget (c_callers s) c with
    | Some (PWaiting sid) =>
      match o_done (get_op s sid) with
      | Some _ => s                                   (* the predicate holds: this is a wake, not a timeout *)
      | None =>
        if c_shut s then s else
        mkC (c_next s) (if fixed then aset (c_ops s) sid (mkOp None true) else c_ops s) (c_pending s) (c_shut s) (c_refuse s)
            (aset (c_callers s) c (PUnlocked sid)) (c_async s) (c_closecmds s) (c_connected s) (c_closed s) (c_glog s)
      end
    | _ => s
    end
  | SIssueClose c =>
    match aget (c_callers s) c with
    | Some (PUnlocked sid) =>
      mkC (c_next s) (c_ops s) (c_pending s) (c_shut s) (c_refuse s) (aset (c_callers s) c (PCloseIssued sid)) (c_async s)
          (sid :: c_closecmds s) (c_connected s) (c_closed s) (c_glog s)
    | _ => s
    end
  | SFinish c =>
    match aget (c_callers s) c with
    | Some (PCloseIssued sid) => set_caller s c (PDone sid (RErr (if c_shut s then EShutting else ETimeout)))
    | _ => s
    end
  | SFence =>
    mkC (c_next s) (c_ops s) (c_pending s) true (c_refuse s) (c_callers s) (c_async s)
        (c_closecmds s) (c_connected s) (c_closed s) (c_glog s)
  | SRefuse =>
    mkC (c_next s) (c_ops s) (c_pending s) (c_shut s) true (c_callers s) (c_async s)
        (c_closecmds s) (c_connected s) (c_closed s) (c_glog s)
  end.

(* an id the engine has handed out (ids consumed by a refused connect never produce events) *)
Definition known (s : cst) (sid : N) : bool :=
  mem sid (c_async s) || match aget (c_ops s) sid with Some _ => true | None => false end.

(* the engine's guarantee for an outbound connect (C02): at most one onConnect, one onClose, nothing after it *)
Definition legal (s : cst) (o : cop) : bool :=
  match o with
  | SHConnect sid => negb (mem sid (c_closed s)) && negb (mem sid (c_connected s)) && known s sid
  | SHClose sid => negb (mem sid (c_closed s)) && known s sid
  | _ => true
  end.

Fixpoint crun (fixed : bool) (s : cst) (ops : list cop) : cst :=
  match ops with [] => s | o :: r => crun fixed (cstep fixed s o) r end.
Fixpoint all_legal (fixed : bool) (s : cst) (ops : list cop) : bool :=
  match ops with [] => true | o :: r => legal s o && all_legal fixed (cstep fixed s o) r end.

Definition gev_sid (g : gev) : N := match g with GConnect i | GClose i => i end.
