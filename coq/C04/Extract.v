(* C04/Extract.v — extraction of the connectSync model (ExtrOcamlBasic only) *)
From IoraVerif Require Import C04.Model.
Require Import ExtrOcamlBasic.
Extraction Language OCaml.
Extraction "../build/ocaml/c04_model.ml" cstep cinit legal get_op.
