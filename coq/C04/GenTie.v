(* C04/GenTie.v — the tie between the caller step of the connectSync model and the source as it is NOW
   (coq/Gen/ConnectShape.v is regenerated from include/iora/network/transport_impl.hpp on every check run). *)
From Coq Require Import List.
Import ListNotations.
From IoraVerif Require Import C04.ConnectShapeDefs Gen.ConnectShape.

(* connectSync takes syncMutex, reads the fence, issues engine->connect, registers the operation and parks in wait_for
   without releasing the mutex in between; its time-out path calls engine->close with the mutex released and takes it
   again before returning *)
Theorem connect_sync_generated_shape_ok : connect_shape_ok connectSync_events = true.
Proof. vm_compute. reflexivity. Qed.
Print Assumptions connect_sync_generated_shape_ok.

(* refused: the lock narrowed around engine->connect (seeded C04 round 3); registration after the wait; engine->close
   under the lock *)
Example narrowed_lock_refused :
  connect_shape_ok [KLock 0; KFence 0; KUnlock 0; KEngineConnect 0; KLock 0; KRegister 0; KWait 0; KUnlock 0; KEngineClose 0; KLock 0; KReturn 0; KUnlock 0] = false.
Proof. reflexivity. Qed.
Example close_under_lock_refused :
  connect_shape_ok [KLock 0; KFence 0; KEngineConnect 0; KRegister 0; KWait 0; KEngineClose 0; KReturn 0; KUnlock 0] = false.
Proof. reflexivity. Qed.
Example no_fence_refused :
  connect_shape_ok [KLock 0; KEngineConnect 0; KRegister 0; KWait 0; KUnlock 0; KEngineClose 0; KLock 0; KReturn 0; KUnlock 0] = false.
Proof. reflexivity. Qed.
