(* C04/Proofs.v — invariant of the connectSync model (fixed variant) and its consequences *)
From IoraVerif Require Import C04.Model.
Local Open Scope N_scope.

Lemma mem_in x l : mem x l = true <-> In x l.
Proof.
  unfold mem. rewrite existsb_exists. split.
  - intros [y [Hy E]]. apply N.eqb_eq in E. now subst.
  - intros H. exists x. split; [exact H|apply N.eqb_refl].
Qed.
Lemma mem_false x l : mem x l = false <-> ~ In x l.
Proof. rewrite <- mem_in. destruct (mem x l); split; intros; try congruence; tauto. Qed.
Lemma in_remove x y l : In y (remove x l) <-> In y l /\ y <> x.
Proof.
  unfold remove. rewrite filter_In. rewrite negb_true_iff, N.eqb_neq. tauto.
Qed.

Definition pc_sid (p : cpc) : N :=
  match p with PWaiting s | PUnlocked s | PCloseIssued s | PDone s _ => s end.

Definition caller_ok (s : cst) (p : cpc) : Prop :=
  match p with
  | PWaiting sid => exists o, aget (c_ops s) sid = Some o /\ o_abandoned o = false
  | PUnlocked sid => exists o, aget (c_ops s) sid = Some o /\ o_abandoned o = true /\ ~ In sid (c_closecmds s)
  | PCloseIssued sid => (exists o, aget (c_ops s) sid = Some o /\ o_abandoned o = true) /\ In sid (c_closecmds s)
  | PDone sid r =>
    (sid = 0 /\ (r = RErr EShutting \/ r = RErr ERefused)) \/
    (exists o, aget (c_ops s) sid = Some o /\
       ((o_done o = Some r /\ o_abandoned o = false) \/
        (o_abandoned o = true /\ (r = RErr EShutting /\ ~ In sid (c_closecmds s) \/ (r = RErr ETimeout \/ r = RErr EShutting) /\ In sid (c_closecmds s)))))
  end.

Record vinv (s : cst) : Prop := mkV {
  v_pos : 1 <= c_next s;
  v_fresh : forall sid, c_next s <= sid -> aget (c_ops s) sid = None /\ ~ In sid (c_async s);
  v_async : forall sid, In sid (c_async s) -> aget (c_ops s) sid = None /\ 1 <= sid;
  v_keys : forall sid o, aget (c_ops s) sid = Some o -> 1 <= sid;
  v_pend : forall sid, In sid (c_pending s) <-> exists o, aget (c_ops s) sid = Some o /\ o_done o = None;
  v_done : forall sid o r, aget (c_ops s) sid = Some o -> o_done o = Some r ->
             (r = ROk sid /\ In sid (c_connected s) /\ o_abandoned o = false) \/ (r = RErr EEngine /\ In sid (c_closed s));
  v_open : forall sid, In sid (c_pending s) -> ~ In sid (c_closed s);
  v_closed_lt : forall sid, In sid (c_closed s) -> sid < c_next s;
  v_callers : forall c p, aget (c_callers s) c = Some p -> caller_ok s p /\ pc_sid p < c_next s;
  v_owner : forall c c' p p', aget (c_callers s) c = Some p -> aget (c_callers s) c' = Some p' ->
              pc_sid p = pc_sid p' -> pc_sid p <> 0 -> c = c';
  v_closecmds : forall sid, In sid (c_closecmds s) -> exists o, aget (c_ops s) sid = Some o /\ o_abandoned o = true;
  v_glog : forall g, In g (c_glog s) ->
             In (gev_sid g) (c_async s) \/
             exists o, aget (c_ops s) (gev_sid g) = Some o /\ o_done o = Some (ROk (gev_sid g)) /\ o_abandoned o = false
}.

Lemma vinv_init : vinv cinit.
Proof.
  constructor; cbn; try (intros; tauto); try (intros; discriminate); try lia.
  intros sid. split; [tauto|]. intros [o [H _]]. discriminate.
Qed.

Lemma caller_ok_ext s s' p :
  aget (c_ops s') (pc_sid p) = aget (c_ops s) (pc_sid p) ->
  (In (pc_sid p) (c_closecmds s') <-> In (pc_sid p) (c_closecmds s)) ->
  caller_ok s p -> caller_ok s' p.
Proof.
  intros Ho Hc. destruct p as [sid|sid|sid|sid r]; cbn [caller_ok pc_sid] in *; rewrite Ho.
  - tauto.
  - intros [o (H1 & H2 & H3)]. exists o. tauto.
  - tauto.
  - intros [H|[o [H1 H2]]]; [now left|]. right. exists o. tauto.
Qed.

(* a caller moves on without touching the operation record or the close commands *)
Lemma vinv_set_caller s c p p' :
  vinv s -> aget (c_callers s) c = Some p -> pc_sid p' = pc_sid p -> caller_ok s p' -> vinv (set_caller s c p').
Proof.
  intros H Hc Hs Hok. destruct H.
  constructor; cbn [set_caller c_next c_ops c_pending c_callers c_async c_closecmds c_connected c_closed c_glog]; try assumption.
  - intros c0 p0. rewrite aget_aset. destruct (c =? c0) eqn:E.
    + intros Hp. injection Hp as <-. split; [exact Hok|]. rewrite Hs. exact (proj2 (v_callers0 _ _ Hc)).
    + intros Hp. destruct (v_callers0 _ _ Hp) as [Ho Hl]. split; [|exact Hl].
      destruct p0; cbn [caller_ok] in *; exact Ho.
  - intros c1 c2 p1 p2. rewrite !aget_aset. destruct (c =? c1) eqn:E1; destruct (c =? c2) eqn:E2.
    + apply N.eqb_eq in E1, E2. congruence.
    + apply N.eqb_eq in E1. subst c1. intros Hp1 Hp2. injection Hp1 as <-. rewrite Hs. intros He Hn.
      exact (v_owner0 _ _ _ _ Hc Hp2 He Hn).
    + apply N.eqb_eq in E2. subst c2. intros Hp1 Hp2. injection Hp2 as <-. rewrite Hs. intros He Hn.
      exact (v_owner0 _ _ _ _ Hp1 Hc He Hn).
    + apply v_owner0.
Qed.

Lemma vinv_flags s sh rf :
  vinv s -> vinv (mkC (c_next s) (c_ops s) (c_pending s) sh rf (c_callers s) (c_async s) (c_closecmds s) (c_connected s) (c_closed s) (c_glog s)).
Proof.
  intros H. destruct H. constructor; cbn; assumption.
Qed.

Lemma lt_weaken s : vinv s -> forall sid, c_next s + 1 <= sid -> aget (c_ops s) sid = None /\ ~ In sid (c_async s).
Proof. intros H sid Hs. apply (v_fresh _ H). lia. Qed.

Lemma vinv_consume s sh rf :
  vinv s -> vinv (mkC (c_next s + 1) (c_ops s) (c_pending s) sh rf (c_callers s) (c_async s)
                      (c_closecmds s) (c_connected s) (c_closed s) (c_glog s)).
Proof.
  intros H. pose proof (lt_weaken s H) as Hw. destruct H. constructor; cbn; try assumption; try lia.
  - intros sid Hs. specialize (v_closed_lt0 _ Hs). lia.
  - intros c p Hp. destruct (v_callers0 _ _ Hp) as [Ho Hl]. split; [destruct p; exact Ho|lia].
Qed.

Lemma vinv_async s sh rf :
  vinv s -> vinv (mkC (c_next s + 1) (c_ops s) (c_pending s) sh rf (c_callers s) (c_next s :: c_async s)
                      (c_closecmds s) (c_connected s) (c_closed s) (c_glog s)).
Proof.
  intros H. destruct H. constructor; cbn [c_next c_ops c_pending c_callers c_async c_closecmds c_connected c_closed c_glog]; try assumption; try lia.
  - intros sid Hs. destruct (v_fresh0 sid ltac:(lia)) as [Ha Hb]. split; [exact Ha|]. intros [E|Hi]; [lia|tauto].
  - intros sid [<-|Hi]; [|auto]. split; [apply v_fresh0; lia|lia].
  - intros sid Hs. specialize (v_closed_lt0 _ Hs). lia.
  - intros c p Hp. destruct (v_callers0 _ _ Hp) as [Ho Hl]. split; [destruct p; exact Ho|lia].
  - intros g Hg. destruct (v_glog0 g Hg) as [Ha|Hb]; [left; now right|now right].
Qed.

Lemma key_lt s sid o : vinv s -> aget (c_ops s) sid = Some o -> sid < c_next s.
Proof.
  intros H Ho. destruct (N.lt_ge_cases sid (c_next s)) as [?|Hge]; [assumption|].
  destruct (v_fresh _ H sid Hge). congruence.
Qed.
Lemma async_lt s sid : vinv s -> In sid (c_async s) -> sid < c_next s.
Proof.
  intros H Hi. destruct (N.lt_ge_cases sid (c_next s)) as [?|Hge]; [assumption|].
  destruct (v_fresh _ H sid Hge). tauto.
Qed.
Lemma known_lt s sid : vinv s -> known s sid = true -> sid < c_next s.
Proof.
  intros H Hk. unfold known in Hk. apply orb_true_iff in Hk. destruct Hk as [Hk|Hk].
  - apply mem_in in Hk. now apply async_lt.
  - destruct (aget (c_ops s) sid) eqn:E; [|discriminate]. eapply key_lt; eauto.
Qed.

(* connectSync registers a fresh identifier *)
Lemma vinv_begin s c sh rf :
  vinv s -> aget (c_callers s) c = None ->
  vinv (mkC (c_next s + 1) (aset (c_ops s) (c_next s) (mkOp None false)) (c_next s :: c_pending s) sh rf
            (aset (c_callers s) c (PWaiting (c_next s))) (c_async s) (c_closecmds s) (c_connected s) (c_closed s) (c_glog s)).
Proof.
  intros H Hc. pose proof (key_lt s) as Hkl. specialize (fun sid o => Hkl sid o H).
  set (n := c_next s) in *. destruct H.
  assert (Hn : aget (c_ops s) n = None /\ ~ In n (c_async s)) by (apply v_fresh0; unfold n; lia).
  constructor; cbn [c_next c_ops c_pending c_callers c_async c_closecmds c_connected c_closed c_glog]; try assumption; try lia.
  - intros sid Hs. rewrite aget_aset. destruct (n =? sid) eqn:E; [apply N.eqb_eq in E; lia|]. apply v_fresh0. lia.
  - intros sid Hi. rewrite aget_aset. destruct (n =? sid) eqn:E; [apply N.eqb_eq in E; subst; tauto|]. auto.
  - intros sid o. rewrite aget_aset. destruct (n =? sid) eqn:E; [apply N.eqb_eq in E; subst; intros _; unfold n; lia|]. apply v_keys0.
  - intros sid. cbn [In]. destruct (N.eq_dec n sid) as [E|E].
    + subst sid. split; [intros _; exists (mkOp None false); rewrite aget_aset, N.eqb_refl; auto|auto].
    + rewrite v_pend0. apply N.eqb_neq in E. split.
      * intros [?|[o Ho]]; [apply N.eqb_neq in E; tauto|]. exists o. now rewrite aget_aset, E.
      * intros [o Ho]. right. exists o. now rewrite aget_aset, E in Ho.
  - intros sid o r. rewrite aget_aset. destruct (n =? sid) eqn:E.
    + intros Ho. injection Ho as <-. discriminate.
    + apply v_done0.
  - intros sid [<-|Hi]; [|auto]. intros Hcl. specialize (v_closed_lt0 _ Hcl). lia.
  - intros sid Hs. specialize (v_closed_lt0 _ Hs). lia.
  - intros c0 p. rewrite aget_aset. destruct (c =? c0) eqn:E.
    + intros Hp. injection Hp as <-. split; [|cbn [pc_sid c_next]; lia]. cbn [caller_ok c_ops]. exists (mkOp None false). rewrite aget_aset, N.eqb_refl. auto.
    + intros Hp. destruct (v_callers0 _ _ Hp) as [Ho Hl]. split; [|lia].
      apply (caller_ok_ext s); [|reflexivity|exact Ho]. cbn [c_ops]. rewrite aget_aset.
      destruct (n =? pc_sid p) eqn:E2; [apply N.eqb_eq in E2; lia|reflexivity].
  - intros c1 c2 p1 p2. rewrite !aget_aset. destruct (c =? c1) eqn:E1; destruct (c =? c2) eqn:E2.
    + apply N.eqb_eq in E1, E2. congruence.
    + intros Hp1 Hp2. injection Hp1 as <-. cbn [pc_sid]. intros He. destruct (v_callers0 _ _ Hp2) as [_ Hl]. lia.
    + intros Hp1 Hp2. injection Hp2 as <-. cbn [pc_sid]. intros He. destruct (v_callers0 _ _ Hp1) as [_ Hl]. lia.
    + apply v_owner0.
  - intros sid Hi. destruct (v_closecmds0 _ Hi) as [o [Ho Ha]]. exists o. split; [|exact Ha].
    rewrite aget_aset. destruct (n =? sid) eqn:E; [apply N.eqb_eq in E; subst; specialize (Hkl _ _ Ho); lia|exact Ho].
  - intros g Hg. destruct (v_glog0 g Hg) as [?|[o (Ho & Hd & Ha)]]; [now left|]. right. exists o. split; [|tauto].
    rewrite aget_aset. destruct (n =? gev_sid g) eqn:E; [apply N.eqb_eq in E; rewrite <- E in Ho; specialize (Hkl _ _ Ho); lia|exact Ho].
Qed.

Lemma get_op_some s sid o : aget (c_ops s) sid = Some o -> get_op s sid = o.
Proof. unfold get_op. now intros ->. Qed.

Lemma pending_op s sid : vinv s -> In sid (c_pending s) -> exists o, aget (c_ops s) sid = Some o /\ o_done o = None.
Proof. intros H. apply (v_pend _ H). Qed.

(* onConnect for a registered, not abandoned operation: the id is handed to the waiter *)
Lemma vinv_handoff s sid sh rf :
  vinv s -> In sid (c_pending s) -> o_abandoned (get_op s sid) = false ->
  vinv (mkC (c_next s) (aset (c_ops s) sid (mkOp (Some (ROk sid)) (o_abandoned (get_op s sid)))) (remove sid (c_pending s))
            sh rf (c_callers s) (c_async s) (c_closecmds s) (sid :: c_connected s) (c_closed s) (c_glog s)).
Proof.
  intros H Hp Hab. destruct (pending_op s sid H Hp) as [o0 [Ho0 Hd0]]. rewrite (get_op_some _ _ _ Ho0) in *.
  destruct H.
  constructor; cbn [c_next c_ops c_pending c_callers c_async c_closecmds c_connected c_closed c_glog]; try assumption.
  - intros x Hx. rewrite aget_aset. destruct (sid =? x) eqn:E; [apply N.eqb_eq in E; subst x; destruct (v_fresh0 _ Hx); congruence|]. auto.
  - intros x Hx. rewrite aget_aset. destruct (sid =? x) eqn:E; [apply N.eqb_eq in E; subst x; destruct (v_async0 _ Hx); congruence|]. auto.
  - intros x o. rewrite aget_aset. destruct (sid =? x) eqn:E; [apply N.eqb_eq in E; subst x; intros _; eauto|apply v_keys0].
  - intros x. rewrite in_remove. destruct (N.eq_dec sid x) as [<-|E].
    + split; [tauto|]. intros [o [Ho Hd]]. rewrite aget_aset, N.eqb_refl in Ho. injection Ho as <-. discriminate.
    + rewrite v_pend0. apply N.eqb_neq in E. split.
      * intros [[o Ho] _]. exists o. now rewrite aget_aset, E.
      * intros [o Ho]. rewrite aget_aset, E in Ho. split; [eauto|]. apply N.eqb_neq in E. congruence.
  - intros x o r. rewrite aget_aset. destruct (sid =? x) eqn:E.
    + apply N.eqb_eq in E. subst x. intros Ho. injection Ho as <-. cbn. intros Hr. injection Hr as <-. left. split; [reflexivity|]. split; [now left|exact Hab].
    + intros Ho Hr. destruct (v_done0 _ _ _ Ho Hr) as [(?&?&?)|?]; [left; split; [assumption|]; split; [now right|assumption]|now right].
  - intros x Hx. apply in_remove in Hx. apply v_open0. tauto.
  - intros c p Hcp. destruct (v_callers0 _ _ Hcp) as [Hok Hl]. split; [|exact Hl].
    destruct (N.eq_dec (pc_sid p) sid) as [E|E].
    + destruct p as [x|x|x|x r]; cbn [pc_sid] in E; subst x; cbn [caller_ok c_ops c_closecmds] in *.
      * exists (mkOp (Some (ROk sid)) (o_abandoned o0)). rewrite aget_aset, N.eqb_refl. auto.
      * destruct Hok as [o (Ho & Ha & _)]. congruence.
      * destruct Hok as [[o (Ho & Ha)] _]. congruence.
      * destruct Hok as [[Hz _]|[o [Ho Hc]]]; [subst sid; specialize (v_keys0 _ _ Ho0); lia|].
        assert (o = o0) by congruence. subst o. destruct Hc as [[Hd _]|[Ha _]]; congruence.
    + apply (caller_ok_ext s); [|reflexivity|exact Hok]. cbn [c_ops]. rewrite aget_aset.
      destruct (sid =? pc_sid p) eqn:E2; [apply N.eqb_eq in E2; congruence|reflexivity].
  - intros x Hx. destruct (v_closecmds0 _ Hx) as [o [Ho Ha]]. destruct (N.eq_dec sid x) as [<-|E]; [congruence|].
    exists o. split; [|exact Ha]. apply N.eqb_neq in E. now rewrite aget_aset, E.
  - intros g Hg. destruct (v_glog0 g Hg) as [?|[o (Ho & Hd & Ha)]]; [now left|]. right.
    destruct (N.eq_dec sid (gev_sid g)) as [E|E]; [rewrite <- E in Ho; congruence|].
    exists o. split; [|tauto]. apply N.eqb_neq in E. now rewrite aget_aset, E.
Qed.

(* any engine event that only extends the ghost lists / the global log *)
Lemma vinv_ghost s conn' closed' glog' sh rf :
  vinv s ->
  (forall x, In x (c_connected s) -> In x conn') ->
  (forall x, In x (c_closed s) -> In x closed') ->
  (forall x, In x closed' -> x < c_next s) ->
  (forall x, In x (c_pending s) -> ~ In x closed') ->
  (forall g, In g glog' -> In g (c_glog s) \/
      (In (gev_sid g) (c_async s) \/ exists o, aget (c_ops s) (gev_sid g) = Some o /\ o_done o = Some (ROk (gev_sid g)) /\ o_abandoned o = false)) ->
  vinv (mkC (c_next s) (c_ops s) (c_pending s) sh rf (c_callers s) (c_async s) (c_closecmds s) conn' closed' glog').
Proof.
  intros H H1 H2 H3 H4 H5. destruct H.
  constructor; cbn [c_next c_ops c_pending c_callers c_async c_closecmds c_connected c_closed c_glog]; try assumption.
  - intros x o r Ho Hr. destruct (v_done0 _ _ _ Ho Hr) as [(?&?&?)|[? ?]]; [left|right]; auto.
  - intros g Hg. destruct (H5 g Hg) as [Hold|Hnew]; [auto|exact Hnew].
Qed.

(* onClose for a registered operation: the waiter (if still there) gets the engine's error; the entry goes *)
Lemma vinv_close_pending s sid sh rf :
  vinv s -> In sid (c_pending s) ->
  vinv (mkC (c_next s) (aset (c_ops s) sid (mkOp (Some (RErr EEngine)) (o_abandoned (get_op s sid)))) (remove sid (c_pending s))
            sh rf (c_callers s) (c_async s) (c_closecmds s) (c_connected s) (sid :: c_closed s) (c_glog s)).
Proof.
  intros H Hp. destruct (pending_op s sid H Hp) as [o0 [Ho0 Hd0]]. rewrite (get_op_some _ _ _ Ho0) in *.
  pose proof (key_lt s sid o0 H Ho0) as Hlt. destruct H.
  constructor; cbn [c_next c_ops c_pending c_callers c_async c_closecmds c_connected c_closed c_glog]; try assumption.
  - intros x Hx. rewrite aget_aset. destruct (sid =? x) eqn:E; [apply N.eqb_eq in E; subst x; destruct (v_fresh0 _ Hx); congruence|]. auto.
  - intros x Hx. rewrite aget_aset. destruct (sid =? x) eqn:E; [apply N.eqb_eq in E; subst x; destruct (v_async0 _ Hx); congruence|]. auto.
  - intros x o. rewrite aget_aset. destruct (sid =? x) eqn:E; [apply N.eqb_eq in E; subst x; intros _; eauto|apply v_keys0].
  - intros x. rewrite in_remove. destruct (N.eq_dec sid x) as [<-|E].
    + split; [tauto|]. intros [o [Ho Hd]]. rewrite aget_aset, N.eqb_refl in Ho. injection Ho as <-. discriminate.
    + rewrite v_pend0. apply N.eqb_neq in E. split.
      * intros [[o Ho] _]. exists o. now rewrite aget_aset, E.
      * intros [o Ho]. rewrite aget_aset, E in Ho. split; [eauto|]. apply N.eqb_neq in E. congruence.
  - intros x o r. rewrite aget_aset. destruct (sid =? x) eqn:E.
    + apply N.eqb_eq in E. subst x. intros Ho. injection Ho as <-. cbn. intros Hr. injection Hr as <-. right. split; [reflexivity|now left].
    + intros Ho Hr. destruct (v_done0 _ _ _ Ho Hr) as [?|[? ?]]; [now left|right; split; [assumption|now right]].
  - intros x Hx. apply in_remove in Hx. destruct Hx as [Hx Hne]. intros [E|Hc]; [congruence|]. exact (v_open0 _ Hx Hc).
  - intros x [<-|Hx]; auto.
  - intros c p Hcp. destruct (v_callers0 _ _ Hcp) as [Hok Hl]. split; [|exact Hl].
    destruct (N.eq_dec (pc_sid p) sid) as [E|E].
    + destruct p as [x|x|x|x r]; cbn [pc_sid] in E; subst x; cbn [caller_ok c_ops c_closecmds] in *.
      * destruct Hok as [o [Ho Ha]]. assert (o = o0) by congruence. subst o.
        exists (mkOp (Some (RErr EEngine)) (o_abandoned o0)). rewrite aget_aset, N.eqb_refl. auto.
      * destruct Hok as [o (Ho & Ha & Hn)]. assert (o = o0) by congruence. subst o.
        exists (mkOp (Some (RErr EEngine)) (o_abandoned o0)). rewrite aget_aset, N.eqb_refl. auto.
      * destruct Hok as [[o (Ho & Ha)] Hi]. assert (o = o0) by congruence. subst o. split; [|exact Hi].
        exists (mkOp (Some (RErr EEngine)) (o_abandoned o0)). rewrite aget_aset, N.eqb_refl. auto.
      * destruct Hok as [[Hz _]|[o [Ho Hc]]]; [subst sid; specialize (v_keys0 _ _ Ho0); lia|].
        assert (o = o0) by congruence. subst o. right.
        exists (mkOp (Some (RErr EEngine)) (o_abandoned o0)). rewrite aget_aset, N.eqb_refl. split; [reflexivity|].
        destruct Hc as [[Hd _]|[Ha Hr]]; [congruence|]. right. cbn. split; assumption.
    + apply (caller_ok_ext s); [|reflexivity|exact Hok]. cbn [c_ops]. rewrite aget_aset.
      destruct (sid =? pc_sid p) eqn:E2; [apply N.eqb_eq in E2; congruence|reflexivity].
  - intros x Hx. destruct (v_closecmds0 _ Hx) as [o [Ho Ha]]. destruct (N.eq_dec sid x) as [<-|E].
    + assert (o = o0) by congruence. subst o. eexists. rewrite aget_aset, N.eqb_refl. split; [reflexivity|exact Ha].
    + exists o. split; [|exact Ha]. apply N.eqb_neq in E. now rewrite aget_aset, E.
  - intros g Hg. destruct (v_glog0 g Hg) as [?|[o (Ho & Hd & Ha)]]; [now left|]. right.
    destruct (N.eq_dec sid (gev_sid g)) as [E|E]; [rewrite <- E in Ho; congruence|].
    exists o. split; [|tauto]. apply N.eqb_neq in E. now rewrite aget_aset, E.
Qed.

(* the waiter gives up (timeout, or woken by the teardown fence): the operation is marked abandoned *)
Lemma vinv_abandon s c sid p' sh rf :
  vinv s -> aget (c_callers s) c = Some (PWaiting sid) -> o_done (get_op s sid) = None ->
  (p' = PUnlocked sid \/ p' = PDone sid (RErr EShutting)) ->
  vinv (mkC (c_next s) (aset (c_ops s) sid (mkOp None true)) (c_pending s) sh rf
            (aset (c_callers s) c p') (c_async s) (c_closecmds s) (c_connected s) (c_closed s) (c_glog s)).
Proof.
  intros H Hc Hd Hp'. destruct (v_callers _ H _ _ Hc) as [[o0 [Ho0 Hab0]] Hlt]. cbn [pc_sid] in Hlt.
  rewrite (get_op_some _ _ _ Ho0) in Hd.
  pose proof (v_owner _ H) as Hown. destruct H.
  assert (Hnc : ~ In sid (c_closecmds s)).
  { intros Hi. destruct (v_closecmds0 _ Hi) as [o [Ho Ha]]. congruence. }
  assert (Hs1 : 1 <= sid) by (eapply v_keys0; eauto).
  constructor; cbn [c_next c_ops c_pending c_callers c_async c_closecmds c_connected c_closed c_glog]; try assumption.
  - intros x Hx. rewrite aget_aset. destruct (sid =? x) eqn:E; [apply N.eqb_eq in E; subst x; destruct (v_fresh0 _ Hx); congruence|]. auto.
  - intros x Hx. rewrite aget_aset. destruct (sid =? x) eqn:E; [apply N.eqb_eq in E; subst x; destruct (v_async0 _ Hx); congruence|]. auto.
  - intros x o. rewrite aget_aset. destruct (sid =? x) eqn:E; [apply N.eqb_eq in E; subst x; intros _; exact Hs1|apply v_keys0].
  - intros x. rewrite v_pend0. destruct (N.eq_dec sid x) as [<-|E].
    + split; intros _; [exists (mkOp None true); rewrite aget_aset, N.eqb_refl; auto|eauto].
    + apply N.eqb_neq in E. split; intros [o Ho]; exists o; [now rewrite aget_aset, E|now rewrite aget_aset, E in Ho].
  - intros x o r. rewrite aget_aset. destruct (sid =? x) eqn:E; [intros Ho; injection Ho as <-; discriminate|apply v_done0].
  - intros c0 p0. rewrite aget_aset. destruct (c =? c0) eqn:E.
    + intros Hp. injection Hp as <-. split; [|destruct Hp' as [->| ->]; exact Hlt].
      destruct Hp' as [->| ->]; cbn [caller_ok c_ops c_closecmds].
      * exists (mkOp None true). rewrite aget_aset, N.eqb_refl. auto.
      * right. exists (mkOp None true). rewrite aget_aset, N.eqb_refl. split; [reflexivity|]. right. cbn. auto.
    + intros Hp. destruct (v_callers0 _ _ Hp) as [Hok Hl]. split; [|exact Hl].
      assert (Hne : pc_sid p0 <> sid).
      { intros He. apply N.eqb_neq in E. apply E. apply (Hown c c0 (PWaiting sid) p0 Hc Hp); [cbn; congruence|cbn; lia]. }
      apply (caller_ok_ext s); [|reflexivity|exact Hok]. cbn [c_ops]. rewrite aget_aset.
      destruct (sid =? pc_sid p0) eqn:E2; [apply N.eqb_eq in E2; congruence|reflexivity].
  - intros c1 c2 p1 p2. rewrite !aget_aset.
    assert (Hs' : pc_sid p' = sid) by (destruct Hp' as [->| ->]; reflexivity).
    destruct (c =? c1) eqn:E1; destruct (c =? c2) eqn:E2.
    + apply N.eqb_eq in E1, E2. congruence.
    + apply N.eqb_eq in E1. subst c1. intros Hp1 Hp2. injection Hp1 as <-. rewrite Hs'. intros He Hn.
      exact (Hown _ _ _ _ Hc Hp2 He Hn).
    + apply N.eqb_eq in E2. subst c2. intros Hp1 Hp2. injection Hp2 as <-. rewrite Hs'. intros He Hn.
      exact (Hown _ _ _ _ Hp1 Hc He Hn).
    + apply Hown.
  - intros x Hx. destruct (v_closecmds0 _ Hx) as [o [Ho Ha]]. destruct (N.eq_dec sid x) as [<-|E]; [tauto|].
    exists o. split; [|exact Ha]. apply N.eqb_neq in E. now rewrite aget_aset, E.
  - intros g Hg. destruct (v_glog0 g Hg) as [?|[o (Ho & Hd' & Ha)]]; [now left|]. right.
    destruct (N.eq_dec sid (gev_sid g)) as [E|E]; [rewrite <- E in Ho; congruence|].
    exists o. split; [|tauto]. apply N.eqb_neq in E. now rewrite aget_aset, E.
Qed.

Lemma vinv_issue_close s c sid sh rf :
  vinv s -> aget (c_callers s) c = Some (PUnlocked sid) ->
  vinv (mkC (c_next s) (c_ops s) (c_pending s) sh rf (aset (c_callers s) c (PCloseIssued sid)) (c_async s)
            (sid :: c_closecmds s) (c_connected s) (c_closed s) (c_glog s)).
Proof.
  intros H Hc. destruct (v_callers _ H _ _ Hc) as [[o0 (Ho0 & Hab0 & Hn0)] Hlt]. cbn [pc_sid] in Hlt.
  pose proof (v_owner _ H) as Hown. pose proof (v_keys _ H _ _ Ho0) as Hs1. destruct H.
  constructor; cbn [c_next c_ops c_pending c_callers c_async c_closecmds c_connected c_closed c_glog]; try assumption.
  - intros c0 p0. rewrite aget_aset. destruct (c =? c0) eqn:E.
    + intros Hp. injection Hp as <-. split; [|exact Hlt]. cbn [caller_ok c_ops c_closecmds]. split; [eauto|now left].
    + intros Hp. destruct (v_callers0 _ _ Hp) as [Hok Hl]. split; [|exact Hl].
      assert (Hne : pc_sid p0 <> sid).
      { intros He. apply N.eqb_neq in E. apply E. apply (Hown c c0 (PUnlocked sid) p0 Hc Hp); [cbn; congruence|cbn; lia]. }
      apply (caller_ok_ext s); [reflexivity| |exact Hok]. cbn [c_closecmds In]. split; [intros [?|?]; [congruence|assumption]|tauto].
  - intros c1 c2 p1 p2. rewrite !aget_aset.
    destruct (c =? c1) eqn:E1; destruct (c =? c2) eqn:E2.
    + apply N.eqb_eq in E1, E2. congruence.
    + apply N.eqb_eq in E1. subst c1. intros Hp1 Hp2. injection Hp1 as <-. cbn [pc_sid]. intros He Hn.
      exact (Hown _ _ _ _ Hc Hp2 He Hn).
    + apply N.eqb_eq in E2. subst c2. intros Hp1 Hp2. injection Hp2 as <-. cbn [pc_sid]. intros He Hn.
      exact (Hown _ _ _ _ Hp1 Hc He Hn).
    + apply Hown.
  - intros x [<-|Hx]; [eauto|auto].
Qed.

Lemma vinv_step s o : vinv s -> legal s o = true -> vinv (cstep true s o).
Proof.
  intros H Hl. destruct o as [c| |sid|sid|c|c|c|c| |]; cbn [cstep].
  - (* SBegin *)
    destruct (aget (c_callers s) c) as [p|] eqn:Ec; [exact H|].
    destruct (c_shut s).
    + (* fence: no connect issued *)
      pose proof H as H0. destruct H.
      constructor; cbn [set_caller c_next c_ops c_pending c_callers c_async c_closecmds c_connected c_closed c_glog]; try assumption.
      * intros c0 p0. rewrite aget_aset. destruct (c =? c0) eqn:E.
        -- intros Hp. injection Hp as <-. split; [cbn; left; auto|cbn; lia].
        -- intros Hp. destruct (v_callers0 _ _ Hp) as [Hok Hlt]. split; [destruct p0; exact Hok|exact Hlt].
      * intros c1 c2 p1 p2. rewrite !aget_aset. destruct (c =? c1) eqn:E1; destruct (c =? c2) eqn:E2.
        -- apply N.eqb_eq in E1, E2. congruence.
        -- intros Hp1 _ _ Hn. injection Hp1 as <-. cbn in Hn. tauto.
        -- intros Hp1 Hp2 He Hn. injection Hp2 as <-. cbn in He. congruence.
        -- apply v_owner0.
    + destruct (c_refuse s).
      * pose proof (vinv_consume s false true H) as H0. destruct H0.
        constructor; cbn [c_next c_ops c_pending c_callers c_async c_closecmds c_connected c_closed c_glog] in *; try assumption.
        -- intros c0 p0. rewrite aget_aset. destruct (c =? c0) eqn:E.
           ++ intros Hp. injection Hp as <-. split; [cbn; left; auto|cbn; lia].
           ++ intros Hp. destruct (v_callers0 _ _ Hp) as [Hok Hlt]. split; [destruct p0; exact Hok|exact Hlt].
        -- intros c1 c2 p1 p2. rewrite !aget_aset. destruct (c =? c1) eqn:E1; destruct (c =? c2) eqn:E2.
           ++ apply N.eqb_eq in E1, E2. congruence.
           ++ intros Hp1 _ _ Hn. injection Hp1 as <-. cbn in Hn. tauto.
           ++ intros Hp1 Hp2 He Hn. injection Hp2 as <-. cbn in He. congruence.
           ++ apply v_owner0.
      * now apply vinv_begin.
  - (* SAsync *)
    destruct (c_refuse s); [now apply vinv_consume|now apply vinv_async].
  - (* SHConnect *)
    cbn [legal] in Hl. apply andb_true_iff in Hl. destruct Hl as [Hl Hk]. apply andb_true_iff in Hl. destruct Hl as [Hcl Hcn].
    apply negb_true_iff, mem_false in Hcl. pose proof (known_lt s sid H Hk) as Hlt.
    destruct (mem sid (c_pending s)) eqn:Ep.
    + apply mem_in in Ep. destruct (o_abandoned (get_op s sid)) eqn:Ea; cbn [andb].
      * apply (vinv_ghost s (sid :: c_connected s) (c_closed s) (c_glog s) _ _ H); auto.
        -- intros x Hx. now right.
        -- apply (v_closed_lt _ H).
        -- apply (v_open _ H).
      * pose proof (vinv_handoff s sid (c_shut s) (c_refuse s) H Ep Ea) as Hh. rewrite Ea in Hh. exact Hh.
    + apply mem_false in Ep.
      apply (vinv_ghost s (sid :: c_connected s) (c_closed s) (c_glog s ++ [GConnect sid]) _ _ H); auto.
      * intros x Hx. now right.
      * apply (v_closed_lt _ H).
      * apply (v_open _ H).
      * intros g Hg. apply in_app_or in Hg. destruct Hg as [Hg|[<-|[]]]; [now left|]. right. cbn [gev_sid].
        unfold known in Hk. apply orb_true_iff in Hk. destruct Hk as [Hk|Hk]; [left; now apply mem_in|].
        destruct (aget (c_ops s) sid) as [o|] eqn:Eo; [|discriminate]. right. exists o. split; [reflexivity|].
        destruct (o_done o) as [r|] eqn:Ed.
        -- destruct (v_done _ H _ _ _ Eo Ed) as [(-> & _ & Ha)|[_ Hc]]; [auto|tauto].
        -- exfalso. apply Ep. apply (v_pend _ H). eauto.
  - (* SHClose *)
    cbn [legal] in Hl. apply andb_true_iff in Hl. destruct Hl as [Hcl Hk].
    apply negb_true_iff, mem_false in Hcl. pose proof (known_lt s sid H Hk) as Hlt.
    destruct (mem sid (c_pending s)) eqn:Ep.
    + apply mem_in in Ep. now apply vinv_close_pending.
    + apply mem_false in Ep.
      apply (vinv_ghost s (c_connected s) (sid :: c_closed s) (c_glog s ++ [GClose sid]) _ _ H); auto.
      * intros x Hx. now right.
      * intros x [<-|Hx]; [exact Hlt|now apply (v_closed_lt _ H)].
      * intros x Hx [<-|Hc]; [tauto|exact (v_open _ H _ Hx Hc)].
      * intros g Hg. apply in_app_or in Hg. destruct Hg as [Hg|[<-|[]]]; [now left|]. right. cbn [gev_sid].
        unfold known in Hk. apply orb_true_iff in Hk. destruct Hk as [Hk|Hk]; [left; now apply mem_in|].
        destruct (aget (c_ops s) sid) as [o|] eqn:Eo; [|discriminate]. right. exists o. split; [reflexivity|].
        destruct (o_done o) as [r|] eqn:Ed.
        -- destruct (v_done _ H _ _ _ Eo Ed) as [(-> & _ & Ha)|[_ Hc]]; [auto|tauto].
        -- exfalso. apply Ep. apply (v_pend _ H). eauto.
  - (* SWake *)
    destruct (aget (c_callers s) c) as [[sid|sid|sid|sid r]|] eqn:Ec; try exact H.
    destruct (o_done (get_op s sid)) as [r|] eqn:Ed.
    + apply (vinv_set_caller s c (PWaiting sid)); [exact H|exact Ec|reflexivity|].
      destruct (v_callers _ H _ _ Ec) as [[o [Ho Ha]] _]. rewrite (get_op_some _ _ _ Ho) in Ed.
      cbn. right. exists o. split; [exact Ho|]. left. auto.
    + destruct (c_shut s); [|exact H]. apply (vinv_abandon s c sid); auto.
  - (* STimeout *)
    destruct (aget (c_callers s) c) as [[sid|sid|sid|sid r]|] eqn:Ec; try exact H.
    destruct (o_done (get_op s sid)) as [r|] eqn:Ed; [exact H|].
    destruct (c_shut s); [exact H|]. apply (vinv_abandon s c sid); auto.
  - (* SIssueClose *)
    destruct (aget (c_callers s) c) as [[sid|sid|sid|sid r]|] eqn:Ec; try exact H.
    now apply vinv_issue_close.
  - (* SFinish *)
    destruct (aget (c_callers s) c) as [[sid|sid|sid|sid r]|] eqn:Ec; try exact H.
    apply (vinv_set_caller s c (PCloseIssued sid)); [exact H|exact Ec|reflexivity|].
    destruct (v_callers _ H _ _ Ec) as [[[o [Ho Ha]] Hi] _].
    cbn. right. exists o. split; [exact Ho|]. right. split; [exact Ha|]. right. split; [|exact Hi].
    destruct (c_shut s); auto.
  - now apply vinv_flags.
  - now apply vinv_flags.
Qed.

Lemma vinv_run ops : forall s, vinv s -> all_legal true s ops = true -> vinv (crun true s ops).
Proof.
  induction ops as [|o r IH]; intros s H Hl; cbn [crun all_legal] in *; [exact H|].
  apply andb_true_iff in Hl. destruct Hl as [Hl Hr]. apply IH; [now apply vinv_step|exact Hr].
Qed.

(* ---------- consequences ---------- *)
Lemma t_ok_is_live s c sid r :
  vinv s -> aget (c_callers s) c = Some (PDone sid (ROk r)) ->
  r = sid /\ In sid (c_connected s) /\ ~ In sid (c_closecmds s).
Proof.
  intros H Hc. destruct (v_callers _ H _ _ Hc) as [Hok _]. cbn in Hok.
  destruct Hok as [[_ [?|?]]|[o [Ho Hd]]]; try discriminate.
  destruct Hd as [[Hd Ha]|[_ [[? _]|[[?|?] _]]]]; try discriminate.
  destruct (v_done _ H _ _ _ Ho Hd) as [(E & Hcn & _)|[? _]]; [|discriminate].
  injection E as ->. split; [reflexivity|]. split; [exact Hcn|].
  intros Hi. destruct (v_closecmds _ H _ Hi) as [o' [Ho' Ha']]. congruence.
Qed.

Lemma t_globals_only_for_handed s g c p :
  vinv s -> In g (c_glog s) -> aget (c_callers s) c = Some p -> pc_sid p = gev_sid g ->
  (p = PWaiting (gev_sid g) /\ o_done (get_op s (gev_sid g)) = Some (ROk (gev_sid g))) \/ p = PDone (gev_sid g) (ROk (gev_sid g)).
Proof.
  intros H Hg Hc Hs. destruct (v_callers _ H _ _ Hc) as [Hok _].
  destruct (v_glog _ H g Hg) as [Ha|[o (Ho & Hd & Hab)]].
  - (* an application connect: no synchronous caller can have that id *)
    exfalso. destruct (v_async _ H _ Ha) as [Hn H1]. rewrite <- Hs in *.
    destruct p as [x|x|x|x r]; cbn [pc_sid caller_ok] in *.
    + destruct Hok as [o [Ho _]]. congruence.
    + destruct Hok as [o [Ho _]]. congruence.
    + destruct Hok as [[o [Ho _]] _]. congruence.
    + destruct Hok as [[Hz _]|[o [Ho _]]]; [lia|congruence].
  - rewrite <- Hs in *. destruct p as [x|x|x|x r]; cbn [pc_sid caller_ok] in *.
    + left. split; [reflexivity|]. now rewrite (get_op_some _ _ _ Ho).
    + destruct Hok as [o' (Ho' & Ha' & _)]. congruence.
    + destruct Hok as [[o' (Ho' & Ha')] _]. congruence.
    + right. destruct Hok as [[Hz _]|[o' [Ho' Hc']]]; [pose proof (v_keys _ H _ _ Ho); lia|].
      assert (o' = o) by congruence. subst o'. destruct Hc' as [[Hd' _]|[Ha' _]]; [|congruence]. congruence.
Qed.

Lemma t_timeout_closes s c sid :
  vinv s -> aget (c_callers s) c = Some (PDone sid (RErr ETimeout)) -> In sid (c_closecmds s).
Proof.
  intros H Hc. destruct (v_callers _ H _ _ Hc) as [Hok _]. cbn in Hok.
  destruct Hok as [[_ [?|?]]|[o [Ho Hd]]]; try discriminate.
  destruct Hd as [[Hd Ha]|[_ [[? _]|[_ Hi]]]]; try discriminate; [|exact Hi].
  destruct (v_done _ H _ _ _ Ho Hd) as [(? & _)|[? _]]; discriminate.
Qed.

Lemma t_no_orphan s sid : vinv s -> In sid (c_pending s) -> ~ In sid (c_closed s) /\ o_done (get_op s sid) = None.
Proof.
  intros H Hp. split; [now apply (v_open _ H)|]. destruct (pending_op s sid H Hp) as [o [Ho Hd]].
  now rewrite (get_op_some _ _ _ Ho).
Qed.
