(* C01/Extract.v — extraction of the TCP send path model (ExtrOcamlBasic only) *)
From IoraVerif Require Import C01.Model C01.Interest.
Require Import ExtrOcamlBasic.
Extraction Language OCaml.
Extraction "../build/ocaml/c01_model.ml" tstep tinit istep iinit.
