(* C01/Interest.v — the EPOLLOUT bookkeeping of the send path: TcpEngine::updateInterest registers EPOLLOUT for a
   session iff (wantWrite || !wq.empty()) AT THE MOMENT IT IS CALLED; between calls the registration stays what it
   was.  A queued buffer is written only when the kernel reports the socket writable, so a path that leaves bytes
   queued without a registration that asks for that report strands them for ever while the session stays open
   ("data is never skipped silently while the session stays open").  This layer records, for every path of
   doSend / writePending / the handshake completion, whether updateInterest is called after the queue has received
   its final content (i_armed = the EPOLLOUT bit of the last registration).  Definitions only. *)
From IoraVerif Require Import Common.Bytes C01.Model.
Local Open Scope N_scope.

Definition nonempty {A} (l : list A) : bool := match l with [] => false | _ => true end.

(* writePending: the loop ends (a) on EAGAIN / WANT_* with wantWrite = true; updateInterest, (b) after a partial write
   with the same, (c) with the queue empty: wantWrite = false; updateInterest, (d) in closeNow.  [_, []]: the script of
   answers ran out - an artefact of the model, no call *)
Fixpoint wp_updates (s : tsess) (ans : list wans) : bool :=
  match t_wq s, ans with
  | [], _ => true
  | _, [] => false
  | d :: q, a :: ans' =>
    match write1 d a with
    | None => false
    | Some (w, []) =>
      match a with
      | WAgain => true
      | _ => wp_updates (mkTs q true (t_hs s) (t_maxq s) (t_cbp s) (t_wire s ++ w) (t_acc s)) ans'
      end
    | Some (w, rest) => true
    end
  end.

(* does this step call updateInterest after its last change of the queue? *)
Definition calls_update (s : tsess) (o : top) : bool :=
  if negb (t_open s) then false else
  match o with
  | TSend [] _ => false
  | TSend p a =>
    if t_hs s then true                                     (* queued until the handshake completes; wantWrite; updateInterest *)
    else match t_wq s with
         | [] => match write1 p a with
                 | None => false                            (* closeNow *)
                 | Some (_, []) => match a with WAgain => true | _ => false end   (* written in full: nothing queued, no call *)
                 | Some (_, _ :: _) => true                 (* remainder queued in front / payload queued: updateInterest *)
                 end
         | _ => true                                        (* queued behind the earlier buffers: updateInterest *)
         end
  | TWritable ans => if t_hs s then false else wp_updates s ans
  | THandshakeDone => true
  | TClose => false
  end.

Record isess := mkIs { i_s : tsess; i_armed : bool }.
Definition iinit (maxq : N) (cbp hs : bool) : isess := mkIs (tinit maxq cbp hs) false.
Definition istep (x : isess) (o : top) : isess * tout :=
  let r := tstep (i_s x) o in
  (mkIs (fst r) (if calls_update (i_s x) o then nonempty (t_wq (fst r)) else i_armed x), snd r).
Fixpoint irun (x : isess) (l : list top) : isess * list tout :=
  match l with
  | [] => (x, [])
  | o :: l' => let r := istep x o in let r' := irun (fst r) l' in (fst r', snd r :: snd r')
  end.
