(* C01/Model.v — the per-session send path of TcpEngine (include/iora/network/detail/tcp_engine.hpp:
   doSend, writePending, the handshake branch, back-pressure) and the read loop (readAvail), with
   the kernel's / OpenSSL's answer to every write scripted: full, short, would-block, error.
   Definitions only. *)
From IoraVerif Require Import Common.Bytes.
Local Open Scope N_scope.

Inductive wans :=
| WFull                        (* the whole buffer was taken *)
| WShort (k : N)               (* only the first k bytes (0 <= k < length) *)
| WAgain                       (* EAGAIN / WANT_READ / WANT_WRITE *)
| WErr.                        (* hard error *)

Record tsess := mkTs {
  t_wq : list (list N);        (* Session::wq *)
  t_open : bool;               (* not closed *)
  t_hs : bool;                 (* TLS handshake still in progress *)
  t_maxq : N;                  (* maxWriteQueue *)
  t_cbp : bool;                (* closeOnBackpressure *)
  t_wire : list N;             (* ghost: bytes handed to the kernel / SSL_write, in order *)
  t_acc : list N               (* ghost: bytes of the send commands that reached the open session *)
}.

Inductive top :=
| TSend (payload : list N) (a : wans)       (* a send command; a answers the direct write, if one is made *)
| TWritable (ans : list wans)               (* EPOLLOUT: writePending, one answer per write call *)
| THandshakeDone
| TClose.                                   (* any other close (peer, application, GC, ...) *)

Inductive tout := OK_ | OClosedNow.

Definition close_s (s : tsess) : tsess := mkTs [] false (t_hs s) (t_maxq s) (t_cbp s) (t_wire s) (t_acc s).

(* one write call on buffer d *)
Definition write1 (d : list N) (a : wans) : option (list N * list N) :=   (* Some (written, rest) | None = error *)
  match a with
  | WFull => Some (d, [])
  | WShort k => Some (firstn (N.to_nat (N.min k (lenN d))) d, skipn (N.to_nat (N.min k (lenN d))) d)
  | WAgain => Some ([], d)
  | WErr => None
  end.

(* writePending: stops at the first short write or would-block *)
Fixpoint write_pending (s : tsess) (ans : list wans) : tsess * tout :=
  match t_wq s, ans with
  | [], _ => (s, OK_)
  | _, [] => (s, OK_)
  | d :: q, a :: ans' =>
    match write1 d a with
    | None => (close_s s, OClosedNow)
    | Some (w, []) =>
      match a with
      | WAgain => (s, OK_)                                   (* an empty buffer cannot be queued; defensive *)
      | _ => write_pending (mkTs q true (t_hs s) (t_maxq s) (t_cbp s) (t_wire s ++ w) (t_acc s)) ans'
      end
    | Some (w, rest) => (mkTs (rest :: q) true (t_hs s) (t_maxq s) (t_cbp s) (t_wire s ++ w) (t_acc s), OK_)
    end
  end.

Definition enqueue_back (s : tsess) (p : list N) : tsess * tout :=
  let q := t_wq s ++ [p] in
  if t_maxq s <? lenN q then
    if t_cbp s then (close_s (mkTs q true (t_hs s) (t_maxq s) (t_cbp s) (t_wire s) (t_acc s)), OClosedNow)
    else (mkTs (tl q) true (t_hs s) (t_maxq s) (t_cbp s) (t_wire s) (t_acc s), OK_)      (* drop the oldest *)
  else (mkTs q true (t_hs s) (t_maxq s) (t_cbp s) (t_wire s) (t_acc s), OK_).

Definition tstep (s : tsess) (o : top) : tsess * tout :=
  if negb (t_open s) then (s, OK_) else
  match o with
  | TSend p a =>
    match p with
    | [] => (s, OK_)                                         (* send(): n == 0 is a no-op *)
    | _ =>
      let s0 := mkTs (t_wq s) true (t_hs s) (t_maxq s) (t_cbp s) (t_wire s) (t_acc s ++ p) in
      if t_hs s then
        (mkTs (t_wq s ++ [p]) true true (t_maxq s) (t_cbp s) (t_wire s) (t_acc s ++ p), OK_)   (* queued, never written raw *)
      else
        match t_wq s with
        | [] =>
          match write1 p a with
          | None => (close_s s0, OClosedNow)
          | Some (w, []) =>
            match a with
            | WAgain => enqueue_back s0 p
            | _ => (mkTs [] true false (t_maxq s) (t_cbp s) (t_wire s ++ w) (t_acc s ++ p), OK_)
            end
          | Some (w, rest) =>
            match a with
            | WAgain => enqueue_back s0 p
            | _ => (mkTs [rest] true false (t_maxq s) (t_cbp s) (t_wire s ++ w) (t_acc s ++ p), OK_)
            end
          end
        | _ => enqueue_back s0 p
        end
    end
  | TWritable ans => if t_hs s then (s, OK_) else write_pending s ans
  | THandshakeDone => (mkTs (t_wq s) true false (t_maxq s) (t_cbp s) (t_wire s) (t_acc s), OK_)
  | TClose => (close_s s, OClosedNow)
  end.

Definition tinit (maxq : N) (cbp hs : bool) : tsess := mkTs [] true hs maxq cbp [] [].

Fixpoint trun (s : tsess) (l : list top) : tsess * list tout :=
  match l with
  | [] => (s, [])
  | o :: l' => let r := tstep s o in let r' := trun (fst r) l' in (fst r', snd r :: snd r')
  end.

(* readAvail: every chunk the kernel returns goes to the data callback as it is *)
Definition read_avail (chunks : list (list N)) : list (list N) := filter (fun c => negb (match c with [] => true | _ => false end)) chunks.
