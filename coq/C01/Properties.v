(* C01/Properties.v — the property theorems for C01 and nothing else. *)
From IoraVerif Require Import Common.Bytes C01.Model C01.Proofs C01.Interest C01.InterestProofs.
Local Open Scope N_scope.

(* 1. For EVERY sequence of send commands, writable events, handshake completion and closes, with
      EVERY answer of the kernel / OpenSSL to every write call (full, short at any byte, would-block,
      error), under the default close-on-backpressure policy: while the session is open the bytes
      of the accepted sends are exactly the bytes handed to the kernel followed by the queued
      buffers, in order; after a close the kernel has received a prefix. *)
Theorem tcp_send_stream_exact : forall maxq hs l,
  let s := fst (trun (tinit maxq true hs) l) in
  (t_open s = true -> t_acc s = t_wire s ++ concat (t_wq s)) /\ (exists rest, t_acc s = t_wire s ++ rest).
Proof. intros maxq hs l. apply run_inv; [reflexivity|apply init_inv]. Qed.
Print Assumptions tcp_send_stream_exact.

(* 2. One step from any state satisfying the invariant (not only reachable ones). *)
Theorem tcp_send_step : forall s o, t_cbp s = true -> inv s -> inv (fst (tstep s o)) /\ t_cbp (fst (tstep s o)) = true.
Proof. exact step_inv. Qed.
Print Assumptions tcp_send_step.

(* 3. While the TLS handshake is in progress nothing is written: sends are queued. *)
Theorem tcp_nothing_written_during_handshake : forall s p a, t_open s = true -> t_hs s = true ->
  t_wire (fst (tstep s (TSend p a))) = t_wire s /\ forall ans, t_wire (fst (tstep s (TWritable ans))) = t_wire s.
Proof.
  intros s p a Ho Hh. unfold tstep. rewrite Ho, Hh. cbn [negb]. split; [destruct p; reflexivity|reflexivity].
Qed.
Print Assumptions tcp_nothing_written_during_handshake.

(* 4. The non-default drop-oldest policy is outside the statement: it can leave a gap. *)
Theorem tcp_drop_policy_gap_refuted :
  let s := fst (trun (tinit 1 false false) [TSend [1] WAgain; TSend [2] WAgain; TWritable [WFull]]) in
  t_open s = true /\ t_acc s = [1; 2] /\ t_wire s = [2].
Proof. exact drop_policy_gap. Qed.
Print Assumptions tcp_drop_policy_gap_refuted.

(* 5. Reads: the data callbacks carry exactly the bytes the kernel returned, in order. *)
Theorem tcp_read_stream_exact : forall chunks, concat (read_avail chunks) = concat chunks.
Proof. exact read_concat. Qed.
Print Assumptions tcp_read_stream_exact.

(* 6. No lost re-arm: for EVERY sequence of send commands, writable events, handshake completion and closes and EVERY
      answer to every write, the last epoll registration of an open session asks for writability exactly while bytes
      are queued - so queued bytes are never stranded on a session that stays open (and an empty queue never spins). *)
Theorem tcp_epollout_armed_iff_queued : forall maxq cbp hs l,
  let x := fst (irun (iinit maxq cbp hs) l) in
  t_open (i_s x) = true -> i_armed x = nonempty (t_wq (i_s x)).
Proof. intros maxq cbp hs l. apply irun_armed_inv. apply iinit_armed_inv. Qed.
Print Assumptions tcp_epollout_armed_iff_queued.

(* 7. The interest layer observes the send path without changing it (theorems 1-4 speak about the same runs). *)
Theorem tcp_interest_layer_conservative : forall l x,
  i_s (fst (irun x l)) = fst (trun (i_s x) l) /\ snd (irun x l) = snd (trun (i_s x) l).
Proof. exact irun_projects. Qed.
Print Assumptions tcp_interest_layer_conservative.

(* 8. A path that queues a remainder without registering afterwards strands it (what a seeded change did). *)
Theorem tcp_forgotten_rearm_strands_refuted :
  let x := forgetful_istep (iinit 8 true false) (TSend [1; 2; 3] (WShort 1)) in
  t_open (i_s x) = true /\ t_wq (i_s x) = [[2; 3]] /\ i_armed x = false.
Proof. exact forgetting_the_call_strands. Qed.
Print Assumptions tcp_forgotten_rearm_strands_refuted.

(* ------------------------------------------------ non-vacuity *)
Example demo :
  let s := fst (trun (tinit 8 true false)
                  [TSend [1; 2; 3; 4] (WShort 1); TSend [5; 6] WFull; TWritable [WShort 2; WFull]; TWritable [WFull; WFull]]) in
  t_wire s = [1; 2; 3; 4; 5; 6] /\ t_wq s = [] /\ t_open s = true.
Proof. vm_compute. repeat split. Qed.
