(* C01/Proofs.v *)
From IoraVerif Require Import Common.Bytes C01.Model.
From Coq Require Import ZArith ZifyBool ZifyN ZifyNat.
Local Open Scope N_scope.

(* open session: accepted = on the wire ++ still queued; closed: the wire holds a prefix *)
Definition inv (s : tsess) : Prop :=
  (t_open s = true -> t_acc s = t_wire s ++ concat (t_wq s)) /\
  (exists rest, t_acc s = t_wire s ++ rest).

Lemma write1_split d a w rest : write1 d a = Some (w, rest) -> d = w ++ rest.
Proof.
  destruct a as [|k| |]; cbn [write1]; intros H; inversion H; subst.
  - now rewrite app_nil_r.
  - symmetry. apply firstn_skipn.
  - reflexivity.
Qed.

Lemma close_inv s : (exists rest, t_acc s = t_wire s ++ rest) -> inv (close_s s).
Proof. intros H. split; [cbn; discriminate|exact H]. Qed.

Lemma write_pending_inv : forall ans s, t_cbp s = true -> t_open s = true -> inv s -> inv (fst (write_pending s ans)) /\ t_cbp (fst (write_pending s ans)) = true.
Proof.
  induction ans as [|a ans IH]; intros s Hc Ho Hi.
  - destruct (t_wq s) eqn:E; cbn [write_pending]; rewrite E; cbn [fst]; split; assumption.
  - destruct (t_wq s) as [|d q] eqn:Eq; [cbn [write_pending]; rewrite Eq; cbn [fst]; split; assumption|].
    cbn [write_pending]. rewrite Eq. destruct Hi as [H1 [r H2]]. specialize (H1 Ho). rewrite Eq in H1. cbn [concat] in H1.
    destruct (write1 d a) as [[w rest]|] eqn:Ew.
    + pose proof (write1_split _ _ _ _ Ew) as Hd.
      assert (Hnext : forall w', d = w' -> inv (mkTs q true (t_hs s) (t_maxq s) (t_cbp s) (t_wire s ++ w') (t_acc s))).
      { intros w' Hw. split; cbn [t_open t_acc t_wire t_wq]; [intros _|eexists]; rewrite H1, Hw, <- app_assoc; reflexivity. }
      destruct rest as [|x rest'].
      * rewrite app_nil_r in Hd.
        destruct a as [|k| |].
        -- apply IH; cbn [t_cbp t_open]; auto.
        -- apply IH; cbn [t_cbp t_open]; auto.
        -- cbn [fst]. split; [|exact Hc]. split; [intros _; rewrite Eq; exact H1|eauto].
        -- cbn in Ew. discriminate.
      * cbn [fst]. split; [|exact Hc]. split; cbn [t_open t_acc t_wire t_wq concat]; [intros _|eexists];
          rewrite H1, Hd, <- !app_assoc; reflexivity.
    + cbn [fst]. split; [apply close_inv; eauto|exact Hc].
Qed.

Lemma enqueue_back_inv s p : t_cbp s = true -> t_open s = true ->
  t_acc s = t_wire s ++ concat (t_wq s) ++ p -> inv (fst (enqueue_back s p)) /\ t_cbp (fst (enqueue_back s p)) = true.
Proof.
  intros Hc Ho H. unfold enqueue_back. destruct (t_maxq s <? lenN (t_wq s ++ [p])).
  - rewrite Hc. cbn [fst close_s t_cbp]. split; [|reflexivity]. split; [cbn; discriminate|]. cbn [t_acc t_wire]. eauto.
  - cbn [fst t_cbp]. split; [|exact Hc]. split; cbn [t_open t_acc t_wire t_wq].
    + intros _. rewrite H, concat_app. cbn [concat]. now rewrite app_nil_r.
    + eexists. exact H.
Qed.

Lemma send_direct_inv s p a : t_cbp s = true -> t_open s = true -> t_hs s = false -> t_wq s = [] -> p <> [] ->
  t_acc s = t_wire s ->
  let s0 := mkTs [] true false (t_maxq s) (t_cbp s) (t_wire s) (t_acc s ++ p) in
  let r := match write1 p a with
           | None => (close_s s0, OClosedNow)
           | Some (w, []) => match a with
                             | WAgain => enqueue_back s0 p
                             | _ => (mkTs [] true false (t_maxq s) (t_cbp s) (t_wire s ++ w) (t_acc s ++ p), OK_)
                             end
           | Some (w, rest) => match a with
                               | WAgain => enqueue_back s0 p
                               | _ => (mkTs [rest] true false (t_maxq s) (t_cbp s) (t_wire s ++ w) (t_acc s ++ p), OK_)
                               end
           end in
  inv (fst r) /\ t_cbp (fst r) = true.
Proof.
  intros Hc Ho Hh Hq Hp Ha s0 r. subst r.
  assert (Henq : inv (fst (enqueue_back s0 p)) /\ t_cbp (fst (enqueue_back s0 p)) = true).
  { apply enqueue_back_inv; cbn [s0 t_cbp t_open t_acc t_wire t_wq concat]; auto. now rewrite Ha. }
  destruct (write1 p a) as [[w rest]|] eqn:Ew.
  - pose proof (write1_split _ _ _ _ Ew) as Hd.
    assert (Hdone : forall q', concat q' = rest ->
              inv (mkTs q' true false (t_maxq s) (t_cbp s) (t_wire s ++ w) (t_acc s ++ p)) /\
              t_cbp (mkTs q' true false (t_maxq s) (t_cbp s) (t_wire s ++ w) (t_acc s ++ p)) = true).
    { intros q' Hq'. split; [|exact Hc]. split; cbn [t_open t_acc t_wire t_wq].
      - intros _. rewrite Ha, Hd, Hq', <- app_assoc. reflexivity.
      - eexists. rewrite Ha, Hd, <- app_assoc. reflexivity. }
    destruct rest as [|x rest'].
    + destruct a; [apply (Hdone []); reflexivity|apply (Hdone []); reflexivity|exact Henq|cbn in Ew; discriminate].
    + destruct a; [apply (Hdone [x :: rest']); cbn; now rewrite app_nil_r|apply (Hdone [x :: rest']); cbn; now rewrite app_nil_r|exact Henq|cbn in Ew; discriminate].
  - cbn [fst]. split; [|exact Hc]. split; [cbn; discriminate|]. exists p. cbn. now rewrite Ha.
Qed.

Theorem step_inv s o : t_cbp s = true -> inv s -> inv (fst (tstep s o)) /\ t_cbp (fst (tstep s o)) = true.
Proof.
  intros Hc Hi. unfold tstep. destruct (t_open s) eqn:Ho; cbn [negb]; [|cbn [fst]; split; assumption].
  destruct Hi as [H1 [r H2]]. pose proof (H1 Ho) as Ha.
  assert (Hsame : inv s) by (split; [intros _; exact Ha|eauto]).
  destruct o as [p a|ans| |].
  - destruct p as [|b p']; [cbn [fst]; split; assumption|]. set (p := b :: p') in *.
    destruct (t_hs s) eqn:Eh.
    + cbn [fst t_cbp]. split; [|exact Hc]. split; cbn [t_open t_acc t_wire t_wq].
      * intros _. rewrite Ha, concat_app. cbn [concat]. now rewrite app_nil_r, <- app_assoc.
      * eexists. rewrite Ha, <- app_assoc. reflexivity.
    + destruct (t_wq s) as [|d q] eqn:Eq.
      * cbn [concat] in Ha. rewrite app_nil_r in Ha.
        apply (send_direct_inv s p a); auto. discriminate.
      * apply enqueue_back_inv; cbn [t_cbp t_open t_acc t_wire t_wq]; auto. rewrite Ha. now rewrite <- app_assoc.
  - destruct (t_hs s); [cbn [fst]; split; assumption|]. apply write_pending_inv; auto.
  - cbn [fst t_cbp]. split; [|exact Hc]. split; cbn [t_open t_acc t_wire t_wq]; eauto.
  - cbn [fst close_s t_cbp]. split; [|exact Hc]. split; [cbn; discriminate|eauto].
Qed.

Theorem run_inv : forall l s, t_cbp s = true -> inv s -> inv (fst (trun s l)).
Proof.
  induction l as [|o l IH]; intros s Hc Hi; [exact Hi|]. cbn [trun fst].
  destruct (step_inv s o Hc Hi) as [H1 H2]. now apply IH.
Qed.

Lemma init_inv maxq hs : inv (tinit maxq true hs).
Proof. split; cbn; [reflexivity|exists []; reflexivity]. Qed.

(* with the drop-oldest policy (closeOnBackpressure = false) the stream can have a gap *)
Lemma drop_policy_gap :
  let s := fst (trun (tinit 1 false false) [TSend [1] WAgain; TSend [2] WAgain; TWritable [WFull]]) in
  t_open s = true /\ t_acc s = [1; 2] /\ t_wire s = [2].
Proof. vm_compute. repeat split. Qed.

(* the read loop hands over exactly what the kernel returned, in order *)
Lemma read_concat chunks : concat (read_avail chunks) = concat chunks.
Proof.
  induction chunks as [|c l IH]; [reflexivity|]. cbn [read_avail filter concat]. fold (read_avail l).
  destruct c; cbn [negb concat app]; [exact IH|now rewrite IH].
Qed.
