(* C01/InterestProofs.v — EPOLLOUT is registered exactly while bytes are queued on an open session *)
From IoraVerif Require Import Common.Bytes C01.Model C01.Interest.
Local Open Scope N_scope.

(* the invariant: on an open session the registration asks for writability iff something is queued *)
Definition armed_inv (x : isess) : Prop :=
  t_open (i_s x) = true -> i_armed x = nonempty (t_wq (i_s x)).

Lemma write_pending_no_update_keeps : forall ans s,
  t_open s = true -> wp_updates s ans = false -> t_open (fst (write_pending s ans)) = true ->
  nonempty (t_wq (fst (write_pending s ans))) = nonempty (t_wq s).
Proof.
  induction ans as [|a ans IH]; intros s Ho Hu Ho'.
  - destruct s as [wq op hs mq cb wi ac]; destruct wq; cbn in *; reflexivity.
  - destruct s as [wq op hs mq cb wi ac]. destruct wq as [|d q]; [cbn in *; discriminate|].
    cbn [write_pending wp_updates t_wq] in *.
    destruct (write1 d a) as [[w rest]|] eqn:Ew.
    + destruct rest as [|r0 rest].
      * destruct a; try discriminate.
        -- (* WFull *)
           cbn [t_hs t_maxq t_cbp t_wire t_acc] in *.
           specialize (IH (mkTs q true hs mq cb (wi ++ w) ac) eq_refl Hu Ho').
           (* the queue before had d :: q (nonempty); after: nonempty of the rest.  Without an update the loop
              cannot have ended with an empty queue *)
           rewrite IH. destruct q; [cbn in Hu; destruct ans; discriminate|reflexivity].
        -- cbn [t_hs t_maxq t_cbp t_wire t_acc] in *.
           specialize (IH (mkTs q true hs mq cb (wi ++ w) ac) eq_refl Hu Ho').
           rewrite IH. destruct q; [cbn in Hu; destruct ans; discriminate|reflexivity].
      * discriminate.
    + cbn in Ho'. discriminate.
Qed.

Theorem istep_armed_inv : forall x o, armed_inv x -> armed_inv (fst (istep x o)).
Proof.
  intros [s armed] o Hinv. unfold armed_inv, istep in *. cbn [i_s i_armed fst] in *.
  intros Ho'. destruct (calls_update s o) eqn:Hu; [reflexivity|].
  (* no call: the emptiness of the queue is unchanged (or the session was already closed) *)
  unfold calls_update in Hu. unfold tstep in *.
  destruct (t_open s) eqn:Ho; cbn [negb] in *.
  2:{ cbn in Ho'. congruence. }
  specialize (Hinv eq_refl). rewrite Hinv.
  destruct o as [p a|ans| |].
  - destruct p as [|b p]; [reflexivity|].
    destruct (t_hs s); [discriminate|].
    destruct (t_wq s) as [|d q] eqn:Eq; [|discriminate].
    destruct (write1 (b :: p) a) as [[w rest]|] eqn:Ew.
    + destruct rest; [|discriminate]. destruct a; try discriminate; reflexivity.
    + cbn in Ho'. discriminate.
  - destruct (t_hs s); [reflexivity|]. symmetry.
    apply write_pending_no_update_keeps; assumption.
  - discriminate.
  - cbn in Ho'. discriminate.
Qed.

Theorem irun_armed_inv : forall l x, armed_inv x -> armed_inv (fst (irun x l)).
Proof.
  induction l as [|o l IH]; intros x H; [exact H|]. cbn [irun fst]. apply IH. now apply istep_armed_inv.
Qed.

Lemma iinit_armed_inv maxq cbp hs : armed_inv (iinit maxq cbp hs).
Proof. intros _. reflexivity. Qed.

(* the interest layer does not change what the send path does *)
Lemma irun_projects : forall l x, i_s (fst (irun x l)) = fst (trun (i_s x) l) /\ snd (irun x l) = snd (trun (i_s x) l).
Proof.
  induction l as [|o l IH]; intros x; [split; reflexivity|].
  cbn [irun trun fst snd]. destruct (IH (fst (istep x o))) as [H1 H2].
  unfold istep in *. cbn [fst snd i_s] in *. rewrite H1, H2. split; reflexivity.
Qed.

(* a path that forgets the call strands the queued bytes: what the seeded change of round 1 did *)
Definition forgetful_istep (x : isess) (o : top) : isess :=
  mkIs (fst (tstep (i_s x) o)) (i_armed x).                 (* never registers anything *)
Lemma forgetting_the_call_strands :
  let x := forgetful_istep (iinit 8 true false) (TSend [1; 2; 3] (WShort 1)) in
  t_open (i_s x) = true /\ t_wq (i_s x) = [[2; 3]] /\ i_armed x = false.
Proof. vm_compute. repeat split; reflexivity. Qed.
