(* C11/Extract.v — extraction of the executable storage model (ExtrOcamlBasic only); the
   checksum parameter is instantiated with the model's own crc32 by the driver. *)
From IoraVerif Require Import C11.Model.
Require Import ExtrOcamlBasic.
Extraction Language OCaml.
Extraction "../build/ocaml/c11_model.ml"
  crc32 load append enc_rec enc_snapshot mstep r_get r_exists r_keys r_size r_ttl
  compact_step1 compact_step2 compact_step3 drop_expired jstep_op jflush_steps read_log
  fresh_state sys_step init_sys srun.
