(* C11/Model.v — executable model of include/iora/storage/kvstore.hpp (shared by C11 and C12):
   the on-disk formats (snapshot v1/v2, log records S/E/X/D with length prefix and CRC),
   load() = snapshot + log replay with the torn-tail cut (fix eba9317), the write path of
   every mutating operation as appended log records, compaction as tmp/rename/truncate,
   and the in-memory map with absolute expiry, bounded read cache and eviction callbacks.
   Time is epoch milliseconds as Z (system_clock, injected).  The checksum is a parameter of
   the byte-level definitions (Section variable); the extracted code instantiates it with
   crc32 below.  Definitions only. *)
From Coq Require Export ZArith.
From IoraVerif Require Export Common.Bytes.
Local Open Scope N_scope.

(* ------------------------------------------------------------ little endian *)

Fixpoint le_encode (k : nat) (x : N) : list N :=
  match k with
  | O => []
  | S k' => x mod 256 :: le_encode k' (x / 256)
  end.
Fixpoint le_decode (l : list N) : N :=
  match l with
  | [] => 0
  | b :: t => b + 256 * le_decode t
  end.

Definition two64 : Z := 18446744073709551616%Z.
Definition two63 : Z := 9223372036854775808%Z.
Definition enc_i64 (z : Z) : list N := le_encode 8 (Z.to_N (z mod two64)).
Definition dec_i64 (l : list N) : Z :=
  let v := Z.of_N (le_decode l) in if (v <? two63)%Z then v else (v - two64)%Z.

Definition NO_EXPIRY : Z := (- two63)%Z.                  (* INT64_MIN sentinel *)
Definition MAX_PLAUSIBLE : Z := 10413792000000%Z.
Definition plausible (ms : Z) : bool := negb (ms =? NO_EXPIRY)%Z && (0 <? ms)%Z && (ms <=? MAX_PLAUSIBLE)%Z.

Definition MAX_KEYLEN : N := 65536.
Definition MAX_VALLEN : N := 104857600.
Definition MAX_RECORD : N := 104857600 + 65536 + 64.     (* fix: replay bound above the largest legal record *)

(* --------------------------------------------------------------- the map *)

Definition key := list N.
Notation entry := (list N * option Z)%type (only parsing).   (* value, absolute expiry *)
Definition kvmap := list (key * entry).

Definition key_eqb (a b : key) : bool := if list_eq_dec N.eq_dec a b then true else false.

Fixpoint m_get (m : kvmap) (k : key) : option entry :=
  match m with
  | [] => None
  | (k', e) :: t => if key_eqb k' k then Some e else m_get t k
  end.
Fixpoint m_remove (m : kvmap) (k : key) : kvmap :=
  match m with
  | [] => []
  | (k', e) :: t => if key_eqb k' k then m_remove t k else (k', e) :: m_remove t k
  end.
Definition m_set (m : kvmap) (k : key) (e : entry) : kvmap := (k, e) :: m_remove m k.

(* ---------------------------------------------------------------- records *)

Inductive lrec :=
| RSet (k : key) (v : list N)               (* 'S' *)
| RSetExp (k : key) (v : list N) (ms : Z)   (* 'E' *)
| RExp (k : key) (ms : Z)                   (* 'X' (NO_EXPIRY = persist) *)
| RDel (k : key).                           (* 'D' *)

Definition rec_key (r : lrec) : key :=
  match r with RSet k _ | RSetExp k _ _ | RExp k _ | RDel k => k end.

(* replay semantics of one record (fix 8de243d: replay rebuilds the last written state,
   whether or not an expiry has passed meanwhile; load() drops the expired entries once,
   at the end) *)
Definition apply_rec (m : kvmap) (r : lrec) : kvmap :=
  match r with
  | RSet k v => m_set m k (v, None)
  | RSetExp k v ms => if plausible ms then m_set m k (v, Some ms) else m
  | RExp k ms =>
    match m_get m k with
    | None => m
    | Some (v, _) =>
      if (ms =? NO_EXPIRY)%Z then m_set m k (v, None)
      else if plausible ms then m_set m k (v, Some ms)
      else m
    end
  | RDel k => m_remove m k
  end.

Section Bytes.
  Variable crc : list N -> N.        (* 32-bit checksum of the record body *)

  Definition rec_body (r : lrec) : list N :=
    match r with
    | RSet k v => 83 :: le_encode 4 (lenN k) ++ k ++ le_encode 4 (lenN v) ++ v
    | RSetExp k v ms => 69 :: le_encode 4 (lenN k) ++ k ++ enc_i64 ms ++ le_encode 4 (lenN v) ++ v
    | RExp k ms => 88 :: le_encode 4 (lenN k) ++ k ++ enc_i64 ms
    | RDel k => 68 :: le_encode 4 (lenN k) ++ k
    end.

  (* writeLogEntry: totalLen(4) ++ body ++ crc(4) *)
  Definition enc_rec (r : lrec) : list N :=
    let b := rec_body r in
    le_encode 4 (lenN b + 4) ++ b ++ le_encode 4 (crc b).

  (* decoding of one framed buffer (the totalLen bytes, CRC included): None = skipped
     (continue).  As in the C++ the bounds checks are against the END OF THE BUFFER, i.e.
     they include the four CRC bytes, except where the code reserves them explicitly. *)
  Definition parse_buffer (buf : list N) : option lrec :=
    if lenN buf <? 10 then None else
    let n := length buf in
    let body := firstn (n - 4) buf in
    let stored := le_decode (skipn (n - 4) buf) in
    if negb (crc body =? stored) then None else
    match buf with
    | op :: rest =>
      if negb ((op =? 83) || (op =? 68) || (op =? 69) || (op =? 88)) then None else
      match take_exact 4 rest with
      | None => None
      | Some (klb, r1) =>
        let klen := le_decode klb in
        if (klen =? 0) || (MAX_KEYLEN <? klen) then None else
        match take_exact klen r1 with
        | None => None
        | Some (k, r2) =>
          if op =? 83 then
            match take_exact 4 r2 with
            | None => None
            | Some (vlb, r3) =>
              let vlen := le_decode vlb in
              if (MAX_VALLEN <? vlen) || (lenN r3 <? vlen + 4) then None else
              Some (RSet k (firstn (N.to_nat vlen) r3))
            end
          else if op =? 69 then
            if lenN r2 <? 12 then None else
            let eb := firstn 8 r2 in
            let vlen := le_decode (firstn 4 (skipn 8 r2)) in
            let r4 := skipn 12 r2 in
            if (MAX_VALLEN <? vlen) || (lenN r4 <? vlen + 4) then None else
            Some (RSetExp k (firstn (N.to_nat vlen) r4) (dec_i64 eb))
          else if op =? 88 then
            if lenN r2 <? 12 then None else Some (RExp k (dec_i64 (firstn 8 r2)))
          else Some (RDel k)
        end
      end
    | [] => None
    end.

  (* the replay loop over the log bytes: returns the records read (skipped ones omitted)
     and the offset at which framing stopped (= where the log is cut) *)
  Fixpoint frame_log (fuel : nat) (log : list N) (off : N) : list lrec * N :=
    match fuel with
    | O => ([], off)
    | S f =>
      match log with
      | [] => ([], off)
      | _ =>
        match take_exact 4 log with
        | None => ([], off)                                  (* short length prefix: torn *)
        | Some (lb, r1) =>
          let total := le_decode lb in
          if (total <? 10) || (MAX_RECORD <? total) then ([], off) else
          match take_exact total r1 with
          | None => ([], off)                                (* incomplete entry: torn *)
          | Some (buf, r2) =>
            let '(recs, o) := frame_log f r2 (off + 4 + total) in
            (match parse_buffer buf with Some r => r :: recs | None => recs end, o)
          end
        end
      end
    end.

  Definition read_log (log : list N) : list lrec * N := frame_log (S (length log)) log 0.

  (* ---- snapshot (always written as v2) ---- *)
  Definition MAGIC : N := 2980234196.   (* 0xB1A2C3D4 *)

  Definition enc_snap_entry (ke : key * entry) : list N :=
    let '(k, (v, e)) := ke in
    le_encode 4 (lenN k) ++ k ++ enc_i64 (match e with Some ms => ms | None => NO_EXPIRY end)
              ++ le_encode 4 (lenN v) ++ v.
  Definition enc_snapshot (m : kvmap) : list N :=
    le_encode 4 MAGIC ++ le_encode 4 2 ++ le_encode 4 (lenN m) ++ flat_map enc_snap_entry m.

  (* loading a snapshot: None = the constructor throws *)
  Fixpoint load_entries (k : nat) (version : N) (l : list N) (m : kvmap) : option kvmap :=
    match k with
    | O => Some m
    | S k' =>
      match take_exact 4 l with
      | None => None
      | Some (klb, r1) =>
        let klen := le_decode klb in
        if (klen =? 0) || (MAX_KEYLEN <? klen) then None else
        match take_exact klen r1 with
        | None => None
        | Some (key, r2) =>
          let exp_r :=
              if version =? 2 then
                match take_exact 8 r2 with
                | Some (eb, r3) => Some (dec_i64 eb, r3)
                | None => None
                end
              else Some (NO_EXPIRY, r2) in
          match exp_r with
          | None => None
          | Some (ems, r3) =>
            match take_exact 4 r3 with
            | None => None
            | Some (vlb, r4) =>
              let vlen := le_decode vlb in
              if MAX_VALLEN <? vlen then None else
              match take_exact vlen r4 with
              | None => None
              | Some (v, r5) =>
                let m' :=
                    if (ems =? NO_EXPIRY)%Z then m_set m key (v, None)
                    else if plausible ems then m_set m key (v, Some ems)
                    else m in
                load_entries k' version r5 m'
              end
            end
          end
        end
      end
    end.

  Definition load_snapshot (snap : list N) : option kvmap :=
    match take_exact 4 snap with
    | None => None
    | Some (mb, r1) =>
      if negb (le_decode mb =? MAGIC) then None else
      match take_exact 4 r1 with
      | None => None
      | Some (vb, r2) =>
        let version := le_decode vb in
        if negb ((version =? 1) || (version =? 2)) then None else
        match take_exact 4 r2 with
        | None => None
        | Some (cb, r3) =>
          let count := le_decode cb in
          if 10000000 <? count then None else load_entries (N.to_nat count) version r3 []
        end
      end
    end.

  (* ---- the disk and load() ---- *)
  Record disk := mkDisk { d_snap : option (list N); d_log : list N; d_tmp : option (list N) }.

  Definition live (now : Z) (ke : key * entry) : bool :=
    match snd (snd ke) with Some ms => (now <? ms)%Z | None => true end.
  Definition drop_expired (now : Z) (m : kvmap) : kvmap := filter (live now) m.

  Definition load (now : Z) (d : disk) : option (kvmap * disk) :=
    let base := match d_snap d with
                | None => Some []
                | Some s => load_snapshot s
                end in
    match base with
    | None => None
    | Some m0 =>
      let '(recs, good) := read_log (d_log d) in
      let m := drop_expired now (fold_left apply_rec recs m0) in
      (* the torn tail is cut (fix eba9317) *)
      Some (m, mkDisk (d_snap d) (firstn (N.to_nat good) (d_log d)) (d_tmp d))
    end.

  (* appending a record *)
  Definition append (d : disk) (r : lrec) : disk :=
    mkDisk (d_snap d) (d_log d ++ enc_rec r) (d_tmp d).

  (* compaction at time now: the three durable steps *)
  Definition compact_step1 (now : Z) (m : kvmap) (d : disk) : disk :=       (* tmp written *)
    mkDisk (d_snap d) (d_log d) (Some (enc_snapshot (drop_expired now m))).
  Definition compact_step2 (d : disk) : disk :=                            (* rename tmp -> snapshot *)
    mkDisk (d_tmp d) (d_log d) None.
  Definition compact_step3 (d : disk) : disk :=                            (* log truncated *)
    mkDisk (d_snap d) [] (d_tmp d).
End Bytes.

(* ------------------------------------------------------------------ CRC-32 *)
(* the bitwise CRC of KVStore::crc32 (reflected 0xEDB88320), 0 for the empty input *)
Fixpoint crc_bits (k : nat) (c : N) : N :=
  match k with
  | O => c
  | S k' => crc_bits k' (if N.testbit c 0 then N.lxor (N.shiftr c 1) 3988292384 else N.shiftr c 1)
  end.
Definition crc32 (data : list N) : N :=
  match data with
  | [] => 0
  | _ => N.land (N.lxor (fold_left (fun c b => crc_bits 8 (N.lxor c b)) data 4294967295) 4294967295)
                4294967295                                   (* uint32_t *)
  end.

(* ------------------------------------------------ the in-memory store (C12) *)

Record mstate := mkM {
  s_kv : kvmap;                               (* _kv and _expiry together *)
  s_gen : list (key * N);                     (* armed timer generation per TTL key *)
  s_next : N;                                 (* next timer id *)
  s_cache : list (key * entry);               (* bounded read cache *)
  s_cap : N                                   (* maxCacheSize *)
}.

Definition c_get (c : list (key * entry)) (k : key) := m_get c k.

(* updateCache: when full an arbitrary victim is removed first (erase(begin()) of an
   unordered_map); the victim is supplied by an oracle argument *)
Definition cache_put (s : mstate) (victim : key) (k : key) (e : entry) : list (key * entry) :=
  if s_cap s =? 0 then s_cache s else                      (* fix 1150dc0: 0 = cache disabled *)
  let c := if s_cap s <=? lenN (s_cache s) then m_remove (s_cache s) victim else s_cache s in
  m_set c k e.

Inductive mop :=
| OSet (k : key) (v : list N)
| OSetTtl (k : key) (v : list N) (ttl_ms : Z)
| ORemove (k : key)
| OExpireAt (k : key) (ms : Z)
| OPersist (k : key)
| OClear
| OCompact
| OEvict (k : key) (gen : N)                 (* eviction callback fires *)
| OGet (k : key).                            (* reads that touch the cache *)

Definition set_gen (g : list (key * N)) (k : key) (n : N) := (k, n) :: filter (fun x => negb (key_eqb (fst x) k)) g.
Definition del_gen (g : list (key * N)) (k : key) := filter (fun x => negb (key_eqb (fst x) k)) g.
Fixpoint get_gen (g : list (key * N)) (k : key) : option N :=
  match g with
  | [] => None
  | (k', n) :: t => if key_eqb k' k then Some n else get_gen t k
  end.

Definition expired (now : Z) (e : entry) : bool :=
  match snd e with Some ms => (ms <=? now)%Z | None => false end.

(* one operation at wall-clock time now; victim = cache victim oracle; returns the new
   state, the log records appended and the value returned by a get *)
Definition mstep (now : Z) (victim : key) (s : mstate) (o : mop) : mstate * list lrec * option (list N) :=
  match o with
  | OSet k v =>
    (mkM (m_set (s_kv s) k (v, None)) (del_gen (s_gen s) k) (s_next s) (cache_put s victim k (v, None)) (s_cap s),
     [RSet k v], None)
  | OSetTtl k v ttl =>
    let ms := (now + ttl)%Z in
    (mkM (m_set (s_kv s) k (v, Some ms)) (set_gen (s_gen s) k (s_next s)) (s_next s + 1)
         (cache_put s victim k (v, Some ms)) (s_cap s),
     [RSetExp k v ms], None)
  | ORemove k =>
    match m_get (s_kv s) k with
    | Some _ => (mkM (m_remove (s_kv s) k) (del_gen (s_gen s) k) (s_next s) (m_remove (s_cache s) k) (s_cap s),
                 [RDel k], None)
    | None => (s, [], None)
    end
  | OExpireAt k ms0 =>
    match m_get (s_kv s) k with
    | Some (v, e0) =>
      if expired now (v, e0) then (s, [], None) else        (* an expired key is absent *)
      let ms := if (ms0 <=? 0)%Z then 1%Z else ms0 in      (* fix 5b9d6a2 *)
      (mkM (m_set (s_kv s) k (v, Some ms)) (set_gen (s_gen s) k (s_next s)) (s_next s + 1)
           (m_remove (s_cache s) k) (s_cap s),
       [RExp k ms], None)
    | None => (s, [], None)
    end
  | OPersist k =>
    match m_get (s_kv s) k with
    | Some (v, Some ms0) =>
      if (ms0 <=? now)%Z then (s, [], None) else            (* an expired key is absent *)
      (mkM (m_set (s_kv s) k (v, None)) (del_gen (s_gen s) k) (s_next s) (m_remove (s_cache s) k) (s_cap s),
       [RExp k NO_EXPIRY], None)
    | _ => (s, [], None)
    end
  | OClear =>
    (mkM [] [] (s_next s) [] (s_cap s), map (fun ke => RDel (fst ke)) (s_kv s), None)
  | OCompact =>
    let dead := filter (fun ke => expired now (snd ke)) (s_kv s) in
    (mkM (filter (fun ke => negb (expired now (snd ke))) (s_kv s))
         (filter (fun x => match m_get (s_kv s) (fst x) with
                           | Some e => negb (expired now e) | None => false end) (s_gen s))
         (s_next s)
         (filter (fun ce => match m_get (s_kv s) (fst ce) with
                            | Some e => negb (expired now e) | None => false end) (s_cache s))
         (s_cap s),
     [], None)
  | OEvict k g =>
    match m_get (s_kv s) k, get_gen (s_gen s) k with
    | Some (v, Some ms), Some g' =>
      if negb (g =? g') then (s, [], None)                        (* stale timer *)
      else if (now <? ms)%Z then
        (mkM (s_kv s) (set_gen (s_gen s) k (s_next s)) (s_next s + 1) (s_cache s) (s_cap s), [], None)  (* re-arm *)
      else
        (mkM (m_remove (s_kv s) k) (del_gen (s_gen s) k) (s_next s) (m_remove (s_cache s) k) (s_cap s),
         [RDel k], None)
    | _, _ => (s, [], None)
    end
  | OGet k =>
    match k with
    | [] => (s, [], None)
    | _ =>
      let hit := match c_get (s_cache s) k with
                 | Some (v, e) => if negb (expired now (v, e)) then Some v else None
                 | None => None
                 end in
      match hit with
      | Some v => (s, [], Some v)
      | None =>
        match m_get (s_kv s) k with
        | Some (v, e) =>
          if expired now (v, e) then (s, [], None)
          else (mkM (s_kv s) (s_gen s) (s_next s) (cache_put s victim k (v, e)) (s_cap s), [], Some v)
        | None => (s, [], None)
        end
      end
    end
  end.

(* the read API against the map (no cache involved) *)
Definition r_get (now : Z) (m : kvmap) (k : key) : option (list N) :=
  match k with
  | [] => None
  | _ => match m_get m k with
         | Some (v, e) => if expired now (v, e) then None else Some v
         | None => None
         end
  end.
Definition r_exists (now : Z) (m : kvmap) (k : key) : bool :=
  match r_get now m k with Some _ => true | None => false end.
Definition r_keys (now : Z) (m : kvmap) : list key :=
  map fst (filter (fun ke => negb (expired now (snd ke))) m).
Definition r_size (now : Z) (m : kvmap) : N :=
  lenN m - lenN (filter (fun ke => expired now (snd ke)) m).
Definition r_ttl (now : Z) (m : kvmap) (k : key) : option Z :=      (* whole seconds *)
  match m_get m k with
  | Some (_, Some ms) => if (ms <=? now)%Z then None else Some ((ms - now) / 1000)%Z
  | _ => None
  end.

(* ------------------------------------------- the whole store: memory + files (C12) *)
(* state after (re)open: every TTL survivor gets a freshly armed timer, the cache is empty *)
Definition fresh_state (cap : N) (m : kvmap) : mstate :=
  let gn := fold_left (fun (gn : list (key * N) * N) (ke : key * entry) =>
                         match snd (snd ke) with
                         | Some _ => ((fst ke, snd gn) :: fst gn, snd gn + 1)
                         | None => gn
                         end) m ([], 1) in
  mkM m (fst gn) (snd gn) [] cap.

Inductive sysop := SOp (o : mop) | SReopen.     (* SReopen = clean close + open *)
Record sys := mkSys { y_mem : mstate; y_disk : disk }.

(* one step of the whole store at wall-clock time now; None = the constructor throws *)
Definition sys_step (crc : list N -> N) (now : Z) (victim : key) (y : sys) (o : sysop)
  : option (sys * option (list N)) :=
  match o with
  | SOp op =>
    let '(s', recs, out) := mstep now victim (y_mem y) op in
    let d1 := fold_left (append crc) recs (y_disk y) in
    let d2 := match op with
              | OCompact => compact_step3 (compact_step2 (compact_step1 now (s_kv (y_mem y)) d1))
              | _ => d1
              end in
    Some (mkSys s' d2, out)
  | SReopen =>
    match load crc now (y_disk y) with
    | Some (m, d) => Some (mkSys (fresh_state (s_cap (y_mem y)) m) d, None)
    | None => None
    end
  end.

Definition init_sys (cap : N) : sys := mkSys (mkM [] [] 1 [] cap) (mkDisk None [] None).

(* a history: (time, cache-victim oracle, operation); the outputs of the gets, in order *)
Fixpoint srun (crc : list N -> N) (y : sys) (h : list (Z * key * sysop)) : option (sys * list (option (list N))) :=
  match h with
  | [] => Some (y, [])
  | (now, victim, o) :: h' =>
    match sys_step crc now victim y o with
    | None => None
    | Some (y', out) =>
      match srun crc y' h' with
      | None => None
      | Some (y'', outs) =>
        Some (y'', match o with SOp (OGet _) => out :: outs | _ => outs end)
      end
    end
  end.

(* --------------------------------------------------------- JsonFileStore (C11) *)
(* contents are an association list; a flush writes <file>.tmp and renames it over the
   store file (fix 33cb475).  The durable steps of one flush, for the crash theorem: *)
Definition jmap := list (key * list N).
Record jdisk := mkJD { jd_file : option jmap; jd_tmp : option jmap }.

Inductive jstep := JWriteTmp (m : jmap) | JRename.
Definition jflush_steps (m : jmap) : list jstep := [JWriteTmp m; JRename].
Definition japply (d : jdisk) (s : jstep) : jdisk :=
  match s with
  | JWriteTmp m => mkJD (jd_file d) (Some m)
  | JRename => match jd_tmp d with
               | Some m => mkJD (Some m) None
               | None => d
               end
  end.
(* a write may be cut short: the temp file then holds an unparsable prefix *)
Definition jopen (d : jdisk) : jmap := match jd_file d with Some m => m | None => [] end.

Record jstate := mkJ { j_mem : jmap; j_dirty : bool; j_disk : jdisk }.
Inductive jop := JSet (k : key) (v : list N) | JRemove (k : key) | JFlush | JReopen | JGet (k : key).

Fixpoint j_lookup (m : jmap) (k : key) : option (list N) :=
  match m with [] => None | (k', v) :: t => if key_eqb k' k then Some v else j_lookup t k end.
Definition j_set (m : jmap) (k : key) (v : list N) : jmap :=
  (k, v) :: filter (fun x => negb (key_eqb (fst x) k)) m.

Definition jdo_flush (s : jstate) : jstate :=
  if j_dirty s then mkJ (j_mem s) false (fold_left japply (jflush_steps (j_mem s)) (j_disk s)) else s.

Definition jstep_op (s : jstate) (o : jop) : jstate * option (option (list N)) :=
  match o with
  | JSet k v => (mkJ (j_set (j_mem s) k v) true (j_disk s), None)
  | JRemove k =>
    match j_lookup (j_mem s) k with
    | Some _ => (mkJ (filter (fun x => negb (key_eqb (fst x) k)) (j_mem s)) true (j_disk s), None)
    | None => (s, None)
    end
  | JFlush => (jdo_flush s, None)
  | JReopen => let s' := jdo_flush s in (mkJ (jopen (j_disk s')) false (j_disk s'), None)   (* destructor flushes *)
  | JGet k => (s, Some (j_lookup (j_mem s) k))
  end.
