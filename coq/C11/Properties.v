(* C11/Properties.v — the property theorems for C11 and nothing else.
   All byte-level theorems hold for ANY 32-bit checksum function (Section variable crc). *)
From IoraVerif Require Import Common.Bytes C11.Model C11.Proofs.
Local Open Scope N_scope.

(* 1. A log made of whole, well-formed records is read back completely and in order. *)
Theorem kv_log_whole : forall crc, (forall l, crc l < 4294967296) -> forall rs,
  Forall wf_rec rs -> read_log crc (enc_all crc rs) = (rs, lenN (enc_all crc rs)).
Proof. exact read_log_whole. Qed.
Print Assumptions kv_log_whole.

(* 2. Crash at ANY byte offset of ANY sequence of log writes: reopening succeeds, shows
      exactly the effect of the records completely written before the cut (none of the
      torn one), and leaves a log that consists of those whole records only. *)
Theorem kv_crash_any_offset : forall crc, (forall l, crc l < 4294967296) -> forall now rs p q,
  Forall wf_rec rs -> p ++ q = enc_all crc rs ->
  exists rs1 rs2, rs = rs1 ++ rs2 /\
    load crc now (mkDisk None p None) = Some (drop_expired now (replay rs1 []), log_disk crc rs1 []) /\
    (q = [] -> rs2 = []).
Proof. exact load_after_crash. Qed.
Print Assumptions kv_crash_any_offset.

(* 3. Continuation: after such a recovery every further acknowledged write is read back
      at the next open (and that state is again of the form required by 2, so the
      argument repeats for any number of crashes and restarts). *)
Theorem kv_crash_continues : forall crc, (forall l, crc l < 4294967296) -> forall now rs1 more,
  Forall wf_rec rs1 -> Forall wf_rec more ->
  load crc now (fold_left (append crc) more (log_disk crc rs1 [])) =
  Some (drop_expired now (replay (rs1 ++ more) []), log_disk crc (rs1 ++ more) []).
Proof. exact recovery_continues. Qed.
Print Assumptions kv_crash_continues.

(* 4. Replaying a log twice is the same as replaying it once ... *)
Theorem kv_replay_idempotent : forall rs m,
  meq (replay rs (replay rs m)) (replay rs m).
Proof. exact replay_idempotent. Qed.
Print Assumptions kv_replay_idempotent.

(* 5. ... hence the compaction crash window (new snapshot in place, old log not yet
      emptied) shows every reader the same state as before the compaction. *)
Theorem kv_compaction_window : forall now rs m0 d,
  (forall k, m_get d k = vis now (m_get (replay rs m0) k)) ->
  forall k, vis now (m_get (replay rs d) k) = vis now (m_get (replay rs m0) k).
Proof. exact compaction_window. Qed.
Print Assumptions kv_compaction_window.

(* 6. JsonFileStore: at every crash point of a flush the store reopens to the contents of
      the last completed flush or of the flush in progress. *)
Theorem jsonstore_flush_crash_safe : forall old m d k,
  jd_file d = Some old ->
  let d' := fold_left japply (firstn k (jflush_steps m)) d in
  jopen d' = old \/ jopen d' = m.
Proof. exact jflush_crash_safe. Qed.
Print Assumptions jsonstore_flush_crash_safe.

(* ------------------------------------------------ non-vacuity examples *)
Example wf_records : Forall wf_rec [RSet [97] [1; 2; 3]; RSetExp [98] [] 5000%Z; RExp [97] NO_EXPIRY; RDel [98]].
Proof.
  assert (H : forall r, (0 < lenN (rec_key r) /\ lenN (rec_key r) <= MAX_KEYLEN /\
              match r with RSet _ v => lenN v <= MAX_VALLEN | RSetExp _ v ms => lenN v <= MAX_VALLEN /\ in_i64 ms
                         | RExp _ ms => in_i64 ms | RDel _ => True end) -> wf_rec r) by (intros r Hr; exact Hr).
  repeat (apply Forall_cons; [apply H; cbn; unfold in_i64, NO_EXPIRY, two63, MAX_KEYLEN, MAX_VALLEN; repeat split; lia|]).
  constructor.
Qed.
Example crc32_is_32bit : crc32 [1; 2; 3] < 4294967296 /\ crc32 [] = 0.
Proof. vm_compute. split; reflexivity. Qed.
Example torn_tail_instance :
  let log := enc_all crc32 [RSet [97] [1]; RSet [98] [2]] in
  match load crc32 1000 (mkDisk None (firstn 20 log) None) with
  | Some (m, d) => m = [([97], ([1], None))] /\ lenN (d_log d) = 19
  | None => False
  end.
Proof. vm_compute. split; reflexivity. Qed.
