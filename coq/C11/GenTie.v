(* C11/GenTie.v — the constants of the KV store model against the values /repo's headers have NOW (coq/Gen/Constants.v
   is regenerated on every check run by tools/translate.py).  Proof obligations of C11 and C12. *)
From IoraVerif Require Import Common.Bytes C11.Model Gen.Constants.
From Coq Require Import ZArith Lia.
Local Open Scope N_scope.

(* every key / value the write path accepts (set, setBatch: size <= MAX_KEY_LENGTH / MAX_VALUE_LENGTH) is within the
   bounds the replay and snapshot loaders of the model (= the literals of load()) accept, and the largest legal record
   fits the replay's record bound (the defect C11-F17 was exactly a violation of the last clause) *)
Theorem kv_limits_tie :
  KV_MAX_KEY_LENGTH <= MAX_KEYLEN /\ KV_MAX_VALUE_LENGTH = MAX_VALLEN /\
  KV_MAX_KEY_LENGTH + KV_MAX_VALUE_LENGTH + 64 <= MAX_RECORD.
Proof. vm_compute. repeat split; congruence. Qed.
Print Assumptions kv_limits_tie.

Theorem kv_format_tie :
  KV_MAGIC = MAGIC /\ KV_SNAPSHOT_VERSION = 2 /\ Z.of_N KV_MAX_PLAUSIBLE_EPOCH_MS = MAX_PLAUSIBLE.
Proof. vm_compute. repeat split; reflexivity. Qed.
Print Assumptions kv_format_tie.
