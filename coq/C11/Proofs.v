(* C11/Proofs.v — lemmas about C11/Model.v (log framing, crash prefixes, replay) *)
From IoraVerif Require Import Common.Bytes C11.Model.
From Coq Require Import ZifyBool ZifyN ZifyNat.
Local Open Scope N_scope.
Ltac Zify.zify_post_hook ::= Z.div_mod_to_equations.

(* ------------------------------------------------------------ little endian *)

Lemma le_encode_length k x : length (le_encode k x) = k.
Proof. revert x; induction k; intros x; cbn [le_encode length]; auto. Qed.
Lemma lenN_le_encode k x : lenN (le_encode k x) = N.of_nat k.
Proof. unfold lenN. now rewrite le_encode_length. Qed.

Lemma le_decode_encode k : forall x, x < 256 ^ N.of_nat k -> le_decode (le_encode k x) = x.
Proof.
  induction k as [|k IH]; intros x Hx.
  - cbn in *. lia.
  - cbn [le_encode le_decode].
    assert (Hp : 256 ^ N.of_nat (S k) = 256 * 256 ^ N.of_nat k).
    { rewrite Nat2N.inj_succ, N.pow_succ_r'. reflexivity. }
    rewrite Hp in Hx.
    set (p := 256 ^ N.of_nat k) in *.
    assert (Hq : x / 256 < p) by lia.
    rewrite (IH (x / 256) Hq). lia.
Qed.

Definition in_i64 (z : Z) : Prop := (- two63 <= z < two63)%Z.

Lemma dec_enc_i64 z : in_i64 z -> dec_i64 (enc_i64 z) = z.
Proof.
  unfold in_i64, dec_i64, enc_i64, two63, two64. intros Hz.
  rewrite le_decode_encode.
  2:{ change (256 ^ N.of_nat 8) with 18446744073709551616. lia. }
  rewrite Z2N.id by lia.
  destruct (z mod 18446744073709551616 <? 9223372036854775808)%Z eqn:E; lia.
Qed.

Lemma crc32_32bit l : crc32 l < 4294967296.
Proof.
  unfold crc32. destruct l as [|b l]; [lia|].
  change 4294967295 with (N.ones 32) at 3. rewrite N.land_ones.
  change (2 ^ 32) with 4294967296. apply N.mod_lt. lia.
Qed.

(* ------------------------------------------------------- one record round trip *)

Section Framing.
Variable crc : list N -> N.
Hypothesis crc32bit : forall l, crc l < 4294967296.

Definition wf_rec (r : lrec) : Prop :=
  0 < lenN (rec_key r) /\ lenN (rec_key r) <= MAX_KEYLEN /\
  match r with
  | RSet _ v => lenN v <= MAX_VALLEN
  | RSetExp _ v ms => lenN v <= MAX_VALLEN /\ in_i64 ms
  | RExp _ ms => in_i64 ms
  | RDel _ => True
  end.

Lemma firstn_app_exact {A} (a b : list A) : firstn (length a) (a ++ b) = a.
Proof. rewrite firstn_app, Nat.sub_diag, firstn_all. cbn. now rewrite app_nil_r. Qed.
Lemma skipn_app_exact {A} (a b : list A) : skipn (length a) (a ++ b) = b.
Proof. rewrite skipn_app, Nat.sub_diag, skipn_all. reflexivity. Qed.

Lemma take4 x rest : x < 4294967296 -> take_exact 4 (le_encode 4 x ++ rest) = Some (le_encode 4 x, rest).
Proof.
  intros _. replace 4 with (lenN (le_encode 4 x)) at 1 by apply lenN_le_encode. apply take_exact_app.
Qed.

Lemma le4 x : x < 4294967296 -> le_decode (le_encode 4 x) = x.
Proof. intros H. apply le_decode_encode. exact H. Qed.

Lemma enc_i64_len z : lenN (enc_i64 z) = 8.
Proof. unfold enc_i64. apply lenN_le_encode. Qed.

Lemma parse_enc_buffer r : wf_rec r ->
  parse_buffer crc (rec_body r ++ le_encode 4 (crc (rec_body r))) = Some r.
Proof.
  intros (Hk0 & Hk1 & Hr). unfold MAX_KEYLEN, MAX_VALLEN in *.
  set (body := rec_body r). set (c4 := le_encode 4 (crc body)).
  assert (Hc4 : length c4 = 4%nat) by apply le_encode_length.
  unfold parse_buffer, MAX_KEYLEN, MAX_VALLEN.
  assert (Hlen : length (body ++ c4) = (length body + 4)%nat) by (rewrite app_length; lia).
  assert (Hbody : (6 <= length body)%nat).
  { subst body. destruct r; cbn [rec_body rec_key length] in *; rewrite !app_length, ?le_encode_length;
      unfold lenN in Hk0; lia. }
  destruct (lenN (body ++ c4) <? 10) eqn:E10; [unfold lenN in E10; lia|].
  rewrite Hlen. replace (length body + 4 - 4)%nat with (length body) by lia.
  rewrite firstn_app_exact, skipn_app_exact. unfold c4 at 1. rewrite le4 by apply crc32bit.
  rewrite N.eqb_refl. cbn [negb].
  subst body. destruct r as [k v|k v ms|k ms|k]; cbn [rec_body rec_key app] in *.
  - cbn [N.eqb Pos.eqb orb negb]. rewrite <- !app_assoc.
    rewrite take4 by lia. rewrite le4 by lia.
    replace ((lenN k =? 0) || (65536 <? lenN k)) with false by lia.
    rewrite take_exact_app. cbn [N.eqb Pos.eqb].
    rewrite take4 by lia. rewrite le4 by lia.
    rewrite lenN_app. fold c4. change (lenN c4) with (N.of_nat (length c4)). rewrite Hc4.
    replace ((104857600 <? lenN v) || (lenN v + N.of_nat 4 <? lenN v + 4)) with false by lia.
    unfold lenN. rewrite Nat2N.id, firstn_app_exact. reflexivity.
  - destruct Hr as [Hv Hms]. cbn [N.eqb Pos.eqb orb negb]. rewrite <- !app_assoc.
    rewrite take4 by lia. rewrite le4 by lia.
    replace ((lenN k =? 0) || (65536 <? lenN k)) with false by lia.
    rewrite take_exact_app. cbn [N.eqb Pos.eqb].
    fold c4.
    assert (H8 : length (enc_i64 ms) = 8%nat) by (unfold enc_i64; apply le_encode_length).
    replace (lenN (enc_i64 ms ++ le_encode 4 (lenN v) ++ v ++ c4) <? 12) with false.
    2:{ rewrite !lenN_app, enc_i64_len, lenN_le_encode. lia. }
    set (E := enc_i64 ms) in *. set (L := le_encode 4 (lenN v)) in *.
    assert (HL : length L = 4%nat) by apply le_encode_length.
    assert (A1 : firstn 8 (E ++ L ++ v ++ c4) = E) by (rewrite <- H8; apply firstn_app_exact).
    assert (A2 : firstn 4 (skipn 8 (E ++ L ++ v ++ c4)) = L).
    { rewrite <- H8, skipn_app_exact. rewrite <- HL. apply firstn_app_exact. }
    assert (A3 : skipn 12 (E ++ L ++ v ++ c4) = v ++ c4).
    { replace 12%nat with (length (E ++ L)) by (rewrite app_length, H8, HL; reflexivity).
      rewrite app_assoc. apply skipn_app_exact. }
    rewrite A1, A2, A3. unfold L. rewrite le4 by lia.
    rewrite lenN_app. change (lenN c4) with (N.of_nat (length c4)). rewrite Hc4.
    replace ((104857600 <? lenN v) || (lenN v + N.of_nat 4 <? lenN v + 4)) with false by lia.
    unfold lenN at 1. rewrite Nat2N.id, firstn_app_exact. unfold E. rewrite dec_enc_i64 by exact Hms. reflexivity.
  - cbn [N.eqb Pos.eqb orb negb]. rewrite <- !app_assoc.
    rewrite take4 by lia. rewrite le4 by lia.
    replace ((lenN k =? 0) || (65536 <? lenN k)) with false by lia.
    rewrite take_exact_app. cbn [N.eqb Pos.eqb].
    fold c4.
    assert (H8 : length (enc_i64 ms) = 8%nat) by (unfold enc_i64; apply le_encode_length).
    replace (lenN (enc_i64 ms ++ c4) <? 12) with false.
    2:{ rewrite lenN_app, enc_i64_len. change (lenN c4) with (N.of_nat (length c4)). rewrite Hc4. lia. }
    assert (A1 : firstn 8 (enc_i64 ms ++ c4) = enc_i64 ms) by (rewrite <- H8; apply firstn_app_exact).
    rewrite A1. rewrite dec_enc_i64 by exact Hr. reflexivity.
  - cbn [N.eqb Pos.eqb orb negb]. rewrite <- !app_assoc.
    rewrite take4 by lia. rewrite le4 by lia.
    replace ((lenN k =? 0) || (65536 <? lenN k)) with false by lia.
    rewrite take_exact_app. cbn [N.eqb Pos.eqb]. reflexivity.
Qed.

(* ------------------------------------------------ framing of whole records *)

Lemma rec_body_len r : wf_rec r -> 6 <= lenN (rec_body r) /\ lenN (rec_body r) + 4 <= MAX_RECORD.
Proof.
  intros (Hk0 & Hk1 & Hr). unfold MAX_KEYLEN, MAX_VALLEN, MAX_RECORD in *.
  destruct r; cbn [rec_body rec_key] in *; rewrite !lenN_cons, !lenN_app, ?lenN_le_encode, ?enc_i64_len;
    change (N.of_nat 4) with 4; intuition lia.
Qed.

Definition enc_all_pre (rs : list lrec) : list N := concat (map (enc_rec crc) rs).

Lemma enc_rec_len r : lenN (enc_rec crc r) = lenN (rec_body r) + 8.
Proof. unfold enc_rec. rewrite !lenN_app, !lenN_le_encode. change (N.of_nat 4) with 4. lia. Qed.

Lemma enc_rec_pos r : (1 <= length (enc_rec crc r))%nat.
Proof. pose proof (enc_rec_len r) as H. unfold lenN in H. lia. Qed.

Lemma enc_all_count rs : (length rs <= length (enc_all_pre rs))%nat.
Proof.
  induction rs as [|r rs IH]; [cbn; lia|].
  unfold enc_all_pre in *. cbn [map concat length]. rewrite app_length. pose proof (enc_rec_pos r). lia.
Qed.

Lemma frame_unfold f l off : l <> [] ->
  frame_log crc (S f) l off =
  match take_exact 4 l with
  | None => ([], off)
  | Some (lb, r1) =>
    let total := le_decode lb in
    if (total <? 10) || (MAX_RECORD <? total) then ([], off) else
    match take_exact total r1 with
    | None => ([], off)
    | Some (buf, r2) =>
      let '(recs, o) := frame_log crc f r2 (off + 4 + total) in
      (match parse_buffer crc buf with Some r => r :: recs | None => recs end, o)
    end
  end.
Proof. destruct l; [congruence|reflexivity]. Qed.

Lemma frame_step f r rest off : wf_rec r ->
  frame_log crc (S f) (enc_rec crc r ++ rest) off =
  let '(recs, o) := frame_log crc f rest (off + lenN (enc_rec crc r)) in (r :: recs, o).
Proof.
  intros Hwf. destruct (rec_body_len r Hwf) as [Hb1 Hb2]. unfold MAX_RECORD in Hb2.
  unfold enc_rec at 1. rewrite <- !app_assoc.
  rewrite frame_unfold by (cbn [le_encode app]; discriminate).
  rewrite take4 by lia. cbv zeta. rewrite le4 by lia.
  replace ((lenN (rec_body r) + 4 <? 10) || (MAX_RECORD <? lenN (rec_body r) + 4)) with false
    by (unfold MAX_RECORD; lia).
  rewrite app_assoc.
  replace (lenN (rec_body r) + 4) with (lenN (rec_body r ++ le_encode 4 (crc (rec_body r))))
    by (rewrite lenN_app, lenN_le_encode; reflexivity).
  rewrite take_exact_app. rewrite parse_enc_buffer by exact Hwf.
  rewrite lenN_app, lenN_le_encode, enc_rec_len. change (N.of_nat 4) with 4.
  replace (off + 4 + (lenN (rec_body r) + 4)) with (off + (lenN (rec_body r) + 8)) by lia.
  reflexivity.
Qed.

Definition enc_all (rs : list lrec) : list N := enc_all_pre rs.

Lemma frame_all : forall rs tail f off, Forall wf_rec rs ->
  frame_log crc (length rs + f) (enc_all rs ++ tail) off =
  let '(recs, o) := frame_log crc f tail (off + lenN (enc_all rs)) in (rs ++ recs, o).
Proof.
  induction rs as [|r rs IH]; intros tail f off Hwf.
  - unfold enc_all, enc_all_pre. cbn [map concat app length Nat.add].
    change (lenN (@nil N)) with 0. rewrite N.add_0_r.
    destruct (frame_log crc f tail off). reflexivity.
  - inversion Hwf as [|? ? Hr Hrs]; subst.
    unfold enc_all, enc_all_pre. cbn [map concat length]. fold (enc_all_pre rs). fold (enc_all rs). rewrite <- app_assoc.
    cbn [Nat.add]. rewrite frame_step by exact Hr.
    rewrite IH by exact Hrs.
    rewrite lenN_app. rewrite N.add_assoc.
    destruct (frame_log crc f tail (off + lenN (enc_rec crc r) + lenN (enc_all rs))). reflexivity.
Qed.

(* a log that consists of whole records is read back completely *)
Theorem read_log_whole rs : Forall wf_rec rs ->
  read_log crc (enc_all rs) = (rs, lenN (enc_all rs)).
Proof.
  intros Hwf. unfold read_log.
  assert (Hlen : (length rs <= length (enc_all rs))%nat) by apply enc_all_count.
  pose proof (frame_all rs [] (S (length (enc_all rs)) - length rs) 0 Hwf) as H.
  rewrite app_nil_r in H.
  replace (length rs + (S (length (enc_all rs)) - length rs))%nat with (S (length (enc_all rs))) in H by lia.
  rewrite H.
  destruct (S (length (enc_all rs)) - length rs)%nat; cbn [frame_log]; rewrite app_nil_r, N.add_0_l; reflexivity.
Qed.

(* ------------------------------------------------------------- torn tails *)

Lemma frame_torn f r t u off : wf_rec r -> enc_rec crc r = t ++ u -> u <> [] ->
  frame_log crc f t off = ([], off).
Proof.
  intros Hwf He Hu. destruct f as [|f]; [reflexivity|].
  destruct t as [|x t']; [reflexivity|]. rewrite frame_unfold by discriminate.
  destruct (rec_body_len r Hwf) as [Hb1 Hb2]. unfold MAX_RECORD in Hb2.
  destruct (take_exact 4 (x :: t')) as [[lb r1]|] eqn:E4; [|reflexivity].
  apply take_exact_spec in E4 as [Heq Hl4].
  (* the four length bytes are those of the record *)
  assert (Hlb : lb = le_encode 4 (lenN (rec_body r) + 4)).
  { unfold enc_rec in He. rewrite Heq, <- app_assoc in He.
    assert (Hl : length lb = length (le_encode 4 (lenN (rec_body r) + 4))).
    { rewrite le_encode_length. unfold lenN in Hl4. lia. }
    revert He Hl. generalize (le_encode 4 (lenN (rec_body r) + 4)) as l4. clear.
    induction lb as [|a lb IH]; intros l4 He Hl; destruct l4 as [|b l4]; try discriminate; [reflexivity|].
    cbn [app] in He. injection He as -> He. f_equal. apply (IH l4 He). cbn [length] in Hl. lia. }
  subst lb. cbv zeta. rewrite le4 by lia.
  replace ((lenN (rec_body r) + 4 <? 10) || (MAX_RECORD <? lenN (rec_body r) + 4)) with false
    by (unfold MAX_RECORD; lia).
  assert (Hshort : lenN r1 < lenN (rec_body r) + 4).
  { pose proof (f_equal lenN He) as HL. rewrite enc_rec_len, Heq, !lenN_app, lenN_le_encode in HL.
    change (N.of_nat 4) with 4 in HL.
    destruct u as [|y u']; [congruence|]. rewrite lenN_cons in HL. lia. }
  apply take_exact_none in Hshort. rewrite Hshort. reflexivity.
Qed.

(* every byte prefix of a log of whole records: the records completely contained in the
   prefix are read, framing stops exactly at the first torn byte *)
Theorem read_log_prefix : forall rs p q, Forall wf_rec rs -> p ++ q = enc_all rs ->
  exists rs1 rs2 t,
    rs = rs1 ++ rs2 /\ p = enc_all rs1 ++ t /\
    (t = [] \/ exists r rs3 u, rs2 = r :: rs3 /\ enc_rec crc r = t ++ u /\ u <> []) /\
    read_log crc p = (rs1, lenN (enc_all rs1)).
Proof.
  intros rs p q Hwf E.
  assert (G : exists rs1 rs2 t, rs = rs1 ++ rs2 /\ p = enc_all rs1 ++ t /\
              (t = [] \/ exists r rs3 u, rs2 = r :: rs3 /\ enc_rec crc r = t ++ u /\ u <> [])).
  { revert p q E. induction rs as [|r rs IH]; intros p q E.
    - cbn in E. apply app_eq_nil in E as [-> ->]. exists [], [], []. auto.
    - unfold enc_all, enc_all_pre in E. cbn [map concat] in E. fold (enc_all_pre rs) in E. fold (enc_all rs) in E.
      apply app_eq_app in E as [l [[Hp Hq]|[Hr Hq]]].
      + (* p contains the first record *)
        inversion Hwf as [|? ? _ Hrs]; subst.
        destruct (IH Hrs l q (eq_sym Hq)) as (rs1 & rs2 & t & -> & -> & Ht).
        exists (r :: rs1), rs2, t. repeat split; auto.
        unfold enc_all, enc_all_pre. cbn [map concat]. now rewrite <- app_assoc.
      + destruct l as [|x l].
        * rewrite app_nil_r in Hr. subst p. cbn [app] in Hq.
          exists [r], rs, []. repeat split; auto. unfold enc_all, enc_all_pre. cbn [map concat]. now rewrite !app_nil_r.
        * exists [], (r :: rs), p. repeat split; auto. right. exists r, rs, (x :: l). repeat split; auto. discriminate. }
  destruct G as (rs1 & rs2 & t & -> & -> & Ht). exists rs1, rs2, t. repeat split; auto.
  apply Forall_app in Hwf as [Hwf1 Hwf2].
  unfold read_log.
  assert (Hlen : (length rs1 <= length (enc_all rs1))%nat) by apply enc_all_count.
  pose proof (frame_all rs1 t (S (length (enc_all rs1 ++ t)) - length rs1) 0 Hwf1) as H.
  rewrite app_length in *.
  replace (length rs1 + (S (length (enc_all rs1) + length t) - length rs1))%nat
    with (S (length (enc_all rs1) + length t)) in H by lia.
  rewrite H. rewrite N.add_0_l.
  assert (Ht0 : frame_log crc (S (length (enc_all rs1) + length t) - length rs1) t (lenN (enc_all rs1))
                = ([], lenN (enc_all rs1))).
  { destruct Ht as [->|(r & rs3 & u & -> & He & Hu)].
    - destruct (S (length (enc_all rs1) + length []) - length rs1)%nat; reflexivity.
    - inversion Hwf2; subst. eapply frame_torn; eauto. }
  rewrite Ht0, app_nil_r. reflexivity.
Qed.

End Framing.

(* ------------------------------------------------------ load() after a crash *)

Section Recovery.
Variable crc : list N -> N.
Hypothesis crc32bit : forall l, crc l < 4294967296.

Definition replay (rs : list lrec) (m : kvmap) : kvmap := fold_left apply_rec rs m.

(* a disk whose log is made of whole, well-formed records and that has no snapshot *)
Definition log_disk (rs : list lrec) (tail : list N) : disk := mkDisk None (enc_all crc rs ++ tail) None.

Theorem load_after_crash now rs p q : Forall wf_rec rs -> p ++ q = enc_all crc rs ->
  exists rs1 rs2, rs = rs1 ++ rs2 /\
    load crc now (mkDisk None p None) = Some (drop_expired now (replay rs1 []), log_disk rs1 []) /\
    (* nothing of an operation whose record is torn is applied, everything before it is *)
    (q = [] -> rs2 = []).
Proof.
  intros Hwf E.
  destruct (read_log_prefix crc crc32bit rs p q Hwf E) as (rs1 & rs2 & t & Hrs & Hp & Ht & Hread).
  exists rs1, rs2. split; [exact Hrs|]. split.
  - unfold load. cbn [d_snap d_log d_tmp]. rewrite Hread.
    unfold log_disk, replay. f_equal. f_equal. f_equal.
    rewrite Hp, app_nil_r. unfold lenN. rewrite Nat2N.id. apply firstn_app_exact.
  - intros ->. rewrite app_nil_r in E.
    assert (Heq : enc_all crc (rs1 ++ rs2) = enc_all crc rs1 ++ t) by congruence.
    assert (Hsplit : enc_all crc (rs1 ++ rs2) = enc_all crc rs1 ++ enc_all crc rs2).
    { unfold enc_all, enc_all_pre. now rewrite map_app, concat_app. }
    rewrite Hsplit in Heq. apply app_inv_head in Heq.
    destruct Ht as [->|(r & rs3 & u & -> & He & Hu)].
    + destruct rs2 as [|r rs2']; [reflexivity|exfalso].
      unfold enc_all, enc_all_pre in Heq. cbn [map concat] in Heq.
      pose proof (enc_rec_pos crc r) as Hpos. apply (f_equal (@length N)) in Heq.
      rewrite app_length in Heq. cbn [length] in Heq. lia.
    + exfalso. unfold enc_all, enc_all_pre in Heq. cbn [map concat] in Heq.
      rewrite He, <- app_assoc in Heq.
      apply (f_equal (@length N)) in Heq. rewrite !app_length in Heq.
      destruct u; [congruence|cbn [length] in Heq; lia].
Qed.

(* after recovery the log again consists of whole records, so the next acknowledged
   writes are read back at the next open — the continuation, by induction on restarts *)
Theorem recovery_continues now rs1 more : Forall wf_rec rs1 -> Forall wf_rec more ->
  load crc now (fold_left (append crc) more (log_disk rs1 [])) =
  Some (drop_expired now (replay (rs1 ++ more) []), log_disk (rs1 ++ more) []).
Proof.
  intros H1 H2.
  assert (Hd : fold_left (append crc) more (log_disk rs1 []) = log_disk (rs1 ++ more) []).
  { revert rs1 H1. induction more as [|r more IH]; intros rs1 H1; cbn [fold_left].
    - now rewrite app_nil_r.
    - inversion H2; subst.
      assert (Ha : append crc (log_disk rs1 []) r = log_disk (rs1 ++ [r]) []).
      { unfold append, log_disk. cbn [d_snap d_log d_tmp]. f_equal. rewrite !app_nil_r.
        unfold enc_all, enc_all_pre. rewrite map_app, concat_app. cbn [map concat]. now rewrite app_nil_r. }
      rewrite Ha. rewrite IH.
      + now rewrite <- app_assoc.
      + assumption.
      + apply Forall_app; split; [assumption|constructor; [assumption|constructor]]. }
  rewrite Hd. unfold load, log_disk. cbn [d_snap d_log d_tmp]. rewrite app_nil_r.
  rewrite read_log_whole by (try exact crc32bit; apply Forall_app; auto).
  unfold replay. f_equal. f_equal. f_equal.
  unfold lenN. rewrite Nat2N.id. apply firstn_all.
Qed.

End Recovery.

(* ------------------------------------------ replay is idempotent (compaction window) *)

Definition meq (m1 m2 : kvmap) : Prop := forall k, m_get m1 k = m_get m2 k.

Lemma key_eqb_refl k : key_eqb k k = true.
Proof. unfold key_eqb. destruct (list_eq_dec N.eq_dec k k); congruence. Qed.
Lemma key_eqb_eq a b : key_eqb a b = true -> a = b.
Proof. unfold key_eqb. destruct (list_eq_dec N.eq_dec a b); [auto|discriminate]. Qed.
Lemma key_eqb_neq a b : key_eqb a b = false -> a <> b.
Proof. unfold key_eqb. destruct (list_eq_dec N.eq_dec a b); [discriminate|auto]. Qed.

Lemma m_get_remove m k k' :
  m_get (m_remove m k) k' = if key_eqb k k' then None else m_get m k'.
Proof.
  induction m as [|[k0 e0] m IH]; cbn [m_remove m_get].
  - destruct (key_eqb k k'); reflexivity.
  - destruct (key_eqb k0 k) eqn:E0.
    + apply key_eqb_eq in E0. subst k0. rewrite IH.
      destruct (key_eqb k k') eqn:E; reflexivity.
    + cbn [m_get]. rewrite IH. destruct (key_eqb k0 k') eqn:E1; [|reflexivity].
      apply key_eqb_eq in E1. subst k0.
      destruct (key_eqb k k') eqn:E; [|reflexivity].
      apply key_eqb_eq in E. subst k. rewrite key_eqb_refl in E0. discriminate.
Qed.

Lemma m_get_set m k e k' :
  m_get (m_set m k e) k' = if key_eqb k k' then Some e else m_get m k'.
Proof.
  unfold m_set. cbn [m_get]. destruct (key_eqb k k') eqn:E; [reflexivity|].
  rewrite m_get_remove, E. reflexivity.
Qed.

(* the effect of one record on the entry of its own key *)
Definition rec_fun (r : lrec) (o : option entry) : option entry :=
  match r with
  | RSet _ v => Some (v, None)
  | RSetExp _ v ms => if plausible ms then Some (v, Some ms) else o
  | RExp _ ms =>
    match o with
    | None => None
    | Some (v, _) =>
      if (ms =? NO_EXPIRY)%Z then Some (v, None)
      else if plausible ms then Some (v, Some ms)
      else o
    end
  | RDel _ => None
  end.

Lemma apply_get m r k :
  m_get (apply_rec m r) k =
  if key_eqb (rec_key r) k then rec_fun r (m_get m k) else m_get m k.
Proof.
  destruct r as [k0 v|k0 v ms|k0 ms|k0]; cbn [apply_rec rec_key rec_fun].
  - rewrite m_get_set. destruct (key_eqb k0 k); reflexivity.
  - destruct (plausible ms); [|destruct (key_eqb k0 k); reflexivity].
    rewrite m_get_set. destruct (key_eqb k0 k); reflexivity.
  - destruct (key_eqb k0 k) eqn:E.
    + apply key_eqb_eq in E. subst k0.
      destruct (m_get m k) as [[v x]|] eqn:Eg; [|exact Eg].
      destruct (ms =? NO_EXPIRY)%Z; [rewrite m_get_set, key_eqb_refl; reflexivity|].
      destruct (plausible ms); [|exact Eg].
      rewrite m_get_set, key_eqb_refl; reflexivity.
    + destruct (m_get m k0) as [[v x]|]; [|reflexivity].
      destruct (ms =? NO_EXPIRY)%Z; [rewrite m_get_set, E; reflexivity|].
      destruct (plausible ms); [|reflexivity].
      rewrite m_get_set, E; reflexivity.
  - rewrite m_get_remove. destruct (key_eqb k0 k); reflexivity.
Qed.

(* the per-key function of a whole log *)
Fixpoint key_fun (rs : list lrec) (k : key) (o : option entry) : option entry :=
  match rs with
  | [] => o
  | r :: rest => key_fun rest k (if key_eqb (rec_key r) k then rec_fun r o else o)
  end.

Lemma replay_get : forall rs m k, m_get (replay rs m) k = key_fun rs k (m_get m k).
Proof.
  induction rs as [|r rs IH]; intros m k; [reflexivity|].
  unfold replay in *. cbn [fold_left key_fun]. rewrite IH, apply_get. reflexivity.
Qed.

(* three shapes of per-key functions, closed under the records, all idempotent *)
Definition is_const (g : option entry -> option entry) : Prop := exists c, forall o, g o = c.
Definition is_id (g : option entry -> option entry) : Prop := forall o, g o = o.
Definition is_mod (g : option entry -> option entry) : Prop :=
  g None = None /\
  forall v, (forall y, g (Some (v, y)) = None) \/ (exists e, forall y, g (Some (v, y)) = Some (v, e)).
Definition shaped g := is_const g \/ is_id g \/ is_mod g.

Lemma shaped_idem g : shaped g -> forall o, g (g o) = g o.
Proof.
  intros [[c Hc]|[Hi|[Hn Hm]]] o.
  - now rewrite !Hc.
  - now rewrite !Hi.
  - destruct o as [[v x]|]; [|now rewrite Hn, Hn].
    destruct (Hm v) as [H|[e H]].
    + now rewrite H, Hn.
    + now rewrite (H x), (H e).
Qed.

Lemma rec_fun_shaped r : shaped (rec_fun r).
Proof.
  destruct r as [k v|k v ms|k ms|k]; unfold shaped, rec_fun.
  - left. now exists (Some (v, None)).
  - destruct (plausible ms); [|right; left; intros o; reflexivity].
    left. eexists. intros o. reflexivity.
  - destruct (ms =? NO_EXPIRY)%Z eqn:E1.
    { right; right. split; [reflexivity|]. intros v. right. exists None. reflexivity. }
    destruct (plausible ms).
    + right; right. split; [reflexivity|]. intros v. right; exists (Some ms); reflexivity.
    + right; left. intros [[v x]|]; reflexivity.
  - left. now exists None.
Qed.

Lemma shaped_comp r g : shaped g -> shaped (fun o => rec_fun r (g o)).
Proof.
  intros Hg. destruct (rec_fun_shaped r) as [[c Hc]|[Hi|[Hn Hm]]].
  - left. exists c. intros o. apply Hc.
  - destruct Hg as [[c Hc]|[Hgi|[Hgn Hgm]]].
    + left. exists c. intros o. now rewrite Hi, Hc.
    + right; left. intros o. now rewrite Hi, Hgi.
    + right; right. split; [now rewrite Hi|]. intros v.
      destruct (Hgm v) as [H|[e H]]; [left|right; exists e]; intros y; now rewrite Hi, H.
  - destruct Hg as [[c Hc]|[Hgi|[Hgn Hgm]]].
    + left. exists (rec_fun r c). intros o. now rewrite Hc.
    + right; right. split; [now rewrite Hgi|]. intros v.
      destruct (Hm v) as [H|[e H]]; [left|right; exists e]; intros y; now rewrite Hgi, H.
    + right; right. split; [now rewrite Hgn|]. intros v.
      destruct (Hgm v) as [H|[e H]].
      * left. intros y. now rewrite H.
      * destruct (Hm v) as [H2|[e2 H2]]; [left|right; exists e2]; intros y; now rewrite H, H2.
Qed.

Lemma key_fun_shaped k : forall rs g, shaped g -> shaped (fun o => key_fun rs k (g o)).
Proof.
  induction rs as [|r rs IH]; intros g Hg; cbn [key_fun]; [exact Hg|].
  destruct (key_eqb (rec_key r) k).
  - apply (IH (fun o => rec_fun r (g o))). now apply shaped_comp.
  - apply IH. exact Hg.
Qed.

Theorem replay_idempotent rs m : meq (replay rs (replay rs m)) (replay rs m).
Proof.
  intros k. rewrite !replay_get.
  assert (Hs : shaped (fun o => key_fun rs k o)).
  { apply (key_fun_shaped k rs (fun o => o)). right; left. intros o; reflexivity. }
  apply (shaped_idem _ Hs).
Qed.

(* what a reader sees of an entry at time now *)
Definition vis (now : Z) (o : option entry) : option entry :=
  match o with
  | Some (v, Some ms) => if (now <? ms)%Z then o else None
  | _ => o
  end.

(* Compaction window: the snapshot written by a compaction holds the live part of the
   state; if the crash happens after the rename but before the log is emptied, the next
   open replays the whole old log over that snapshot.  What a reader sees is unchanged. *)
Theorem compaction_window now rs (m0 d : kvmap) :
  (forall k, m_get d k = vis now (m_get (replay rs m0) k)) ->
  forall k, vis now (m_get (replay rs d) k) = vis now (m_get (replay rs m0) k).
Proof.
  intros Hd k. rewrite !replay_get, Hd. rewrite replay_get.
  set (g := fun o => key_fun rs k o).
  assert (Hs : shaped g).
  { apply (key_fun_shaped k rs (fun o => o)). right; left. intros o; reflexivity. }
  change (vis now (g (vis now (g (m_get m0 k)))) = vis now (g (m_get m0 k))).
  clearbody g.
  destruct Hs as [[c Hc]|[Hi|[Hn Hm]]].
  - now rewrite !Hc.
  - rewrite !Hi. destruct (m_get m0 k) as [[v [ms|]]|]; cbn [vis]; try reflexivity.
    destruct (now <? ms)%Z eqn:E; cbn [vis]; [now rewrite E|reflexivity].
  - destruct (m_get m0 k) as [[v x]|]; [|rewrite Hn; cbn [vis]; rewrite Hn; reflexivity].
    destruct (Hm v) as [H|[e H]].
    + rewrite H. cbn [vis]. now rewrite Hn.
    + rewrite (H x). destruct e as [ms|]; cbn [vis].
      * destruct (now <? ms)%Z eqn:E; [rewrite (H (Some ms)); cbn [vis]; now rewrite E|now rewrite Hn].
      * now rewrite (H None).
Qed.

(* ---------------------------------------------------- JsonFileStore flush *)

Theorem jflush_crash_safe (old : jmap) (m : jmap) (d : jdisk) (k : nat) :
  jd_file d = Some old ->
  let d' := fold_left japply (firstn k (jflush_steps m)) d in
  jopen d' = old \/ jopen d' = m.
Proof.
  intros Hf. unfold jflush_steps, jopen.
  destruct k as [|[|k]].
  - cbn [firstn fold_left]. rewrite Hf. now left.
  - cbn [firstn fold_left japply jd_file]. rewrite Hf. now left.
  - assert (Hk : firstn (S (S k)) [JWriteTmp m; JRename] = [JWriteTmp m; JRename]) by (destruct k; reflexivity).
    rewrite Hk. cbn [fold_left japply jd_file jd_tmp]. now right.
Qed.
