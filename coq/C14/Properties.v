(* C14/Properties.v — the property theorems for C14 and nothing else. *)
From IoraVerif Require Import Common.Bytes Common.Search C14.Model C14.Proofs.
Local Open Scope N_scope.

(* 1. For arbitrary bytes and any option set the pull parser terminates; every token's
      offset, name slice and text slice lie inside the input; an error offset lies inside
      the input; every token respects the name/text/attribute/depth limits. *)
Theorem xml_total_slices_limits : forall o input,
  match tokens o input with
  | RunOk ts => Forall (tok_ok o (lenN input)) ts
  | RunErr ts e => Forall (tok_ok o (lenN input)) ts /\ e <= lenN input
  | RunFuel => False
  end.
Proof. exact tokens_total. Qed.
Print Assumptions xml_total_slices_limits.

(* 2. A document is accepted only if every start tag is closed by an end tag of the same
      name in proper nesting. *)
Theorem xml_accept_balanced : forall o input ts,
  tokens o input = RunOk ts -> balanced [] ts = true.
Proof. exact accepted_balanced. Qed.
Print Assumptions xml_accept_balanced.

(* 3. The token limit, when set, bounds the number of tokens of an accepted document. *)
Theorem xml_token_limit : forall o input ts,
  max_tokens o <> 0 -> tokens o input = RunOk ts -> lenN ts <= max_tokens o.
Proof. exact token_limit. Qed.
Print Assumptions xml_token_limit.

(* 4. Predefined entities: escaping then decoding is the identity on every byte string. *)
Theorem xml_escape_roundtrip : forall s, decode (xml_escape s) = Some s.
Proof. exact escape_roundtrip. Qed.
Print Assumptions xml_escape_roundtrip.

(* 5. A hexadecimal character reference with ANY number of digits decodes to the UTF-8 encoding of its value when
      that is a Unicode scalar value, and is an error otherwise (surrogates, values above U+10FFFF however large,
      no digits at all). *)
Theorem xml_charref_hex : forall hs,
  hs <> [] -> Forall (fun c => hexv c <> None) hs ->
  char_ref (35 :: 120 :: hs) = if hexval hs <=? MAXCP then encode_utf8 (hexval hs) else None.
Proof. exact charref_hex. Qed.
Print Assumptions xml_charref_hex.
Theorem xml_charref_needs_digits : char_ref [35; 120] = None /\ char_ref [35] = None.
Proof. exact charref_no_digits. Qed.
Print Assumptions xml_charref_needs_digits.
Theorem xml_encode_utf8_scalar : forall cp,
  (scalar cp -> encode_utf8 cp = Some (utf8 cp)) /\ (~ scalar cp -> encode_utf8 cp = None).
Proof. exact encode_utf8_scalar. Qed.
Print Assumptions xml_encode_utf8_scalar.

(* 6. Undefined or external entities are never expanded: any text containing &name; with
      a name that is not one of the five predefined ones and not a character reference
      fails to decode, whatever surrounds it. *)
Theorem xml_undefined_entity_not_expanded : forall pre ent rest,
  ~ In 38 pre -> ~ In 59 ent -> ~ predefined ent ->
  match ent with [] => True | h :: _ => h <> 35 end ->
  decode (pre ++ 38 :: ent ++ 59 :: rest) = None.
Proof. exact undefined_entity_not_expanded. Qed.
Print Assumptions xml_undefined_entity_not_expanded.

(* 7. Since the repair of F2 a character reference beyond 2^32 no longer wraps around and "&#x;" is rejected
      (both were accepted by the code as found: "&#4294967361;" decoded to "A", "&#x;" to NUL).  Still recorded as a
      known finding (C14-F1b): a text node of white space only is skipped as formatting.  The leading white space of
      a text node that has other characters is reported since the repair of C14-F1 (example below). *)
Theorem xml_charref_no_wrap :
  decode [38; 35; 52; 50; 57; 52; 57; 54; 55; 51; 54; 49; 59] = None /\          (* &#4294967361; *)
  decode [38; 35; 120; 59] = None /\                                              (* &#x; *)
  decode [38; 35; 54; 53; 59] = Some [65].                                        (* &#65; -> "A" *)
Proof. vm_compute. auto. Qed.
Print Assumptions xml_charref_no_wrap.

(* ------------------------------------------------ non-vacuity examples *)
Example accepted_instance :
  exists ts, tokens default_opts
    [60; 97; 32; 120; 61; 39; 49; 39; 62; 104; 105; 60; 98; 47; 62; 60; 47; 97; 62] = RunOk ts
    /\ lenN ts = 4.                                   (* <a x='1'>hi<b/></a> *)
Proof. eexists. split; vm_compute; reflexivity. Qed.
Example rejected_instance :
  tokens default_opts [60; 97; 62; 60; 98; 62; 60; 47; 97; 62] =
  RunErr [mkTok KStart [97] [] [] 1 0 1 0; mkTok KStart [98] [] [] 2 3 4 0] 10.   (* <a><b></a> *)
Proof. vm_compute. reflexivity. Qed.
Example leading_whitespace_instance :
  tokens default_opts [60; 97; 62; 32; 104; 105; 32; 60; 47; 97; 62] =
  RunOk [mkTok KStart [97] [] [] 1 0 1 0; mkTok KText [] [32; 104; 105; 32] [] 1 3 0 3; mkTok KEnd [97] [] [] 1 7 9 0].
  (* <a> hi </a> *)
Proof. vm_compute. reflexivity. Qed.
