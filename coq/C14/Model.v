(* C14/Model.v — executable model of include/iora/parsers/xml.hpp: the pull parser
   (Parser::next and all its readers, limits, element stack), decodeEntities /
   appendCharRef / encodeUtf8 (the accumulator stops at U+10FFFF, so no uint32 wrap-around), the SAX run
   (= the token list) and DomBuilder::build.
   The cursor _cur is represented by the remaining suffix plus its offset.
   Definitions only. *)
From IoraVerif Require Export Common.Bytes Common.Search.
Local Open Scope N_scope.

Record xopts := mkOpts {
  max_depth : N; max_attrs : N; max_name : N; max_text : N; max_tokens : N
}.
Definition default_opts : xopts := mkOpts 256 256 1024 1048576 0.

Inductive tkind := KDoctype | KStart | KEnd | KEmpty | KText | KCData | KComment | KPI.

Record token := mkTok {
  t_kind : tkind;
  t_name : list N;
  t_text : list N;
  t_attrs : list (list N * list N);
  t_depth : N;
  t_offset : N;
  (* where the name / text slices start in the input (for the slice theorem) *)
  t_name_off : N;
  t_text_off : N
}.

Record xstate := mkX {
  x_rest : list N;       (* input from _cur on *)
  x_cur : N;             (* _cur *)
  x_depth : N;
  x_stack : list (list N);   (* _elementStack, innermost first *)
  x_produced : N
}.

Inductive xres :=
| XTok (t : token) (s : xstate)
| XEof (s : xstate)              (* Eof token emitted: document accepted *)
| XErr (offset : N).            (* error with _error.offset *)

Definition is_sp (b : N) : bool := (b =? 32) || (b =? 9) || (b =? 13) || (b =? 10).
Definition is_name_start (b : N) : bool :=
  (b =? 58) || (b =? 95) || ((65 <=? b) && (b <=? 90)) || ((97 <=? b) && (b <=? 122)).
Definition is_name_char (b : N) : bool :=
  is_name_start b || (b =? 45) || (b =? 46) || ((48 <=? b) && (b <=? 57)).

Definition skip_sp (l : list N) (cur : N) : list N * N :=
  let '(w, r) := take_while is_sp l in (r, cur + lenN w).

Definition lower (b : N) : N := if (65 <=? b) && (b <=? 90) then b + 32 else b.
Definition doctype_word : list N := [100; 111; 99; 116; 121; 112; 101].   (* "doctype" *)

(* matchWordCaseInsensitive("DOCTYPE") *)
Definition match_doctype (l : list N) : option (list N) :=
  if lenN l <? 7 then None else
  let w := firstn 7 l in
  if negb (starts_with doctype_word (map lower w)) then None else
  let r := skipn 7 l in
  match r with
  | [] => None                                  (* next = '\0' *)
  | c :: _ => if is_sp c || (c =? 62) || (c =? 91) then Some r else None
  end.

(* readName: None = empty name (not a name start); Some None = name too long (fail already
   recorded at the position after the name); Some (Some (name, rest)) *)
Inductive rname := RNNone | RNTooLong (len : N) | RNOk (name rest : list N).
Definition read_name (o : xopts) (l : list N) : rname :=
  match l with
  | c :: t =>
    if is_name_start c then
      let '(more, r) := take_while is_name_char t in
      let name := c :: more in
      if max_name o <? lenN name then RNTooLong (lenN name) else RNOk name r
    else RNNone
  | [] => RNNone
  end.

(* the DOCTYPE scanner: position of the closing '>' with bracket counting;
   returns (content before '>', rest after '>') *)
Fixpoint doctype_scan (l : list N) (bracket : N) : option (list N * list N) :=
  match l with
  | [] => None
  | c :: t =>
    if c =? 91 then
      match doctype_scan t (bracket + 1) with Some (a, r) => Some (c :: a, r) | None => None end
    else if c =? 93 then
      match doctype_scan t (if 0 <? bracket then bracket - 1 else 0) with
      | Some (a, r) => Some (c :: a, r) | None => None end
    else if (c =? 62) && (bracket =? 0) then Some ([], t)
    else match doctype_scan t bracket with Some (a, r) => Some (c :: a, r) | None => None end
  end.

(* readQuotedValue *)
Inductive rquote := RQErr (consumed : N) | RQOk (value : list N) (rest : list N) (consumed : N).
Definition read_quoted (o : xopts) (l : list N) : rquote :=
  match l with
  | [] => RQErr 0
  | q :: t =>
    if negb ((q =? 34) || (q =? 39)) then RQErr 0 else
    let '(v, r) := take_while (fun b => negb (b =? q)) t in
    match r with
    | [] => RQErr (1 + lenN v)                      (* unterminated: _cur at end *)
    | _ :: r' =>
      if max_text o <? lenN v then RQErr (2 + lenN v) else RQOk v r' (2 + lenN v)
    end
  end.

(* readAttributes: Some (attrs, rest, cur) or error offset *)
Fixpoint read_attrs (fuel : nat) (o : xopts) (l : list N) (cur : N)
         (racc : list (list N * list N)) : (list (list N * list N) * list N * N) + N :=
  match fuel with
  | O => inr cur
  | S f =>
    let '(l1, c1) := skip_sp l cur in
    match l1 with
    | [] => inr c1
    | ch :: _ =>
      if (ch =? 47) || (ch =? 62) then inl (rev racc, l1, c1) else
      match read_name o l1 with
      | RNNone => inr c1
      | RNTooLong n => inr (c1 + n)
      | RNOk name l2 =>
        let c2 := c1 + lenN name in
        let '(l3, c3) := skip_sp l2 c2 in
        match l3 with
        | e :: l4 =>
          if e =? 61 then
            let '(l5, c5) := skip_sp l4 (c3 + 1) in
            match read_quoted o l5 with
            | RQErr k => inr (c5 + k)
            | RQOk v l6 k =>
              let c6 := c5 + k in
              let racc' := (name, v) :: racc in
              if max_attrs o <? lenN racc' then inr c6
              else read_attrs f o l6 c6 racc'
            end
          else inr c3
        | [] => inr c3
        end
      end
    end
  end.

Definition tok_at (k : tkind) (name text : list N) (attrs : list (list N * list N))
           (depth off noff toff : N) : token :=
  mkTok k name text attrs depth off noff toff.

Definition produced (s : xstate) (rest : list N) (cur depth : N) (stack : list (list N)) : xstate :=
  mkX rest cur depth stack (x_produced s + 1).

Definition list_eqb (a b : list N) : bool :=
  if list_eq_dec N.eq_dec a b then true else false.

Definition dashdash : list N := [45; 45].
Definition cdata_open : list N := [91; 67; 68; 65; 84; 65; 91].
Definition comment_close : list N := [45; 45; 62].
Definition cdata_close : list N := [93; 93; 62].
Definition pi_close : list N := [63; 62].

(* Parser::next on a live parser (no error, EOF not yet emitted) *)
Definition next (o : xopts) (s : xstate) : xres :=
  if negb (max_tokens o =? 0) && (max_tokens o <=? x_produced s) then XErr (x_cur s) else
  let '(l, cur) := skip_sp (x_rest s) (x_cur s) in
  match l with
  | [] => match x_stack s with
          | [] => XEof (mkX [] cur (x_depth s) [] (x_produced s))
          | _ => XErr cur
          end
  | c :: t =>
    let start := cur in
    if c =? 60 then
      match t with
      | [] => XErr (cur + 1)
      | n :: t2 =>
        if n =? 63 then                                   (* <? PI *)
          match read_name o t2 with
          | RNNone => XErr (cur + 2)
          | RNTooLong k => XErr (cur + 2 + k)
          | RNOk target r =>
            let c1 := cur + 2 + lenN target in
            match find_pat pi_close r with
            | None => XErr c1
            | Some (content, r2) =>
              XTok (tok_at KPI target content [] (x_depth s) start (cur + 2) c1)
                   (produced s r2 (c1 + lenN content + 2) (x_depth s) (x_stack s))
            end
          end
        else if n =? 33 then                              (* <! *)
          if starts_with dashdash t2 then
            let r := skipn 2 t2 in
            match find_pat comment_close r with
            | None => XErr (cur + 4)
            | Some (content, r2) =>
              XTok (tok_at KComment [] content [] (x_depth s) start 0 (cur + 4))
                   (produced s r2 (cur + 4 + lenN content + 3) (x_depth s) (x_stack s))
            end
          else if starts_with cdata_open t2 then
            let r := skipn 7 t2 in
            match find_pat cdata_close r with
            | None => XErr (cur + 9)
            | Some (content, r2) =>
              XTok (tok_at KCData [] content [] (x_depth s) start 0 (cur + 9))
                   (produced s r2 (cur + 9 + lenN content + 3) (x_depth s) (x_stack s))
            end
          else
            match match_doctype t2 with
            | Some r =>
              match doctype_scan r 0 with
              | None => XErr (cur + 9)
              | Some (content, r2) =>
                XTok (tok_at KDoctype [] content [] (x_depth s) start 0 (cur + 9))
                     (produced s r2 (cur + 9 + lenN content + 1) (x_depth s) (x_stack s))
              end
            | None => XErr (cur + 2)
            end
        else if n =? 47 then                              (* </ end tag *)
          match read_name o t2 with
          | RNNone => XErr (cur + 2)
          | RNTooLong k => XErr (cur + 2 + k)
          | RNOk name r =>
            let '(r1, c1) := skip_sp r (cur + 2 + lenN name) in
            match r1 with
            | g :: r2 =>
              if g =? 62 then
                match x_stack s with
                | [] => XErr (c1 + 1)
                | top :: below =>
                  if list_eqb top name then
                    XTok (tok_at KEnd name [] [] (x_depth s) start (cur + 2) 0)
                         (produced s r2 (c1 + 1) (x_depth s - 1) below)
                  else XErr (c1 + 1)
                end
              else XErr c1
            | [] => XErr c1
            end
          end
        else                                              (* start or empty tag *)
          match read_name o t with
          | RNNone => XErr (cur + 1)
          | RNTooLong k => XErr (cur + 1 + k)
          | RNOk name r =>
            match read_attrs (S (length r)) o r (cur + 1 + lenN name) [] with
            | inr e => XErr e
            | inl (attrs, r1, c1) =>
              let '(empty, r2, c2) := match r1 with
                                      | sl :: r2 => if sl =? 47 then (true, r2, c1 + 1) else (false, r1, c1)
                                      | [] => (false, r1, c1)
                                      end in
              match r2 with
              | g :: r3 =>
                if g =? 62 then
                  if max_depth o <? x_depth s + 1 then XErr (c2 + 1) else
                  if empty then
                    XTok (tok_at KEmpty name [] attrs (x_depth s + 1) start (cur + 1) 0)
                         (produced s r3 (c2 + 1) (x_depth s) (x_stack s))
                  else
                    XTok (tok_at KStart name [] attrs (x_depth s + 1) start (cur + 1) 0)
                         (produced s r3 (c2 + 1) (x_depth s + 1) (name :: x_stack s))
                else XErr c2
              | [] => XErr c2
              end
            end
          end
      end
    else
      (* text up to the next '<' (at most max_text bytes before the limit check fails).  Since the repair of C14-F1 the
         white space that begins a text node belongs to the text: skipWhitespaceOutsideText rewinds when non-space
         text follows, so the text starts where the parser stood before the skip. *)
      let cur0 := x_cur s in
      let '(txt, r) := take_while (fun b => negb (b =? 60)) (x_rest s) in
      if max_text o <? lenN txt then XErr (cur0 + max_text o)
      else XTok (tok_at KText [] txt [] (x_depth s) cur0 0 cur0)
                (produced s r (cur0 + lenN txt) (x_depth s) (x_stack s))
  end.

Definition x_init (input : list N) : xstate := mkX input 0 0 [] 0.

Inductive xrun := RunOk (toks : list token) | RunErr (toks : list token) (offset : N) | RunFuel.

Fixpoint run (fuel : nat) (o : xopts) (s : xstate) : xrun :=
  match fuel with
  | O => RunFuel
  | S f =>
    match next o s with
    | XEof _ => RunOk []
    | XErr e => RunErr [] e
    | XTok t s' =>
      match run f o s' with
      | RunOk ts => RunOk (t :: ts)
      | RunErr ts e => RunErr (t :: ts) e
      | RunFuel => RunFuel
      end
    end
  end.

Definition tokens (o : xopts) (input : list N) : xrun := run (S (S (length input))) o (x_init input).

(* ------------------------------------------------------------------ entities *)

Definition hexv (c : N) : option N :=
  if (48 <=? c) && (c <=? 57) then Some (c - 48)
  else if (97 <=? c) && (c <=? 102) then Some (c - 87)
  else if (65 <=? c) && (c <=? 70) then Some (c - 55)
  else None.

Definition MAXCP : N := 1114111.

(* the accumulators give up as soon as the value leaves the Unicode range (so they cannot wrap in uint32) *)
Fixpoint hex_acc (code : N) (l : list N) : option N :=
  match l with
  | [] => Some code
  | c :: t => match hexv c with
              | Some v => let code' := code * 16 + v in if MAXCP <? code' then None else hex_acc code' t
              | None => None
              end
  end.
Fixpoint dec_acc (code : N) (l : list N) : option N :=
  match l with
  | [] => Some code
  | c :: t => if (48 <=? c) && (c <=? 57)
              then let code' := code * 10 + (c - 48) in if MAXCP <? code' then None else dec_acc code' t
              else None
  end.

Definition encode_utf8 (cp : N) : option (list N) :=
  if cp <=? 127 then Some [cp]
  else if cp <=? 2047 then Some [192 + cp / 64; 128 + cp mod 64]
  else if cp <=? 65535 then
    if (55296 <=? cp) && (cp <=? 57343) then None
    else Some [224 + cp / 4096; 128 + (cp / 64) mod 64; 128 + cp mod 64]
  else if cp <=? 1114111 then
    Some [240 + cp / 262144; 128 + (cp / 4096) mod 64; 128 + (cp / 64) mod 64; 128 + cp mod 64]
  else None.

(* appendCharRef: body starts with '#' *)
Definition char_ref (body : list N) : option (list N) :=
  match body with
  | _ :: x :: t =>
    let code := if (x =? 120) || (x =? 88) then (match t with [] => None | _ => hex_acc 0 t end) else dec_acc 0 (x :: t) in
    match code with Some c => encode_utf8 c | None => None end
  | _ => None
  end.

Definition e_lt : list N := [108; 116].
Definition e_gt : list N := [103; 116].
Definition e_amp : list N := [97; 109; 112].
Definition e_apos : list N := [97; 112; 111; 115].
Definition e_quot : list N := [113; 117; 111; 116].

Fixpoint decode_entities (fuel : nat) (l : list N) : option (list N) :=
  match fuel with
  | O => None
  | S f =>
    match l with
    | [] => Some []
    | c :: t =>
      if negb (c =? 38) then
        match decode_entities f t with Some r => Some (c :: r) | None => None end
      else
        match find_pat [59] t with
        | None => None
        | Some (ent, rest) =>
          let rep :=
              if list_eqb ent e_lt then Some [60]
              else if list_eqb ent e_gt then Some [62]
              else if list_eqb ent e_amp then Some [38]
              else if list_eqb ent e_apos then Some [39]
              else if list_eqb ent e_quot then Some [34]
              else match ent with
                   | h :: _ => if h =? 35 then char_ref ent else None
                   | [] => None
                   end in
          match rep, decode_entities f rest with
          | Some r1, Some r2 => Some (r1 ++ r2)
          | _, _ => None
          end
        end
    end
  end.
Definition decode (l : list N) : option (list N) := decode_entities (S (length l)) l.

(* ----------------------------------------------------------------------- DOM *)

Inductive node :=
| NElem (name : list N) (attrs : list (list N * list N)) (children : list node)
| NText (v : list N) | NCData (v : list N) | NComment (v : list N) | NPI (name v : list N).

Fixpoint decode_attrs (l : list (list N * list N)) : option (list (list N * list N)) :=
  match l with
  | [] => Some []
  | (n, v) :: t =>
    match decode v, decode_attrs t with
    | Some v', Some t' => Some ((n, v') :: t')
    | _, _ => None
    end
  end.

(* DomBuilder::build over the token list: a stack of (name, attrs, children-so-far reversed) *)
Definition frame := (list N * list (list N * list N) * list node)%type.

Fixpoint dom_fold (toks : list token) (cur : list node) (stack : list frame) : option (list node) :=
  match toks with
  | [] => match stack with [] => Some (rev cur) | _ => None end
  | t :: ts =>
    match t_kind t with
    | KStart =>
      match decode_attrs (t_attrs t) with
      | Some a => dom_fold ts [] ((t_name t, a, cur) :: stack)
      | None => None
      end
    | KEmpty =>
      match decode_attrs (t_attrs t) with
      | Some a => dom_fold ts (NElem (t_name t) a [] :: cur) stack
      | None => None
      end
    | KEnd =>
      match stack with
      | (n, a, parent) :: below => dom_fold ts (NElem n a (rev cur) :: parent) below
      | [] => None
      end
    | KText =>
      match decode (t_text t) with
      | Some v => dom_fold ts (match v with [] => cur | _ => NText v :: cur end) stack
      | None => None
      end
    | KCData => dom_fold ts (NCData (t_text t) :: cur) stack
    | KComment => dom_fold ts (NComment (t_text t) :: cur) stack
    | KPI => dom_fold ts (NPI (t_name t) (t_text t) :: cur) stack
    | KDoctype => dom_fold ts cur stack
    end
  end.

Definition build_dom (o : xopts) (input : list N) : option (list node) :=
  match tokens o input with
  | RunOk ts => dom_fold ts [] []
  | _ => None
  end.
