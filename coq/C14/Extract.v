(* C14/Extract.v — extraction of the executable model (ExtrOcamlBasic only). *)
From IoraVerif Require Import C14.Model.
Require Import ExtrOcamlBasic.
Extraction Language OCaml.
Extraction "../build/ocaml/c14_model.ml" tokens build_dom decode dom_fold.
