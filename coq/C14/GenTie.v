(* C14/GenTie.v — the model's default options are xml::Options{} of the current headers *)
From IoraVerif Require Import Common.Bytes C14.Model Gen.Constants.
Local Open Scope N_scope.
Theorem xml_default_options_tie :
  default_opts = mkOpts XML_MAX_DEPTH XML_MAX_ATTRS XML_MAX_NAME XML_MAX_TEXT XML_MAX_TOKENS.
Proof. reflexivity. Qed.
Print Assumptions xml_default_options_tie.
