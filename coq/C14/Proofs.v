(* C14/Proofs.v — lemmas about C14/Model.v *)
From IoraVerif Require Import Common.Bytes Common.Search C14.Model.
From Coq Require Import ZifyBool ZifyN ZifyNat.
Local Open Scope N_scope.

(* ------------------------------------------------------------ length facts *)

Lemma take_while_len p l : lenN (fst (take_while p l)) + lenN (snd (take_while p l)) = lenN l.
Proof.
  pose proof (take_while_split p l) as H. destruct (take_while p l) as [a r]. cbn [fst snd].
  apply (f_equal lenN) in H. rewrite lenN_app in H. lia.
Qed.

Lemma skip_sp_len l cur : snd (skip_sp l cur) + lenN (fst (skip_sp l cur)) = cur + lenN l.
Proof.
  unfold skip_sp. pose proof (take_while_len is_sp l) as H.
  destruct (take_while is_sp l) as [w r]. cbn [fst snd] in *. lia.
Qed.

(* when the skip stops at a byte that is not '<', the unskipped input does not start with '<' either *)
Lemma skip_sp_head l cur c t : fst (skip_sp l cur) = c :: t -> (c =? 60) = false ->
  exists h tl, l = h :: tl /\ (h =? 60) = false.
Proof.
  unfold skip_sp. destruct l as [|h tl]; cbn [take_while]; [discriminate|].
  destruct (is_sp h) eqn:Eh.
  - intros _ _. exists h, tl. split; [reflexivity|].
    unfold is_sp in Eh. destruct (h =? 60) eqn:E; [|reflexivity]. apply N.eqb_eq in E. subst h. discriminate Eh.
  - cbn [fst]. intros H Hc. injection H as -> ->. eauto.
Qed.

Lemma skip_sp_mono l cur : cur <= snd (skip_sp l cur).
Proof. unfold skip_sp. destruct (take_while is_sp l) as [w r]. cbn [snd]. lia. Qed.

Lemma find_pat_len pat l b a : find_pat pat l = Some (b, a) -> lenN l = lenN b + lenN pat + lenN a.
Proof. intros H. apply find_pat_spec in H. subst l. rewrite !lenN_app. lia. Qed.

Lemma read_name_ok o l name r : read_name o l = RNOk name r ->
  lenN l = lenN name + lenN r /\ 0 < lenN name /\ lenN name <= max_name o.
Proof.
  unfold read_name. destruct l as [|c t]; [discriminate|].
  destruct (is_name_start c); [|discriminate].
  pose proof (take_while_len is_name_char t) as H. destruct (take_while is_name_char t) as [more r'].
  cbn [fst snd] in H.
  destruct (max_name o <? lenN (c :: more)) eqn:E; [discriminate|].
  intros Hq. injection Hq as <- <-. rewrite !lenN_cons in *. lia.
Qed.

Lemma read_name_long o l k : read_name o l = RNTooLong k -> k <= lenN l.
Proof.
  unfold read_name. destruct l as [|c t]; [discriminate|].
  destruct (is_name_start c); [|discriminate].
  pose proof (take_while_len is_name_char t) as H. destruct (take_while is_name_char t) as [more r'].
  cbn [fst snd] in H.
  destruct (max_name o <? lenN (c :: more)); [|discriminate].
  intros Hq. injection Hq as <-. rewrite !lenN_cons in *. lia.
Qed.

Lemma doctype_scan_len : forall l br a r, doctype_scan l br = Some (a, r) -> lenN l = lenN a + 1 + lenN r.
Proof.
  induction l as [|c t IH]; intros br a r H; cbn [doctype_scan] in H; [discriminate|].
  destruct (c =? 91).
  { destruct (doctype_scan t (br + 1)) as [[a' r']|] eqn:E; [|discriminate].
    injection H as <- <-. apply IH in E. rewrite !lenN_cons. lia. }
  destruct (c =? 93).
  { destruct (doctype_scan t _) as [[a' r']|] eqn:E; [|discriminate].
    injection H as <- <-. apply IH in E. rewrite !lenN_cons. lia. }
  destruct ((c =? 62) && (br =? 0)).
  { injection H as <- <-. rewrite lenN_cons, lenN_nil. lia. }
  destruct (doctype_scan t br) as [[a' r']|] eqn:E; [|discriminate].
  injection H as <- <-. apply IH in E. rewrite !lenN_cons. lia.
Qed.

Lemma match_doctype_len l r : match_doctype l = Some r -> lenN l = 7 + lenN r.
Proof.
  unfold match_doctype. destruct (lenN l <? 7) eqn:E; [discriminate|].
  destruct (negb _); [discriminate|].
  destruct (skipn 7 l) as [|c t] eqn:Es; [discriminate|].
  destruct (is_sp c || (c =? 62) || (c =? 91)); [|discriminate].
  intros H; injection H as <-.
  assert (Hl : length (skipn 7 l) = (length l - 7)%nat) by apply skipn_length.
  rewrite Es in Hl. unfold lenN in *. lia.
Qed.

Lemma starts_with_len pat l : starts_with pat l = true -> lenN pat <= lenN l.
Proof. intros H. apply starts_with_length in H. unfold lenN. lia. Qed.

Lemma skipn_lenN {A} k (l : list A) : (k <= length l)%nat -> lenN (skipn k l) + N.of_nat k = lenN l.
Proof. intros H. unfold lenN. rewrite skipn_length. lia. Qed.

Lemma read_quoted_ok o l v r k : read_quoted o l = RQOk v r k ->
  lenN l = k + lenN r /\ k = 2 + lenN v /\ lenN v <= max_text o.
Proof.
  unfold read_quoted. destruct l as [|q t]; [discriminate|].
  destruct (negb ((q =? 34) || (q =? 39))); [discriminate|].
  pose proof (take_while_len (fun b => negb (b =? q)) t) as H.
  destruct (take_while (fun b => negb (b =? q)) t) as [v' r']. cbn [fst snd] in H.
  destruct r' as [|x r'']; [discriminate|].
  destruct (max_text o <? lenN v') eqn:E; [discriminate|].
  intros Hq. assert (Hv : v = v') by congruence. assert (Hr : r = r'') by congruence.
  assert (Hk : k = 2 + lenN v') by congruence. subst v r k. rewrite !lenN_cons in *. lia.
Qed.

Lemma read_quoted_err o l k : read_quoted o l = RQErr k -> k <= lenN l.
Proof.
  unfold read_quoted. destruct l as [|q t]; [intros H; assert (k = 0) by congruence; lia|].
  destruct (negb ((q =? 34) || (q =? 39))); [intros H; assert (k = 0) by congruence; lia|].
  pose proof (take_while_len (fun b => negb (b =? q)) t) as H.
  destruct (take_while (fun b => negb (b =? q)) t) as [v' r']. cbn [fst snd] in H.
  destruct r' as [|x r''].
  - intros Hq. assert (Hk : k = 1 + lenN v') by congruence. subst k. rewrite lenN_cons, lenN_nil in *. lia.
  - destruct (max_text o <? lenN v'); [|discriminate].
    intros Hq. assert (Hk : k = 2 + lenN v') by congruence. subst k. rewrite !lenN_cons in *. lia.
Qed.

Lemma read_attrs_len o : forall fuel l cur racc,
  match read_attrs fuel o l cur racc with
  | inl (attrs, r, c) =>
      c + lenN r = cur + lenN l /\ cur <= c /\
      (lenN attrs <= max_attrs o \/ lenN attrs = lenN racc)
  | inr e => e <= cur + lenN l
  end.
Proof.
  induction fuel as [|f IH]; intros l cur racc; cbn [read_attrs]; [lia|].
  pose proof (skip_sp_len l cur) as H1. pose proof (skip_sp_mono l cur) as M1.
  destruct (skip_sp l cur) as [l1 c1]. cbn [fst snd] in *.
  destruct l1 as [|ch t1]; [rewrite lenN_nil in *; lia|].
  destruct ((ch =? 47) || (ch =? 62)).
  { rewrite lenN_cons in *. split; [lia|]. split; [lia|]. right. unfold lenN. now rewrite rev_length. }
  destruct (read_name o (ch :: t1)) as [|k|name l2] eqn:En; [lia|apply read_name_long in En; lia|].
  apply read_name_ok in En as (Hn1 & Hn2 & Hn3).
  pose proof (skip_sp_len l2 (c1 + lenN name)) as H3. pose proof (skip_sp_mono l2 (c1 + lenN name)) as M3.
  destruct (skip_sp l2 (c1 + lenN name)) as [l3 c3]. cbn [fst snd] in *.
  destruct l3 as [|e l4]; [rewrite lenN_nil in *; lia|].
  destruct (e =? 61); [|rewrite lenN_cons in *; lia].
  pose proof (skip_sp_len l4 (c3 + 1)) as H5. pose proof (skip_sp_mono l4 (c3 + 1)) as M5.
  destruct (skip_sp l4 (c3 + 1)) as [l5 c5]. cbn [fst snd] in *. rewrite lenN_cons in *.
  destruct (read_quoted o l5) as [k|v l6 k] eqn:Eq.
  { apply read_quoted_err in Eq. lia. }
  apply read_quoted_ok in Eq as (Hq1 & Hq2 & Hq3).
  destruct (max_attrs o <? lenN ((name, v) :: racc)) eqn:Em; [lia|].
  specialize (IH l6 (c5 + k) ((name, v) :: racc)).
  destruct (read_attrs f o l6 (c5 + k) ((name, v) :: racc)) as [[[attrs r] c]|e2].
  - destruct IH as (Ha & Hb & Hc). split; [lia|]. split; [lia|]. left. lia.
  - lia.
Qed.

(* ------------------------------------------------ one step of the pull parser *)

Definition aligned (n : N) (s : xstate) : Prop := x_cur s + lenN (x_rest s) = n.

Definition tok_in (n : N) (t : token) : Prop :=
  t_offset t < n /\
  t_text_off t + lenN (t_text t) <= n /\
  t_name_off t + lenN (t_name t) <= n.

Definition tok_limits (o : xopts) (t : token) : Prop :=
  t_depth t <= max_depth o \/ (t_kind t <> KStart /\ t_kind t <> KEmpty).

Ltac fin :=
  repeat split; try lia; try discriminate; try (cbn; lia);
  try (let Hk := fresh in intros Hk; discriminate Hk);
  try (let Hk := fresh in intros [Hk|Hk]; discriminate Hk).

Lemma next_step o n s : aligned n s ->
  match next o s with
  | XTok t s' => aligned n s' /\ x_cur s < x_cur s' /\ tok_in n t /\
                 x_produced s' = x_produced s + 1 /\
                 lenN (t_name t) <= max_name o /\
                 (t_kind t = KText -> lenN (t_text t) <= max_text o) /\
                 lenN (t_attrs t) <= max_attrs o /\
                 ((t_kind t = KStart \/ t_kind t = KEmpty) -> t_depth t <= max_depth o)
  | XEof s' => x_stack s = []
  | XErr e => e <= n
  end.
Proof.
  unfold aligned, next. intros Hal.
  destruct (negb (max_tokens o =? 0) && (max_tokens o <=? x_produced s)); [lia|].
  pose proof (skip_sp_len (x_rest s) (x_cur s)) as H0. pose proof (skip_sp_mono (x_rest s) (x_cur s)) as M0.
  pose proof (skip_sp_head (x_rest s) (x_cur s)) as Hhead.
  destruct (skip_sp (x_rest s) (x_cur s)) as [l cur]. cbn [fst snd] in *.
  destruct l as [|c t].
  { destruct (x_stack s); [reflexivity|rewrite lenN_nil in *; lia]. }
  rewrite lenN_cons in H0.
  destruct (c =? 60) eqn:E60.
  - destruct t as [|nx t2]; [rewrite lenN_nil in *; lia|]. rewrite lenN_cons in H0.
    destruct (nx =? 63).
    { (* PI *)
      destruct (read_name o t2) as [|k|target r] eqn:En; [lia|apply read_name_long in En; lia|].
      apply read_name_ok in En as (Hn1 & Hn2 & Hn3).
      destruct (find_pat pi_close r) as [[content r2]|] eqn:Ef; [|lia].
      apply find_pat_len in Ef. change (lenN pi_close) with 2 in Ef.
      cbn [tok_at produced x_rest x_cur x_produced t_offset t_text_off t_text t_name_off t_name t_kind t_attrs t_depth].
      unfold tok_in. cbn [t_offset t_text_off t_text t_name_off t_name].
      fin. }
    destruct (nx =? 33).
    { destruct (starts_with dashdash t2) eqn:Ed.
      { apply starts_with_len in Ed. change (lenN dashdash) with 2 in Ed.
        pose proof (skipn_lenN 2 t2 ltac:(unfold lenN in Ed; lia)) as Hs.
        destruct (find_pat comment_close (skipn 2 t2)) as [[content r2]|] eqn:Ef; [|lia].
        apply find_pat_len in Ef. change (lenN comment_close) with 3 in Ef.
        cbn [tok_at produced x_rest x_cur x_produced t_offset t_text_off t_text t_name_off t_name t_kind t_attrs t_depth].
        unfold tok_in. cbn [t_offset t_text_off t_text t_name_off t_name].
        change (N.of_nat 2) with 2 in Hs.
        fin. }
      destruct (starts_with cdata_open t2) eqn:Ec.
      { apply starts_with_len in Ec. change (lenN cdata_open) with 7 in Ec.
        pose proof (skipn_lenN 7 t2 ltac:(unfold lenN in Ec; lia)) as Hs.
        destruct (find_pat cdata_close (skipn 7 t2)) as [[content r2]|] eqn:Ef; [|lia].
        apply find_pat_len in Ef. change (lenN cdata_close) with 3 in Ef.
        cbn [tok_at produced x_rest x_cur x_produced t_offset t_text_off t_text t_name_off t_name t_kind t_attrs t_depth].
        unfold tok_in. cbn [t_offset t_text_off t_text t_name_off t_name].
        change (N.of_nat 7) with 7 in Hs.
        fin. }
      destruct (match_doctype t2) as [r|] eqn:Em; [|lia].
      apply match_doctype_len in Em.
      destruct (doctype_scan r 0) as [[content r2]|] eqn:Es; [|lia].
      apply doctype_scan_len in Es.
      cbn [tok_at produced x_rest x_cur x_produced t_offset t_text_off t_text t_name_off t_name t_kind t_attrs t_depth].
      unfold tok_in. cbn [t_offset t_text_off t_text t_name_off t_name].
      fin. }
    destruct (nx =? 47).
    { (* end tag *)
      destruct (read_name o t2) as [|k|name r] eqn:En; [lia|apply read_name_long in En; lia|].
      apply read_name_ok in En as (Hn1 & Hn2 & Hn3).
      pose proof (skip_sp_len r (cur + 2 + lenN name)) as H1. pose proof (skip_sp_mono r (cur + 2 + lenN name)) as M1.
      destruct (skip_sp r (cur + 2 + lenN name)) as [r1 c1]. cbn [fst snd] in *.
      destruct r1 as [|g r2]; [rewrite lenN_nil in *; lia|]. rewrite lenN_cons in H1.
      destruct (g =? 62); [|lia].
      destruct (x_stack s) as [|top below]; [lia|].
      destruct (list_eqb top name); [|lia].
      cbn [tok_at produced x_rest x_cur x_produced t_offset t_text_off t_text t_name_off t_name t_kind t_attrs t_depth].
      unfold tok_in. cbn [t_offset t_text_off t_text t_name_off t_name].
      fin. }
    (* start / empty tag *)
    destruct (read_name o (nx :: t2)) as [|k|name r] eqn:En;
      [lia|apply read_name_long in En; rewrite lenN_cons in En; lia|].
    apply read_name_ok in En as (Hn1 & Hn2 & Hn3). rewrite lenN_cons in Hn1.
    pose proof (read_attrs_len o (S (length r)) r (cur + 1 + lenN name) []) as Ha.
    destruct (read_attrs (S (length r)) o r (cur + 1 + lenN name) []) as [[[attrs r1] c1]|e]; [|lia].
    destruct Ha as (Ha1 & Ha2 & Ha3).
    assert (Hattrs : lenN attrs <= max_attrs o) by (destruct Ha3 as [?|Hz]; [assumption|rewrite lenN_nil in Hz; lia]).
    set (e3 := match r1 with
               | sl :: r2 => if sl =? 47 then (true, r2, c1 + 1) else (false, r1, c1)
               | [] => (false, r1, c1)
               end).
    assert (He3 : snd e3 + lenN (snd (fst e3)) = c1 + lenN r1 /\ c1 <= snd e3).
    { subst e3. destruct r1 as [|sl r2]; [cbn; lia|]. destruct (sl =? 47); cbn [fst snd]; rewrite ?lenN_cons; lia. }
    destruct e3 as [[empty r2] c2]. cbn [fst snd] in He3. destruct He3 as [He3 He4].
    destruct r2 as [|g r3]; [rewrite lenN_nil in *; lia|]. rewrite lenN_cons in He3.
    destruct (g =? 62); [|lia].
    destruct (max_depth o <? x_depth s + 1) eqn:Ed; [lia|].
    destruct empty;
      cbn [tok_at produced x_rest x_cur x_produced t_offset t_text_off t_text t_name_off t_name t_kind t_attrs t_depth];
      unfold tok_in; cbn [t_offset t_text_off t_text t_name_off t_name]; fin.
  - (* text: from where the parser stood before the skip *)
    destruct (Hhead c t eq_refl E60) as (h & tl & Hrest & Hh).
    pose proof (take_while_len (fun b => negb (b =? 60)) (x_rest s)) as Ht.
    destruct (take_while (fun b => negb (b =? 60)) (x_rest s)) as [txt r] eqn:Etw. cbn [fst snd] in Ht.
    destruct (max_text o <? lenN txt) eqn:Em; [lia|].
    assert (Hpos : 0 < lenN txt).
    { rewrite Hrest in Etw. cbn [take_while] in Etw. rewrite Hh in Etw. cbn [negb] in Etw.
      destruct (take_while (fun b => negb (b =? 60)) tl). injection Etw as <- _. rewrite lenN_cons. lia. }
    cbn [tok_at produced x_rest x_cur x_produced t_offset t_text_off t_text t_name_off t_name t_kind t_attrs t_depth].
    unfold tok_in. cbn [t_offset t_text_off t_text t_name_off t_name].
    fin.
Qed.

(* effect of one token on the element stack *)
Definition stack_effect (s : xstate) (t : token) (s' : xstate) : Prop :=
  match t_kind t with
  | KStart => x_stack s' = t_name t :: x_stack s
  | KEnd => x_stack s = t_name t :: x_stack s'
  | _ => x_stack s' = x_stack s
  end.

Lemma list_eqb_eq a b : list_eqb a b = true -> a = b.
Proof. unfold list_eqb. destruct (list_eq_dec N.eq_dec a b); [auto|discriminate]. Qed.

Lemma next_stack o s t s' : next o s = XTok t s' -> stack_effect s t s'.
Proof.
  unfold next.
  repeat match goal with
         | |- context [match ?x with _ => _ end] => let E := fresh "E" in destruct x eqn:E
         | |- context [if ?b then _ else _] => let E := fresh "E" in destruct b eqn:E
         | |- context [let '(_, _) := ?x in _] => let E := fresh "E" in destruct x eqn:E
         end;
    intros H; try discriminate H;
    injection H as <- <-; unfold stack_effect; cbn [tok_at produced t_kind t_name x_stack]; try reflexivity.
  all: match goal with
       | H : list_eqb _ _ = true |- _ => apply list_eqb_eq in H; subst
       end.
  all: congruence.
Qed.

(* ------------------------------------------------------------- whole runs *)

Definition tok_ok (o : xopts) (n : N) (t : token) : Prop :=
  tok_in n t /\ lenN (t_name t) <= max_name o /\
  (t_kind t = KText -> lenN (t_text t) <= max_text o) /\
  lenN (t_attrs t) <= max_attrs o /\
  ((t_kind t = KStart \/ t_kind t = KEmpty) -> t_depth t <= max_depth o).

Lemma run_spec o n : forall fuel s, aligned n s -> (N.to_nat (n - x_cur s) + 1 < fuel)%nat ->
  match run fuel o s with
  | RunOk ts => Forall (tok_ok o n) ts
  | RunErr ts e => Forall (tok_ok o n) ts /\ e <= n
  | RunFuel => False
  end.
Proof.
  induction fuel as [|f IH]; intros s Hal Hf; [lia|]. cbn [run].
  pose proof (next_step o n s Hal) as Hn.
  destruct (next o s) as [t s'|s'|e]; [|constructor|split; [constructor|exact Hn]].
  destruct Hn as (Hal' & Hlt & Hin & _ & H1 & H2 & H3 & H4).
  assert (Hc : x_cur s' <= n) by (unfold aligned in Hal'; lia).
  specialize (IH s' Hal' ltac:(lia)).
  assert (Hok : tok_ok o n t) by (unfold tok_ok; auto).
  destruct (run f o s') as [ts|ts e|]; [constructor; auto|destruct IH; split; [constructor; auto|assumption]|exact IH].
Qed.

Theorem tokens_total o input :
  match tokens o input with
  | RunOk ts => Forall (tok_ok o (lenN input)) ts
  | RunErr ts e => Forall (tok_ok o (lenN input)) ts /\ e <= lenN input
  | RunFuel => False
  end.
Proof.
  unfold tokens. apply run_spec.
  - unfold aligned, x_init. cbn. lia.
  - unfold x_init. cbn [x_cur]. unfold lenN. lia.
Qed.

(* balanced, properly nested and matching tag names *)
Fixpoint balanced (stack : list (list N)) (ts : list token) : bool :=
  match ts with
  | [] => match stack with [] => true | _ => false end
  | t :: rest =>
    match t_kind t with
    | KStart => balanced (t_name t :: stack) rest
    | KEnd =>
      match stack with
      | top :: below => list_eqb top (t_name t) && balanced below rest
      | [] => false
      end
    | _ => balanced stack rest
    end
  end.

Lemma list_eqb_refl a : list_eqb a a = true.
Proof. unfold list_eqb. destruct (list_eq_dec N.eq_dec a a); congruence. Qed.

Lemma run_balanced o : forall fuel s ts, run fuel o s = RunOk ts -> balanced (x_stack s) ts = true.
Proof.
  induction fuel as [|f IH]; intros s ts H; [discriminate|]. cbn [run] in H.
  destruct (next o s) as [t s'|s'|e] eqn:En; [| |discriminate].
  - destruct (run f o s') as [ts'|ts' e|] eqn:Er; try discriminate. injection H as <-.
    pose proof (next_stack _ _ _ _ En) as Hs. unfold stack_effect in Hs.
    specialize (IH s' ts' Er). cbn [balanced].
    destruct (t_kind t); try (rewrite <- Hs; exact IH).
    rewrite Hs. rewrite list_eqb_refl. cbn [andb]. exact IH.
  - injection H as <-.
    pose proof (next_step o (x_cur s + lenN (x_rest s)) s eq_refl) as Hn. rewrite En in Hn.
    rewrite Hn. reflexivity.
Qed.

Theorem accepted_balanced o input ts : tokens o input = RunOk ts -> balanced [] ts = true.
Proof. unfold tokens. intros H. apply run_balanced in H. exact H. Qed.

(* the token limit *)
Lemma run_count o : forall fuel s ts, max_tokens o <> 0 ->
  (run fuel o s = RunOk ts \/ exists e, run fuel o s = RunErr ts e) ->
  x_produced s + lenN ts <= N.max (x_produced s) (max_tokens o).
Proof.
  induction fuel as [|f IH]; intros s ts Hm H; [destruct H as [H|[e H]]; discriminate|].
  cbn [run] in H.
  destruct (next o s) as [t s'|s'|e] eqn:En.
  - pose proof (next_step o (x_cur s + lenN (x_rest s)) s eq_refl) as Hn. rewrite En in Hn.
    destruct Hn as (_ & _ & _ & Hp & _).
    assert (Hlt : x_produced s < max_tokens o).
    { unfold next in En.
      destruct (negb (max_tokens o =? 0) && (max_tokens o <=? x_produced s)) eqn:E; [discriminate|]. lia. }
    destruct (run f o s') as [ts'|ts' e'|] eqn:Er.
    + destruct H as [H|[e H]]; [|discriminate]. injection H as <-.
      specialize (IH s' ts' Hm (or_introl Er)). rewrite lenN_cons. lia.
    + destruct H as [H|[e H]]; [discriminate|]. injection H as <- _.
      specialize (IH s' ts' Hm (or_intror (ex_intro _ e' Er))). rewrite lenN_cons. lia.
    + destruct H as [H|[e H]]; discriminate.
  - destruct H as [H|[e H]]; [|discriminate]. injection H as <-. rewrite lenN_nil. lia.
  - destruct H as [H|[e' H]]; [discriminate|]. injection H as <- _. rewrite lenN_nil. lia.
Qed.

Theorem token_limit o input ts : max_tokens o <> 0 -> tokens o input = RunOk ts -> lenN ts <= max_tokens o.
Proof.
  intros Hm H. unfold tokens in H.
  pose proof (run_count o _ _ ts Hm (or_introl H)) as Hc. cbn [x_init x_produced] in Hc. lia.
Qed.

(* ------------------------------------------------------------------ entities *)

Definition esc1 (c : N) : list N :=
  if c =? 38 then 38 :: e_amp ++ [59]
  else if c =? 60 then 38 :: e_lt ++ [59]
  else if c =? 62 then 38 :: e_gt ++ [59]
  else if c =? 39 then 38 :: e_apos ++ [59]
  else if c =? 34 then 38 :: e_quot ++ [59]
  else [c].
Definition xml_escape (s : list N) : list N := flat_map esc1 s.

Lemma esc1_length c : (1 <= length (esc1 c))%nat.
Proof. unfold esc1. repeat match goal with |- context [if ?b then _ else _] => destruct b end; cbn; lia. Qed.

Lemma decode_escape : forall s f, (length (xml_escape s) < f)%nat ->
  decode_entities f (xml_escape s) = Some s.
Proof.
  induction s as [|c s IH]; intros f Hf.
  - destruct f; [cbn in Hf; lia|reflexivity].
  - unfold xml_escape in *. cbn [flat_map] in *. rewrite app_length in Hf.
    destruct f as [|f]; [lia|].
    assert (Hrec : decode_entities f (flat_map esc1 s) = Some s).
    { apply IH. pose proof (esc1_length c). lia. }
    set (R := flat_map esc1 s) in *. clearbody R.
    unfold esc1. 
    destruct (c =? 38) eqn:E1; [assert (c = 38) by lia; subst c; cbn; rewrite Hrec; reflexivity|].
    destruct (c =? 60) eqn:E2; [assert (c = 60) by lia; subst c; cbn; rewrite Hrec; reflexivity|].
    destruct (c =? 62) eqn:E3; [assert (c = 62) by lia; subst c; cbn; rewrite Hrec; reflexivity|].
    destruct (c =? 39) eqn:E4; [assert (c = 39) by lia; subst c; cbn; rewrite Hrec; reflexivity|].
    destruct (c =? 34) eqn:E5; [assert (c = 34) by lia; subst c; cbn; rewrite Hrec; reflexivity|].
    cbn [app decode_entities]. rewrite E1. cbn [negb]. rewrite Hrec. reflexivity.
Qed.

Theorem escape_roundtrip s : decode (xml_escape s) = Some s.
Proof. unfold decode. apply decode_escape. lia. Qed.

(* hexadecimal character references *)
Definition hexval (hs : list N) : N :=
  fold_left (fun acc c => acc * 16 + match hexv c with Some v => v | None => 0 end) hs 0.

Lemma hexv_lt c v : hexv c = Some v -> v < 16.
Proof.
  unfold hexv. repeat match goal with |- context [if ?b then _ else _] => destruct b eqn:? end;
    intros H; try discriminate; injection H as <-; lia.
Qed.

Lemma hex_acc_spec : forall hs acc,
  Forall (fun c => hexv c <> None) hs -> acc <= MAXCP ->
  hex_acc acc hs =
  let r := fold_left (fun a c => a * 16 + match hexv c with Some v => v | None => 0 end) hs acc in
  if r <=? MAXCP then Some r else None.
Proof.
  assert (Hmono : forall l a, a <= fold_left (fun a c => a * 16 + match hexv c with Some v => v | None => 0 end) l a).
  { induction l as [|x l IHl]; intros a; cbn [fold_left]; [lia|].
    specialize (IHl (a * 16 + match hexv x with Some v => v | None => 0 end)). lia. }
  induction hs as [|c hs IH]; intros acc Hall Hacc; cbn [hex_acc fold_left].
  - cbv zeta. destruct (acc <=? MAXCP) eqn:E; [reflexivity|]. apply N.leb_gt in E. lia.
  - inversion Hall as [|? ? Hc Hrest]; subst.
    destruct (hexv c) as [v|] eqn:Ev; [|congruence]. cbv zeta.
    destruct (MAXCP <? acc * 16 + v) eqn:Eo.
    + apply N.ltb_lt in Eo. pose proof (Hmono hs (acc * 16 + v)) as Hm.
      destruct (fold_left _ hs (acc * 16 + v) <=? MAXCP) eqn:E; [apply N.leb_le in E; lia|reflexivity].
    + apply N.ltb_ge in Eo. exact (IH (acc * 16 + v) Hrest Eo).
Qed.

Theorem charref_hex hs : hs <> [] -> Forall (fun c => hexv c <> None) hs ->
  char_ref (35 :: 120 :: hs) = if hexval hs <=? MAXCP then encode_utf8 (hexval hs) else None.
Proof.
  intros Hne Hall. unfold char_ref. cbn [N.eqb Pos.eqb orb].
  destruct hs as [|h hs']; [congruence|].
  rewrite (hex_acc_spec (h :: hs') 0 Hall); [|unfold MAXCP; lia]. cbv zeta. fold (hexval (h :: hs')).
  now destruct (hexval (h :: hs') <=? MAXCP).
Qed.

Theorem charref_no_digits : char_ref [35; 120] = None /\ char_ref [35] = None.
Proof. split; reflexivity. Qed.

(* what a valid code point encodes to *)
Definition utf8 (cp : N) : list N :=
  if cp <? 128 then [cp]
  else if cp <? 2048 then [192 + cp / 64; 128 + cp mod 64]
  else if cp <? 65536 then [224 + cp / 4096; 128 + (cp / 64) mod 64; 128 + cp mod 64]
  else [240 + cp / 262144; 128 + (cp / 4096) mod 64; 128 + (cp / 64) mod 64; 128 + cp mod 64].
Definition scalar (cp : N) : Prop := cp < 55296 \/ (57344 <= cp /\ cp <= 1114111).

Theorem encode_utf8_scalar cp :
  (scalar cp -> encode_utf8 cp = Some (utf8 cp)) /\ (~ scalar cp -> encode_utf8 cp = None).
Proof.
  unfold scalar, encode_utf8, utf8. split; intros H.
  - destruct (cp <=? 127) eqn:E1; [replace (cp <? 128) with true by lia; reflexivity|].
    replace (cp <? 128) with false by lia.
    destruct (cp <=? 2047) eqn:E2; [replace (cp <? 2048) with true by lia; reflexivity|].
    replace (cp <? 2048) with false by lia.
    destruct (cp <=? 65535) eqn:E3.
    + replace (cp <? 65536) with true by lia.
      replace ((55296 <=? cp) && (cp <=? 57343)) with false by lia. reflexivity.
    + replace (cp <? 65536) with false by lia.
      replace (cp <=? 1114111) with true by lia. reflexivity.
  - destruct (cp <=? 127) eqn:E1; [lia|]. destruct (cp <=? 2047) eqn:E2; [lia|].
    destruct (cp <=? 65535) eqn:E3.
    + replace ((55296 <=? cp) && (cp <=? 57343)) with true by lia. reflexivity.
    + replace (cp <=? 1114111) with false by lia. reflexivity.
Qed.

(* undefined / external entities are never expanded *)
Definition predefined (ent : list N) : Prop :=
  ent = e_lt \/ ent = e_gt \/ ent = e_amp \/ ent = e_apos \/ ent = e_quot.

Lemma find_semi ent rest : ~ In 59 ent -> find_pat [59] (ent ++ 59 :: rest) = Some (ent, rest).
Proof.
  induction ent as [|x ent IH]; intros Hn; [reflexivity|].
  rewrite find_pat_unfold. cbn [app starts_with].
  destruct (59 =? x) eqn:E; [exfalso; apply Hn; left; lia|]. cbn [andb].
  rewrite IH; [reflexivity|]. intros Hi. apply Hn. now right.
Qed.

Lemma list_eqb_neq a b : a <> b -> list_eqb a b = false.
Proof. unfold list_eqb. destruct (list_eq_dec N.eq_dec a b); [congruence|reflexivity]. Qed.

Theorem undefined_entity_not_expanded pre ent rest :
  ~ In 38 pre -> ~ In 59 ent -> ~ predefined ent ->
  match ent with [] => True | h :: _ => h <> 35 end ->
  decode (pre ++ 38 :: ent ++ 59 :: rest) = None.
Proof.
  intros Hpre Hsemi Hnp Hh. unfold decode.
  assert (G : forall f, decode_entities f (pre ++ 38 :: ent ++ 59 :: rest) = None).
  { induction pre as [|c pre IH]; intros f; (destruct f as [|f]; [reflexivity|]).
    - cbn [app decode_entities N.eqb Pos.eqb negb].
      rewrite find_semi by exact Hsemi.
      unfold predefined in Hnp.
      rewrite !list_eqb_neq by (intros ->; tauto).
      destruct ent as [|h t]; [reflexivity|].
      destruct (h =? 35) eqn:E; [lia|reflexivity].
    - cbn [app decode_entities].
      destruct (c =? 38) eqn:E; [exfalso; apply Hpre; left; lia|]. cbn [negb].
      rewrite IH; [reflexivity|]. intros Hi. apply Hpre. now right. }
  apply G.
Qed.
