(* C03/Model.v — executable model of Transport's per-session synchronous receive machinery
   (include/iora/network/transport_impl.hpp: the onData / onClose handlers, receiveSync,
   setReadMode with its multi-step Sync->Async flush, tombstone GC).  One session; every step
   is what the code does under one acquisition of syncMutex, so any interleaving of the I/O
   thread and an application thread is a sequence of these steps.  Definitions only. *)
From IoraVerif Require Import Common.Bytes.
Local Open Scope N_scope.

Inductive rmode := MAsync | MSync | MDisabled.

Record sbuf := mkB {
  b_data : list N;
  b_closed : bool;
  b_overflow : bool;
  b_flushing : bool
}.

Record sst := mkT {
  t_mode : option rmode;          (* readModes entry; absent = Async *)
  t_buf : option sbuf;            (* receiveBuffers entry *)
  t_held : option (list N);       (* the flusher's batch: taken under the lock, not yet delivered *)
  t_dead : bool;                  (* ghost: the engine has reported the close (no data event follows) *)
  t_acc : list N;                 (* ghost: bytes accepted from the peer (not dropped) *)
  t_del : list N                  (* ghost: bytes handed to the application, in order *)
}.

Inductive sev :=
| SData (bs : list N)             (* I/O thread: engine onData *)
| SClose                          (* I/O thread: engine onClose *)
| SRecv (len : N)                 (* application: receiveSync at the moment it holds the lock with its
                                     predicate true, or its deadline has passed *)
| SSetMode (m : rmode)            (* application: setReadMode; towards Async with a buffer = flush begin *)
| SFlushStep                      (* flusher: one locked iteration of the flush loop *)
| SFlushDeliver                   (* flusher: the data callback for the batch it holds *)
| SGc.                            (* I/O thread: tombstone GC triggered by another session's close *)

Inductive sout :=
| OCb (bs : list N)               (* data callback *)
| ORecv (bs : list N)             (* receiveSync ok *)
| OTimeout | OOverflow | OClosed | OCancelled.

Definition mode_of (s : sst) : rmode := match t_mode s with Some m => m | None => MAsync end.
Definition fresh_buf : sbuf := mkB [] false false false.

Definition sstep (maxbuf : N) (s : sst) (e : sev) : sst * list sout :=
  match e with
  | SData bs =>
    match mode_of s with
    | MSync =>
      match t_buf s with
      | Some b =>
        if b_overflow b then (s, [])                                   (* fix: nothing after the gap *)
        else if maxbuf <? lenN (b_data b) + lenN bs then
          (mkT (t_mode s) (Some (mkB (b_data b) (b_closed b) true (b_flushing b))) (t_held s) (t_dead s) (t_acc s) (t_del s), [])
        else
          (mkT (t_mode s) (Some (mkB (b_data b ++ bs) (b_closed b) (b_overflow b) (b_flushing b))) (t_held s) (t_dead s)
               (t_acc s ++ bs) (t_del s), [])
      | None => (s, [])
      end
    | MDisabled => (s, [])
    | MAsync => (mkT (t_mode s) (t_buf s) (t_held s) (t_dead s) (t_acc s ++ bs) (t_del s ++ bs), [OCb bs])
    end
  | SClose =>
    let b := match t_buf s with
             | Some b => mkB (b_data b) true (b_overflow b) (b_flushing b)
             | None => mkB [] true false false                          (* tombstone *)
             end in
    (mkT None (Some b) (t_held s) true (t_acc s) (t_del s), [])
  | SRecv len =>
    let b := match t_buf s with Some b => b | None => fresh_buf end in   (* find-or-create *)
    if b_flushing b then (s, [OCancelled]) else
    match b_data b with
    | _ :: _ =>
      let n := N.to_nat (N.min len (lenN (b_data b))) in
      (mkT (t_mode s) (Some (mkB (skipn n (b_data b)) (b_closed b) (b_overflow b) (b_flushing b))) (t_held s) (t_dead s)
           (t_acc s) (t_del s ++ firstn n (b_data b)),
       [ORecv (firstn n (b_data b))])
    | [] =>
      if b_overflow b then (mkT (t_mode s) (Some b) (t_held s) (t_dead s) (t_acc s) (t_del s), [OOverflow])
      else if b_closed b then (mkT None None (t_held s) (t_dead s) (t_acc s) (t_del s), [OClosed])
      else (mkT (t_mode s) (Some b) (t_held s) (t_dead s) (t_acc s) (t_del s), [OTimeout])
    end
  | SSetMode m =>
    match m, mode_of s with
    | MAsync, MAsync => (mkT (Some MAsync) (t_buf s) (t_held s) (t_dead s) (t_acc s) (t_del s), [])
    | MAsync, _ =>
      (* towards Async from Sync or Disabled: ordered flush (fix: also from Disabled) *)
      match t_buf s with
      | None => (mkT (Some MAsync) None (t_held s) (t_dead s) (t_acc s) (t_del s), [])
      | Some b => (mkT (t_mode s) (Some (mkB (b_data b) (b_closed b) (b_overflow b) true)) (t_held s) (t_dead s) (t_acc s) (t_del s), [])
      end
    | _, _ =>
      (mkT (Some m)
           (match m, t_buf s with MSync, None => Some fresh_buf | _, b => b end)
           (t_held s) (t_dead s) (t_acc s) (t_del s), [])
    end
  | SFlushStep =>
    match t_buf s, t_held s with
    | Some b, None =>
      if b_flushing b then
        match b_data b with
        | _ :: _ => (mkT (t_mode s) (Some (mkB [] (b_closed b) (b_overflow b) true)) (Some (b_data b)) (t_dead s) (t_acc s) (t_del s), [])
        | [] => (mkT (Some MAsync) (Some (mkB [] (b_closed b) (b_overflow b) false)) None (t_dead s) (t_acc s) (t_del s), [])
        end
      else (s, [])
    | _, _ => (s, [])
    end
  | SFlushDeliver =>
    match t_held s with
    | Some bs => (mkT (t_mode s) (t_buf s) None (t_dead s) (t_acc s) (t_del s ++ bs), [OCb bs])
    | None => (s, [])
    end
  | SGc =>
    match t_buf s with
    | Some b =>
      if b_closed b && negb (b_flushing b) && (match b_data b with [] => true | _ => false end)
      then (mkT (t_mode s) None (t_held s) (t_dead s) (t_acc s) (t_del s), [])
      else (s, [])
    | None => (s, [])
    end
  end.

Definition sinit : sst := mkT None None None false [] [].

Fixpoint srun (maxbuf : N) (s : sst) (h : list sev) : sst * list sout :=
  match h with
  | [] => (s, [])
  | e :: h' => let r := sstep maxbuf s e in let r' := srun maxbuf (fst r) h' in (fst r', snd r ++ snd r')
  end.
