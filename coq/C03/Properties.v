(* C03/Properties.v — the property theorems for C03 and nothing else.
   A history is ANY sequence of the code's critical sections (Model.v sev): engine data / close
   events on the I/O thread, receiveSync completions, read-mode switches, the individual locked
   iterations and callback deliveries of a Sync->Async flush, tombstone GCs — i.e. every
   interleaving of the I/O thread with a receiving or flushing application thread. *)
From IoraVerif Require Import Common.Bytes C03.Model C03.Proofs.
Local Open Scope N_scope.

(* 1. Lossless, ordered, exactly once — for every history in which the engine reports no data
      after its close: the bytes accepted from the peer are exactly the bytes handed to the
      application (receiveSync results and data-callback deliveries, in the order they were
      handed over), followed by the batch in the flusher's hands and the buffer.  In particular
      the bytes flushed by a switch to Async precede every later-arriving byte at the callback,
      whatever buffer lengths the reader used. *)
Theorem sync_stream_exact : forall maxbuf h, hist_ok maxbuf sinit h ->
  let r := srun maxbuf sinit h in
  t_acc (fst r) = out_bytes (snd r) ++ held_of (fst r) ++ data_of (fst r).
Proof. exact stream_exact. Qed.
Print Assumptions sync_stream_exact.

(* 2. Which bytes may be missing from "accepted": a data event is accepted whole, or the session
      is Disabled, or a (sticky) overflow is recorded for the reader — nothing is dropped silently. *)
Theorem sync_drop_reasons : forall maxbuf s bs, inv s -> t_dead s = false ->
  let s' := fst (sstep maxbuf s (SData bs)) in
  t_acc s' = t_acc s ++ bs \/
  (mode_of s = MDisabled /\ s' = s) \/
  (mode_of s = MSync /\ t_acc s' = t_acc s /\ exists b', t_buf s' = Some b' /\ b_overflow b' = true).
Proof. exact data_accepted_or_reported. Qed.
Print Assumptions sync_drop_reasons.

Theorem sync_invariant_reachable : forall maxbuf h, hist_ok maxbuf sinit h -> inv (fst (srun maxbuf sinit h)).
Proof. intros maxbuf h H. exact (run_inv maxbuf h sinit init_inv H). Qed.
Print Assumptions sync_invariant_reachable.

(* 3. A receive returns a prefix of the buffer of the requested length (any length). *)
Theorem sync_recv_prefix : forall maxbuf s b len, t_buf s = Some b -> b_flushing b = false -> b_data b <> [] ->
  snd (sstep maxbuf s (SRecv len)) = [ORecv (firstn (N.to_nat (N.min len (lenN (b_data b)))) (b_data b))] /\
  data_of (fst (sstep maxbuf s (SRecv len))) = skipn (N.to_nat (N.min len (lenN (b_data b)))) (b_data b).
Proof. exact recv_returns_prefix. Qed.
Print Assumptions sync_recv_prefix.

(* 4. PeerClosed is reported only when every accepted byte has been handed over. *)
Theorem sync_eof_after_drain : forall maxbuf s len, inv s ->
  In OClosed (snd (sstep maxbuf s (SRecv len))) -> t_acc s = t_del s.
Proof. exact eof_after_drain. Qed.
Print Assumptions sync_eof_after_drain.

(* 5. A disabled session delivers nothing. *)
Theorem sync_disabled_silent : forall maxbuf s bs, mode_of s = MDisabled -> sstep maxbuf s (SData bs) = (s, []).
Proof. exact disabled_delivers_nothing. Qed.
Print Assumptions sync_disabled_silent.

(* 6. Overflow is a distinct, sticky error after the bytes buffered before it. *)
Theorem sync_overflow_sticky : forall maxbuf s b e, t_buf s = Some b -> b_overflow b = true -> e <> SGc ->
  exists b', t_buf (fst (sstep maxbuf s e)) = Some b' /\ b_overflow b' = true.
Proof. exact overflow_sticky. Qed.
Print Assumptions sync_overflow_sticky.

Theorem sync_overflow_no_bytes_from_behind_the_gap : forall maxbuf s b bs,
  t_buf s = Some b -> b_overflow b = true -> mode_of s = MSync -> sstep maxbuf s (SData bs) = (s, []).
Proof. exact overflow_accepts_nothing. Qed.
Print Assumptions sync_overflow_no_bytes_from_behind_the_gap.

Theorem sync_overflow_reads : forall maxbuf s b len, t_buf s = Some b -> b_overflow b = true ->
  let o := snd (sstep maxbuf s (SRecv len)) in
  o = [OCancelled] \/ o = [OOverflow] /\ b_data b = [] \/ (exists bs, o = [ORecv bs] /\ b_data b <> []).
Proof. exact overflow_reads. Qed.
Print Assumptions sync_overflow_reads.

(* 7. A late reader finds the tombstone: it never waits out its timeout. *)
Theorem sync_late_reader : forall maxbuf s b len, t_buf s = Some b -> b_closed b = true ->
  ~ In OTimeout (snd (sstep maxbuf s (SRecv len))).
Proof. exact late_reader_no_timeout. Qed.
Print Assumptions sync_late_reader.

(* ------------------------------------------------ non-vacuity *)
Definition demo : list sev :=
  [ SSetMode MSync; SData [1; 2]; SData [3; 4; 5]; SRecv 2; SSetMode MDisabled; SData [9];
    SSetMode MAsync; SFlushStep; SData [6]; SFlushDeliver; SFlushStep; SData [7];
    SSetMode MSync; SData [8]; SClose; SRecv 10; SRecv 10 ].
Example demo_ok : hist_ok 8 sinit demo.
Proof. vm_compute. repeat split. Qed.
Example demo_runs :
  (* [9] and [6] arrive while the session is Disabled (the flush towards Async is still running) *)
  snd (srun 8 sinit demo) = [ORecv [1; 2]; OCb [3; 4; 5]; OCb [7]; ORecv [8]; OClosed].
Proof. vm_compute. reflexivity. Qed.
