(* C03/Proofs.v — the stream invariant and its consequences *)
From IoraVerif Require Import Common.Bytes C03.Model.
From Coq Require Import ZifyBool ZifyN ZifyNat.
Local Open Scope N_scope.

Definition held_of (s : sst) : list N := match t_held s with Some b => b | None => [] end.
Definition data_of (s : sst) : list N := match t_buf s with Some b => b_data b | None => [] end.
Definition flushing_of (s : sst) : bool := match t_buf s with Some b => b_flushing b | None => false end.

Record inv (s : sst) : Prop := {
  (* every accepted byte is either handed over, in the flusher's hands, or buffered — in this order *)
  i_stream : t_acc s = t_del s ++ held_of s ++ data_of s;
  (* in Async mode (session alive) nothing is held back *)
  i_async : mode_of s = MAsync -> t_dead s = false -> data_of s = [] /\ t_held s = None;
  (* a batch is held only by an in-progress flush *)
  i_held : t_held s <> None -> flushing_of s = true;
  (* Sync mode always has its buffer while the session is alive *)
  i_sync : mode_of s = MSync -> t_dead s = false -> t_buf s <> None;
  (* only a dead session has a closed buffer *)
  i_closed : forall b, t_buf s = Some b -> b_closed b = true -> t_dead s = true
}.

(* the engine reports no data after the close *)
Definition ev_ok (s : sst) (e : sev) : Prop := match e with SData _ => t_dead s = false | _ => True end.

Lemma init_inv : inv sinit.
Proof. constructor; cbn; auto; try discriminate; intros; congruence. Qed.

Ltac spec_hyps :=
  repeat match goal with
         | H : ?a = ?a -> _ |- _ => specialize (H eq_refl)
         | H : Some _ <> None -> _ |- _ => specialize (H ltac:(discriminate))
         | H : forall b, Some ?B = Some b -> _ |- _ => specialize (H _ eq_refl)
         | H : _ /\ _ |- _ => destruct H
         end.
Ltac fin :=
  cbn in *; spec_hyps; subst;
  repeat match goal with
         | |- _ /\ _ => split
         | |- _ -> _ => intro
         | |- forall _, _ => intro
         end;
  spec_hyps; subst; spec_hyps; subst; spec_hyps;
  repeat match goal with H : Some _ = Some _ |- _ => inversion H; clear H; subst end;
  repeat match goal with
         | H : _ && _ = true |- _ => apply andb_prop in H; destruct H
         | H : negb _ = true |- _ => apply negb_true_iff in H
         | H : match ?l with [] => true | _ :: _ => false end = true |- _ => destruct l; [|discriminate]
         end;
  cbn in *; spec_hyps; subst; try discriminate; try congruence; try reflexivity;
  rewrite ?app_nil_r, <- ?app_assoc in *; try congruence; try reflexivity; auto;
  try (f_equal; symmetry; apply firstn_skipn); spec_hyps; try discriminate; try congruence.

Theorem step_inv maxbuf s e : inv s -> ev_ok s e -> inv (fst (sstep maxbuf s e)).
Proof.
  intros Hi Hok. destruct s as [mode buf held dead acc del]. destruct Hi as [H1 H2 H3 H4 H5].
  unfold held_of, data_of, flushing_of, mode_of, ev_ok in *. cbn [t_mode t_buf t_held t_dead t_acc t_del] in *.
  destruct buf as [[data closed ovf fl]|]; destruct held as [h|]; destruct mode as [[| |]|];
    destruct e as [bs| |len|m| | |]; cbn [sstep mode_of t_mode t_buf t_held t_dead t_acc t_del b_data b_closed b_overflow b_flushing fresh_buf] in *;
    try (destruct m); cbn [mode_of t_mode] in *;
    repeat match goal with
           | |- context [if ?b then _ else _] => destruct b eqn:?
           | |- context [match ?l with [] => _ | _ :: _ => _ end] => destruct l eqn:?
           end;
    cbn [fst]; (constructor; unfold held_of, data_of, flushing_of, mode_of;
                cbn [t_mode t_buf t_held t_dead t_acc t_del b_data b_closed b_overflow b_flushing fresh_buf]; fin).
Qed.

(* ------------------------------------------------------------ histories *)
Fixpoint hist_ok (maxbuf : N) (s : sst) (h : list sev) : Prop :=
  match h with
  | [] => True
  | e :: h' => ev_ok s e /\ hist_ok maxbuf (fst (sstep maxbuf s e)) h'
  end.

Theorem run_inv maxbuf : forall h s, inv s -> hist_ok maxbuf s h -> inv (fst (srun maxbuf s h)).
Proof.
  induction h as [|e h IH]; intros s Hi Hh; [exact Hi|].
  destruct Hh as [Hok Hh]. cbn [srun fst]. apply IH; [now apply step_inv|exact Hh].
Qed.

(* what the application has been handed = the bytes of the outputs, in order *)
Definition out_bytes (outs : list sout) : list N :=
  flat_map (fun o => match o with OCb b | ORecv b => b | _ => [] end) outs.

Lemma step_del maxbuf s e : t_del (fst (sstep maxbuf s e)) = t_del s ++ out_bytes (snd (sstep maxbuf s e)).
Proof.
  destruct s as [mode buf held dead acc del].
  destruct buf as [[data closed ovf fl]|]; destruct held as [h|]; destruct mode as [[| |]|];
    destruct e as [bs| |len|m| | |]; cbn [sstep mode_of t_mode t_buf t_held t_dead t_acc t_del b_data b_closed b_overflow b_flushing fresh_buf];
    try (destruct m); cbn [mode_of t_mode];
    repeat match goal with
           | |- context [if ?b then _ else _] => destruct b eqn:?
           | |- context [match ?l with [] => _ | _ :: _ => _ end] => destruct l eqn:?
           end;
    cbn [fst snd t_del out_bytes flat_map app]; rewrite ?app_nil_r; reflexivity.
Qed.

Lemma run_del maxbuf : forall h s, t_del (fst (srun maxbuf s h)) = t_del s ++ out_bytes (snd (srun maxbuf s h)).
Proof.
  induction h as [|e h IH]; intros s; cbn [srun fst snd]; [cbn; now rewrite app_nil_r|].
  rewrite IH, step_del. unfold out_bytes. rewrite flat_map_app. now rewrite app_assoc.
Qed.

Theorem stream_exact maxbuf h : hist_ok maxbuf sinit h ->
  let r := srun maxbuf sinit h in
  t_acc (fst r) = out_bytes (snd r) ++ held_of (fst r) ++ data_of (fst r).
Proof.
  intros Hh r. pose proof (run_inv maxbuf h sinit init_inv Hh) as Hi. subst r.
  rewrite (i_stream _ Hi). rewrite run_del. reflexivity.
Qed.

(* ------------------------------------------------------------ single steps *)
Theorem eof_after_drain maxbuf s len : inv s ->
  In OClosed (snd (sstep maxbuf s (SRecv len))) -> t_acc s = t_del s.
Proof.
  intros [H1 H2 H3 H4 H5]. destruct s as [mode buf held dead acc del].
  unfold held_of, data_of, flushing_of, mode_of in *. cbn [t_mode t_buf t_held t_dead t_acc t_del] in *.
  destruct buf as [[data closed ovf fl]|]; destruct held as [h|];
    cbn [sstep t_buf b_flushing b_data b_overflow b_closed fresh_buf];
    repeat match goal with
           | |- context [if ?b then _ else _] => destruct b eqn:?
           | |- context [match ?l with [] => _ | _ :: _ => _ end] => destruct l eqn:?
           end; cbn [snd In]; intros Hin; fin;
      repeat match goal with H : _ \/ _ |- _ => destruct H end; try discriminate; try contradiction; fin.
Qed.

Theorem recv_returns_prefix maxbuf s b len : t_buf s = Some b -> b_flushing b = false -> b_data b <> [] ->
  snd (sstep maxbuf s (SRecv len)) = [ORecv (firstn (N.to_nat (N.min len (lenN (b_data b)))) (b_data b))] /\
  data_of (fst (sstep maxbuf s (SRecv len))) = skipn (N.to_nat (N.min len (lenN (b_data b)))) (b_data b).
Proof.
  intros Hb Hf Hd. unfold data_of. cbn [sstep]. rewrite Hb, Hf. destruct (b_data b) as [|x xs] eqn:E; [congruence|].
  cbn [fst snd t_buf b_data]. auto.
Qed.

Theorem disabled_delivers_nothing maxbuf s bs : mode_of s = MDisabled -> sstep maxbuf s (SData bs) = (s, []).
Proof. intros H. cbn [sstep]. now rewrite H. Qed.

(* a data event is accepted, or dropped for a stated reason *)
Theorem data_accepted_or_reported maxbuf s bs : inv s -> t_dead s = false ->
  let s' := fst (sstep maxbuf s (SData bs)) in
  t_acc s' = t_acc s ++ bs \/
  (mode_of s = MDisabled /\ s' = s) \/
  (mode_of s = MSync /\ t_acc s' = t_acc s /\ exists b', t_buf s' = Some b' /\ b_overflow b' = true).
Proof.
  intros [H1 H2 H3 H4 H5] Hd. destruct s as [mode buf held dead acc del].
  unfold held_of, data_of, flushing_of, mode_of in *. cbn [t_mode t_buf t_held t_dead t_acc t_del] in *. subst dead.
  destruct mode as [[| |]|]; cbn [sstep mode_of t_mode t_buf]; try (left; reflexivity); try (right; left; split; reflexivity).
  destruct buf as [[data closed ovf fl]|]; [|exfalso; now apply (H4 eq_refl eq_refl)].
  cbn [b_overflow b_data b_closed b_flushing]. destruct ovf.
  - right; right. cbn [fst t_acc t_buf]. repeat split. eexists. split; reflexivity.
  - destruct (maxbuf <? lenN data + lenN bs); cbn [fst t_acc t_buf].
    + right; right. repeat split. eexists. split; reflexivity.
    + left. reflexivity.
Qed.

(* overflow is sticky: the flag stays as long as the buffer does, nothing more is accepted in
   Sync mode, and the reader gets the remaining bytes, then BufferOverflow - never EOF or a timeout *)
Theorem overflow_sticky maxbuf s b e : t_buf s = Some b -> b_overflow b = true -> e <> SGc ->
  exists b', t_buf (fst (sstep maxbuf s e)) = Some b' /\ b_overflow b' = true.
Proof.
  intros Hb Ho He. destruct s as [mode buf held dead acc del]. cbn [t_buf] in Hb. subst buf.
  destruct b as [data closed ovf fl]. cbn [b_overflow] in Ho. subst ovf.
  destruct held as [h|]; destruct mode as [[| |]|];
    destruct e as [bs| |len|m| | |]; try congruence;
    cbn [sstep mode_of t_mode t_buf t_held b_data b_closed b_overflow b_flushing];
    try (destruct m); cbn [mode_of t_mode];
    repeat match goal with
           | |- context [if ?b then _ else _] => destruct b eqn:?
           | |- context [match ?l with [] => _ | _ :: _ => _ end] => destruct l eqn:?
           end; cbn [fst t_buf]; eexists; split; reflexivity.
Qed.

Theorem overflow_reads maxbuf s b len : t_buf s = Some b -> b_overflow b = true ->
  let o := snd (sstep maxbuf s (SRecv len)) in
  o = [OCancelled] \/ o = [OOverflow] /\ b_data b = [] \/ (exists bs, o = [ORecv bs] /\ b_data b <> []).
Proof.
  intros Hb Ho. cbn [sstep]. rewrite Hb. destruct (b_flushing b); [left; reflexivity|].
  destruct (b_data b) as [|x xs]; [rewrite Ho; right; left; split; reflexivity|].
  right; right. eexists. split; [reflexivity|discriminate].
Qed.

Theorem overflow_accepts_nothing maxbuf s b bs : t_buf s = Some b -> b_overflow b = true -> mode_of s = MSync ->
  sstep maxbuf s (SData bs) = (s, []).
Proof. intros Hb Ho Hm. cbn [sstep]. now rewrite Hm, Hb, Ho. Qed.

(* a reader that arrives after the close finds the tombstone: no timeout *)
Theorem late_reader_no_timeout maxbuf s b len : t_buf s = Some b -> b_closed b = true ->
  ~ In OTimeout (snd (sstep maxbuf s (SRecv len))).
Proof.
  intros Hb Hc. cbn [sstep]. rewrite Hb. destruct (b_flushing b); [cbn; intuition discriminate|].
  destruct (b_data b); [|cbn; intuition discriminate].
  destruct (b_overflow b); [cbn; intuition discriminate|]. rewrite Hc. cbn. intuition discriminate.
Qed.
