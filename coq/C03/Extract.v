(* C03/Extract.v — extraction of the sync-receive model (ExtrOcamlBasic only) *)
From IoraVerif Require Import C03.Model.
Require Import ExtrOcamlBasic.
Extraction Language OCaml.
Extraction "../build/ocaml/c03_model.ml" sstep sinit srun mode_of.
