(* C12/GenTie.v — the write-path bounds of the KV refinement (kv_ok) against the headers' current values *)
From IoraVerif Require Import Common.Bytes C11.Model C12.Disk Gen.Constants.
From Coq Require Import ZArith Lia.
Local Open Scope N_scope.

Theorem kv_ok_is_the_write_path_bound : forall k v,
  kv_ok k v <-> (0 < lenN k /\ lenN k <= KV_MAX_KEY_LENGTH /\ lenN v <= KV_MAX_VALUE_LENGTH).
Proof. intros k v. unfold kv_ok, MAX_VALLEN, KV_MAX_KEY_LENGTH, KV_MAX_VALUE_LENGTH. tauto. Qed.
Print Assumptions kv_ok_is_the_write_path_bound.

Theorem kv_plausible_window_tie : Z.of_N KV_MAX_PLAUSIBLE_EPOCH_MS = MAX_PLAUSIBLE /\ KV_MAGIC = MAGIC.
Proof. vm_compute. split; reflexivity. Qed.
Print Assumptions kv_plausible_window_tie.
