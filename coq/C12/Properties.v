(* C12/Properties.v — the property theorems for C12 and nothing else.
   Reference: C12/Spec.v (a function key -> (value, absolute expiry), reads through [seen]). *)
From IoraVerif Require Import Common.Bytes C11.Model C11.Proofs C12.Spec C12.RefMap C12.Disk C12.System.
Local Open Scope N_scope.

(* 1. EVERY history of the whole store — set, set-with-TTL, remove, expireAt, persist, clear,
      compaction, eviction callbacks carrying ANY generation at ANY time, gets through a cache
      of ANY capacity with ANY victim choice, clean close/reopen, wall-clock advances of ANY
      size between steps (also across restarts) — run from an empty directory: the constructor
      never throws, every get returns exactly what the reference map returns, every cache entry
      is the current map entry, and at any later instant every read path (get with or without
      the cache, exists, ttl, keys, size) agrees with the reference map.
      Hypotheses = the domain of the public API (op_ok: validateKeyValue, ttl > 0, expiries
      representable as a system_clock::time_point), a non-negative clock, and at most 10^7
      operations (the snapshot loader refuses more than 10^7 entries: see DESIGN.md, F22). *)
Theorem kv_store_refines_reference_map : forall crc, (forall l, crc l < 4294967296) -> forall cap t0 h,
  (0 <= t0)%Z -> hist_ok t0 h -> lenN h <= 10000000 ->
  exists y',
    srun crc (init_sys cap) h = Some (y', snd (ref_run (fun _ => None) h)) /\
    cache_inv (y_mem y') /\
    forall now, (last_time t0 h <= now)%Z -> reads_agree now (y_mem y') (fst (ref_run (fun _ => None) h)).
Proof. exact store_refines_map. Qed.
Print Assumptions kv_store_refines_reference_map.

(* 1'. the same for the checksum the store uses *)
Theorem kv_store_refines_reference_map_crc32 : forall cap t0 h,
  (0 <= t0)%Z -> hist_ok t0 h -> lenN h <= 10000000 ->
  exists y',
    srun crc32 (init_sys cap) h = Some (y', snd (ref_run (fun _ => None) h)) /\
    cache_inv (y_mem y') /\
    forall now, (last_time t0 h <= now)%Z -> reads_agree now (y_mem y') (fst (ref_run (fun _ => None) h)).
Proof. exact (store_refines_map crc32 crc32_32bit). Qed.
Print Assumptions kv_store_refines_reference_map_crc32.

(* 2. In the reference map a key whose expiry has passed is invisible to every read ... *)
Theorem kv_expired_never_observable : forall now f k v ms, f k = Some (v, Some ms) -> (ms <= now)%Z ->
  ref_get now f k = None /\ ref_exists now f k = false /\ ref_ttl now f k = None /\ ~ ref_has now f k.
Proof. exact ref_expired_invisible. Qed.
Print Assumptions kv_expired_never_observable.

(* 3. ... restart, compaction and eviction do not change the reference map (so with 1 nothing
      reappears or disappears through them) ... *)
Theorem kv_restart_compaction_eviction_invisible : forall now f,
  ref_sys_step now f SReopen = f /\ ref_step now f OCompact = f /\ forall k g, ref_step now f (OEvict k g) = f.
Proof. exact ref_restart_compaction_identity. Qed.
Print Assumptions kv_restart_compaction_eviction_invisible.

(* 4. ... and a plain overwrite clears an earlier expiry: at every later instant the key is there. *)
Theorem kv_overwrite_clears_expiry : forall now now' f k v, k <> [] ->
  ref_get now' (ref_step now f (OSet k v)) k = Some v /\ ref_ttl now' (ref_step now f (OSet k v)) k = None.
Proof. exact ref_overwrite_clears_expiry. Qed.
Print Assumptions kv_overwrite_clears_expiry.

(* 5. One step of the in-memory store, from ANY state that satisfies the invariants (not only
      reachable ones): the cache stays coherent and a get equals the reference read. *)
Theorem kv_step_preserves_cache_coherence : forall now vic s o,
  nodup (s_kv s) -> cache_inv s -> cache_inv (st_of (mstep now vic s o)).
Proof. exact mstep_cache_inv. Qed.
Print Assumptions kv_step_preserves_cache_coherence.

Theorem kv_get_through_cache_is_map_read : forall now vic s k f,
  cache_inv s -> sim now s f -> out_of (mstep now vic s (OGet k)) = ref_get now f k.
Proof. exact mstep_get. Qed.
Print Assumptions kv_get_through_cache_is_map_read.

(* 6. Snapshot (compaction output) round trip, byte level. *)
Theorem kv_snapshot_roundtrip : forall m, wfm m -> nodup m -> lenN m <= 10000000 ->
  exists m', load_snapshot (enc_snapshot m) = Some m' /\ meq m' m /\ nodup m'.
Proof.
  intros m Hw Hn Hl. exists (fold_left put m []). split; [now apply snapshot_roundtrip|]. split.
  - intros k. rewrite fold_put_get by exact Hn. cbn [m_get]. now destruct (m_get m k).
  - apply fold_put_nodup. constructor.
Qed.
Print Assumptions kv_snapshot_roundtrip.

(* ------------------------------------------------ non-vacuity: a concrete history *)
Definition demo : list (Z * key * sysop) :=
  [ (1000%Z, [], SOp (OSetTtl [97] [1; 2] 1000%Z));        (* a expires at 2000 *)
    (1500%Z, [], SOp (OGet [97]));
    (1600%Z, [], SOp (OSet [98] []));
    (1700%Z, [], SOp (OExpireAt [98] 5000%Z));
    (1800%Z, [97], SOp (OGet [98]));
    (2000%Z, [], SOp (OGet [97]));                           (* expired exactly now *)
    (2100%Z, [], SOp (OPersist [97]));                       (* must not resurrect *)
    (2200%Z, [], SOp OCompact);
    (2300%Z, [], SReopen);
    (2400%Z, [], SOp (OGet [97]));
    (2500%Z, [], SOp (OSet [98] [7]));                       (* overwrite clears the expiry *)
    (9000%Z, [], SReopen);
    (9000%Z, [], SOp (OGet [98])) ].
Example demo_ok : hist_ok 0 demo /\ lenN demo <= 10000000.
Proof. cbn. unfold kv_ok, TP_MAX, MAX_VALLEN. cbn. repeat split; lia. Qed.
Example demo_runs :
  match srun crc32 (init_sys 1) demo with
  | Some (_, outs) => outs = [Some [1; 2]; Some []; None; None; Some [7]] /\ outs = snd (ref_run (fun _ => None) demo)
  | None => False
  end.
Proof. vm_compute. split; reflexivity. Qed.
