(* C12/Disk.v — the files: snapshot round trip, the log replays to the in-memory map,
   clean restart; then the whole store against the reference map *)
From IoraVerif Require Import Common.Bytes C11.Model C11.Proofs C12.Spec C12.RefMap.
From Coq Require Import ZifyBool ZifyN ZifyNat.
Local Open Scope N_scope.

Definition wf_ent (ke : key * (list N * option Z)) : Prop :=
  0 < lenN (fst ke) /\ lenN (fst ke) <= MAX_KEYLEN /\ lenN (fst (snd ke)) <= MAX_VALLEN /\
  match snd (snd ke) with Some ms => plausible ms = true | None => True end.
Definition wfm (m : kvmap) : Prop := Forall wf_ent m.

Definition put (a : kvmap) (ke : key * (list N * option Z)) : kvmap := m_set a (fst ke) (snd ke).

Lemma plausible_i64 ms : plausible ms = true -> in_i64 ms /\ (ms =? NO_EXPIRY)%Z = false.
Proof. unfold plausible, in_i64, NO_EXPIRY, MAX_PLAUSIBLE, two63. intros H. split; lia. Qed.

Lemma NO_EXPIRY_i64 : in_i64 NO_EXPIRY.
Proof. unfold in_i64, NO_EXPIRY, two63. lia. Qed.

(* ------------------------------------------------------------ snapshot round trip *)
Lemma take8 z rest : take_exact 8 (enc_i64 z ++ rest) = Some (enc_i64 z, rest).
Proof. replace 8 with (lenN (enc_i64 z)) at 1 by apply enc_i64_len. apply take_exact_app. Qed.

Lemma load_entries_enc : forall es rest a, Forall wf_ent es ->
  load_entries (length es) 2 (flat_map enc_snap_entry es ++ rest) a = Some (fold_left put es a).
Proof.
  induction es as [|[k [v e]] es IH]; intros rest a Hwf; [reflexivity|].
  inversion Hwf as [|x l Hx Hl]; subst. destruct Hx as (Hk0 & Hk1 & Hv & He). cbn [fst snd] in *.
  unfold MAX_KEYLEN, MAX_VALLEN in *.
  cbn [length load_entries flat_map enc_snap_entry]. rewrite <- !app_assoc.
  rewrite take4 by lia. rewrite le4 by lia. unfold MAX_KEYLEN, MAX_VALLEN.
  replace ((lenN k =? 0) || (65536 <? lenN k)) with false by lia.
  rewrite take_exact_app. cbn [N.eqb Pos.eqb]. rewrite take8.
  rewrite take4 by lia. rewrite le4 by lia.
  replace (104857600 <? lenN v) with false by lia.
  rewrite take_exact_app.
  cbn [fold_left]. unfold put at 2. cbn [fst snd].
  destruct e as [ms|].
  - destruct (plausible_i64 ms He) as [Hi Hne]. rewrite dec_enc_i64 by exact Hi.
    rewrite Hne, He. apply IH. exact Hl.
  - rewrite dec_enc_i64 by apply NO_EXPIRY_i64. rewrite Z.eqb_refl. apply IH. exact Hl.
Qed.

Theorem snapshot_roundtrip m : wfm m -> lenN m <= 10000000 ->
  load_snapshot (enc_snapshot m) = Some (fold_left put m []).
Proof.
  intros Hwf Hn. unfold load_snapshot, enc_snapshot, MAGIC.
  rewrite take4 by lia. rewrite le4 by lia. cbn [N.eqb Pos.eqb negb].
  rewrite take4 by lia. rewrite le4 by lia. cbn [N.eqb Pos.eqb negb orb].
  rewrite take4 by lia. rewrite le4 by lia.
  replace (10000000 <? lenN m) with false by lia.
  unfold lenN. rewrite Nat2N.id.
  rewrite <- (app_nil_r (flat_map enc_snap_entry m)). now apply load_entries_enc.
Qed.

Lemma fold_put_get : forall es a k, nodup es ->
  m_get (fold_left put es a) k = match m_get es k with Some e => Some e | None => m_get a k end.
Proof.
  unfold nodup. induction es as [|[k0 e0] es IH]; intros a k Hn; [reflexivity|].
  inversion Hn; subst. cbn [fold_left map fst m_get]. rewrite IH by assumption.
  unfold put. cbn [fst snd]. rewrite m_get_set.
  destruct (key_eqb k0 k) eqn:E.
  - apply key_eqb_eq in E. subst k0. apply m_get_none_iff in H1. now rewrite H1.
  - reflexivity.
Qed.

Lemma fold_put_nodup : forall es a, nodup a -> nodup (fold_left put es a).
Proof.
  induction es as [|ke es IH]; intros a Hn; [exact Hn|].
  cbn [fold_left]. apply IH. now apply nodup_set.
Qed.

Lemma wfm_remove m k : wfm m -> wfm (m_remove m k).
Proof.
  unfold wfm. induction m as [|[k0 e0] m IH]; cbn [m_remove]; intros H; [constructor|].
  inversion H; subst. destruct (key_eqb k0 k); [auto|constructor; auto].
Qed.
Lemma wfm_set m k e : wfm m -> wf_ent (k, e) -> wfm (m_set m k e).
Proof. intros H He. unfold m_set. constructor; [exact He|now apply wfm_remove]. Qed.
Lemma wfm_filter P m : wfm m -> wfm (filter P m).
Proof.
  unfold wfm. intros H. apply Forall_forall. intros x Hx. apply filter_In in Hx.
  rewrite Forall_forall in H. apply H. tauto.
Qed.
Lemma fold_put_wfm : forall es a, wfm es -> wfm a -> wfm (fold_left put es a).
Proof.
  induction es as [|[k e] es IH]; intros a He Ha; [exact Ha|].
  inversion He; subst. cbn [fold_left]. apply IH; [assumption|]. now apply wfm_set.
Qed.

(* ------------------------------------------------------------------- replay *)
Lemma replay_app rs1 rs2 m : replay (rs1 ++ rs2) m = replay rs2 (replay rs1 m).
Proof. unfold replay. apply fold_left_app. Qed.

Lemma replay_meq rs a b : meq a b -> meq (replay rs a) (replay rs b).
Proof. intros H k. rewrite !replay_get. now rewrite H. Qed.

Lemma apply_nodup m r : nodup m -> nodup (apply_rec m r).
Proof.
  intros Hn. destruct r as [k v|k v ms|k ms|k]; cbn [apply_rec].
  - now apply nodup_set.
  - destruct (plausible ms); [now apply nodup_set|exact Hn].
  - destruct (m_get m k) as [[v x]|]; [|exact Hn].
    destruct (ms =? NO_EXPIRY)%Z; [now apply nodup_set|].
    destruct (plausible ms); [now apply nodup_set|exact Hn].
  - now apply nodup_remove.
Qed.
Lemma replay_nodup : forall rs m, nodup m -> nodup (replay rs m).
Proof. induction rs as [|r rs IH]; intros m Hn; [exact Hn|]. apply IH. now apply apply_nodup. Qed.

Lemma wfm_get m k v e : wfm m -> m_get m k = Some (v, e) -> wf_ent (k, (v, e)).
Proof. intros H Hg. apply m_get_some_in in Hg. unfold wfm in H. rewrite Forall_forall in H. now apply H. Qed.

Lemma apply_wfm m r : wf_rec r -> wfm m -> wfm (apply_rec m r).
Proof.
  intros (Hk0 & Hk1 & Hr) Hm. destruct r as [k v|k v ms|k ms|k]; cbn [apply_rec rec_key] in *.
  - apply wfm_set; [exact Hm|]. repeat split; cbn [fst snd]; auto.
  - destruct (plausible ms) eqn:Ep; [|exact Hm].
    apply wfm_set; [exact Hm|]. repeat split; cbn [fst snd]; tauto.
  - destruct (m_get m k) as [[v x]|] eqn:Eg; [|exact Hm].
    destruct (wfm_get _ _ _ _ Hm Eg) as (_ & _ & Hv & _). cbn [fst snd] in Hv.
    destruct (ms =? NO_EXPIRY)%Z.
    + apply wfm_set; [exact Hm|]. repeat split; cbn [fst snd]; auto.
    + destruct (plausible ms) eqn:Ep; [|exact Hm].
      apply wfm_set; [exact Hm|]. repeat split; cbn [fst snd]; auto.
  - now apply wfm_remove.
Qed.
Lemma replay_wfm : forall rs m, Forall wf_rec rs -> wfm m -> wfm (replay rs m).
Proof.
  induction rs as [|r rs IH]; intros m Hr Hm; [exact Hm|]. inversion Hr; subst.
  apply IH; [assumption|]. now apply apply_wfm.
Qed.

(* two duplicate-free maps with the same lookups have the same number of entries *)
Lemma meq_nodup_length (a b : kvmap) : nodup a -> nodup b -> meq a b -> length a = length b.
Proof.
  intros Ha Hb He.
  assert (Hi : forall x y : kvmap, meq x y -> incl (map fst x) (map fst y)).
  { intros x y Hxy k Hk. destruct (in_dec (list_eq_dec N.eq_dec) k (map fst y)) as [H|H]; [exact H|].
    apply m_get_none_iff in H. rewrite <- Hxy in H. apply m_get_none_iff in H. contradiction. }
  pose proof (NoDup_incl_length Ha (Hi a b He)) as H1.
  assert (He' : meq b a) by (intros k; symmetry; apply He).
  pose proof (NoDup_incl_length Hb (Hi b a He')) as H2.
  rewrite !map_length in *. lia.
Qed.

(* dropping expired entries commutes with lookups *)
Lemma live_expired now ke : live now ke = negb (expired now (snd ke)).
Proof.
  unfold live, expired. destruct (snd (snd ke)) as [ms|]; [|reflexivity].
  destruct (now <? ms)%Z eqn:E1, (ms <=? now)%Z eqn:E2; try reflexivity; lia.
Qed.
Lemma drop_expired_filter now m :
  drop_expired now m = filter (fun ke => negb (expired now (snd ke))) m.
Proof. unfold drop_expired. apply filter_ext. intros ke. apply live_expired. Qed.

Lemma drop_expired_get now m k : nodup m ->
  m_get (drop_expired now m) k = seen now (m_get m k).
Proof.
  intros Hn. rewrite drop_expired_filter, m_get_filter by exact Hn.
  destruct (m_get m k) as [[v e]|]; [|reflexivity]. cbn [snd].
  rewrite seen_expired. destruct (expired now (v, e)); reflexivity.
Qed.

Lemma drop_expired_meq now a b : nodup a -> nodup b -> meq a b -> meq (drop_expired now a) (drop_expired now b).
Proof. intros Ha Hb He k. rewrite !drop_expired_get by assumption. now rewrite He. Qed.

(* --------------------------------------- one operation: what reaches the log *)
Definition TP_MAX : Z := 9223372036854%Z.   (* system_clock::time_point counts int64 nanoseconds *)
Definition kv_ok (k v : list N) : Prop := 0 < lenN k /\ lenN k <= 65535 /\ lenN v <= MAX_VALLEN.
(* the domain of the public API: validateKeyValue, ttl > 0, representable time points *)
Definition op_ok (now : Z) (o : mop) : Prop :=
  match o with
  | OSet k v => kv_ok k v
  | OSetTtl k v ttl => kv_ok k v /\ (0 < ttl)%Z /\ (now + ttl <= TP_MAX)%Z
  | OExpireAt k ms => (ms <= TP_MAX)%Z
  | _ => True
  end.

Lemma plausible_range ms : (0 < ms <= TP_MAX)%Z -> plausible ms = true.
Proof. unfold plausible, TP_MAX, NO_EXPIRY, MAX_PLAUSIBLE, two63. lia. Qed.

Lemma wfm_key m k e : wfm m -> m_get m k = Some e -> 0 < lenN k /\ lenN k <= MAX_KEYLEN.
Proof. intros H Hg. destruct e as [v e]. destruct (wfm_get _ _ _ _ H Hg) as (H0 & H1 & _). cbn [fst] in *. tauto. Qed.

Lemma replay_dels : forall (l : kvmap) A k,
  m_get (replay (map (fun ke => RDel (fst ke)) l) A) k =
  match m_get l k with Some _ => None | None => m_get A k end.
Proof.
  induction l as [|[k0 e0] l IH]; intros A k; [reflexivity|].
  cbn [map fst m_get]. unfold replay in *. cbn [fold_left apply_rec]. rewrite IH, m_get_remove.
  destruct (key_eqb k0 k); [destruct (m_get l k); reflexivity|reflexivity].
Qed.

Lemma mstep_recs_wf now vic s o : (0 <= now)%Z -> op_ok now o -> wfm (s_kv s) ->
  Forall wf_rec (recs_of (mstep now vic s o)).
Proof.
  intros Hnow Hok Hm. unfold recs_of.
  destruct o as [k v|k v ttl|k|k ms0|k| | |k g|k]; cbn [mstep op_ok] in *.
  - cbn [fst snd]. constructor; [|constructor]. destruct Hok as (H0 & H1 & H2).
    unfold wf_rec, MAX_KEYLEN. cbn [rec_key]. repeat split; auto; lia.
  - cbn [fst snd]. constructor; [|constructor]. destruct Hok as ((H0 & H1 & H2) & H3 & H4).
    unfold wf_rec, MAX_KEYLEN, in_i64, TP_MAX, two63 in *. cbn [rec_key]. repeat split; auto; lia.
  - destruct (m_get (s_kv s) k) as [e|] eqn:Eg; cbn [fst snd]; [|constructor].
    constructor; [|constructor]. destruct (wfm_key _ _ _ Hm Eg). unfold wf_rec. cbn [rec_key]. tauto.
  - destruct (m_get (s_kv s) k) as [[v e0]|] eqn:Eg; [|constructor].
    destruct (expired now (v, e0)); cbn [fst snd]; constructor; [|constructor].
    destruct (wfm_key _ _ _ Hm Eg). unfold wf_rec, in_i64, TP_MAX, two63 in *. cbn [rec_key].
    destruct (ms0 <=? 0)%Z eqn:E; repeat split; auto; lia.
  - destruct (m_get (s_kv s) k) as [[v [ms1|]]|] eqn:Eg; try constructor.
    destruct (ms1 <=? now)%Z; cbn [fst snd]; constructor; [|constructor].
    destruct (wfm_key _ _ _ Hm Eg). unfold wf_rec. cbn [rec_key]. repeat split; auto. apply NO_EXPIRY_i64.
  - cbn [fst snd]. apply Forall_forall. intros r Hr. apply in_map_iff in Hr. destruct Hr as ([k0 e0] & <- & Hin).
    unfold wfm in Hm. rewrite Forall_forall in Hm. destruct (Hm _ Hin) as (H0 & H1 & _). cbn [fst] in *.
    unfold wf_rec. cbn [rec_key]. tauto.
  - constructor.
  - destruct (m_get (s_kv s) k) as [[v [ms|]]|] eqn:Eg; try constructor.
    destruct (get_gen (s_gen s) k) as [g'|]; [|constructor].
    destruct (negb (g =? g')); [constructor|].
    destruct (now <? ms)%Z; cbn [fst snd]; constructor; [|constructor].
    destruct (wfm_key _ _ _ Hm Eg). unfold wf_rec. cbn [rec_key]. tauto.
  - pose proof (mstep_get_pure now vic s k) as [_ H]. unfold recs_of in H. cbn [mstep] in H. rewrite H. constructor.
Qed.

Lemma mstep_wfm now vic s o : (0 <= now)%Z -> op_ok now o -> wfm (s_kv s) ->
  wfm (s_kv (st_of (mstep now vic s o))).
Proof.
  intros Hnow Hok Hm. unfold st_of.
  destruct o as [k v|k v ttl|k|k ms0|k| | |k g|k]; cbn [mstep op_ok] in *.
  - cbn [fst s_kv]. destruct Hok as (H0 & H1 & H2). apply wfm_set; [exact Hm|].
    unfold wf_ent, MAX_KEYLEN. cbn [fst snd]. repeat split; auto; lia.
  - cbn [fst s_kv]. destruct Hok as ((H0 & H1 & H2) & H3 & H4). apply wfm_set; [exact Hm|].
    unfold wf_ent, MAX_KEYLEN. cbn [fst snd]. repeat split; auto; try lia. apply plausible_range. lia.
  - destruct (m_get (s_kv s) k); cbn [fst s_kv]; [now apply wfm_remove|exact Hm].
  - destruct (m_get (s_kv s) k) as [[v e0]|] eqn:Eg; [|exact Hm].
    destruct (expired now (v, e0)); cbn [fst s_kv]; [exact Hm|].
    destruct (wfm_get _ _ _ _ Hm Eg) as (H0 & H1 & H2 & _). cbn [fst snd] in *.
    apply wfm_set; [exact Hm|]. unfold wf_ent. cbn [fst snd]. repeat split; auto.
    apply plausible_range. destruct (ms0 <=? 0)%Z eqn:E; unfold TP_MAX in *; lia.
  - destruct (m_get (s_kv s) k) as [[v [ms1|]]|] eqn:Eg; try exact Hm.
    destruct (ms1 <=? now)%Z; cbn [fst s_kv]; [exact Hm|].
    destruct (wfm_get _ _ _ _ Hm Eg) as (H0 & H1 & H2 & _). cbn [fst snd] in *.
    apply wfm_set; [exact Hm|]. unfold wf_ent. cbn [fst snd]. repeat split; auto.
  - cbn [fst s_kv]. constructor.
  - cbn [fst s_kv]. now apply wfm_filter.
  - destruct (m_get (s_kv s) k) as [[v [ms|]]|]; try exact Hm.
    destruct (get_gen (s_gen s) k) as [g'|]; [|exact Hm].
    destruct (negb (g =? g')); [exact Hm|].
    destruct (now <? ms)%Z; cbn [fst s_kv]; [exact Hm|now apply wfm_remove].
  - pose proof (mstep_get_pure now vic s k) as [H _]. unfold st_of in H. cbn [mstep] in H. rewrite H. exact Hm.
Qed.

(* the files and the memory agree for every reader *)
Definition dsim (now : Z) (A kv : kvmap) : Prop := forall k, seen now (m_get A k) = seen now (m_get kv k).

Lemma dsim_mono now now' A kv : (now <= now')%Z -> dsim now A kv -> dsim now' A kv.
Proof.
  intros H Hs k. rewrite <- (seen_mono now now' (m_get A k)) by exact H.
  rewrite Hs. now apply seen_mono.
Qed.

(* replaying the records an operation appended, over a map that shows every reader what
   the in-memory map shows, gives again such a map: the log always replays to what is
   visible in memory *)
Lemma mstep_log now vic s o A : (0 <= now)%Z -> op_ok now o -> o <> OCompact ->
  dsim now A (s_kv s) -> dsim now (replay (recs_of (mstep now vic s o)) A) (s_kv (st_of (mstep now vic s o))).
Proof.
  intros Hnow Hok Hnc He. unfold recs_of, st_of, replay, dsim in *.
  destruct o as [k v|k v ttl|k|k ms0|k| | |k g|k]; cbn [mstep op_ok] in *.
  - cbn [fst snd s_kv fold_left apply_rec]. intros k'. rewrite !m_get_set.
    destruct (key_eqb k k'); [reflexivity|apply He].
  - cbn [fst snd s_kv fold_left apply_rec]. destruct Hok as (_ & H3 & H4).
    rewrite plausible_range by lia. intros k'. rewrite !m_get_set.
    destruct (key_eqb k k'); [reflexivity|apply He].
  - destruct (m_get (s_kv s) k); cbn [fst snd s_kv fold_left apply_rec]; [|exact He].
    intros k'. rewrite !m_get_remove. destruct (key_eqb k k'); [reflexivity|apply He].
  - destruct (m_get (s_kv s) k) as [[v e0]|] eqn:Eg; [|exact He].
    destruct (expired now (v, e0)) eqn:Ee; cbn [fst snd s_kv fold_left apply_rec]; [exact He|].
    pose proof (He k) as Hk. rewrite Eg, (seen_expired now v e0), Ee in Hk. apply seen_some in Hk.
    rewrite Hk.
    assert (Hp : plausible (if (ms0 <=? 0)%Z then 1%Z else ms0) = true).
    { apply plausible_range. destruct (ms0 <=? 0)%Z eqn:E; unfold TP_MAX in *; lia. }
    destruct (plausible_i64 _ Hp) as [_ Hne]. rewrite Hne, Hp.
    intros k'. rewrite !m_get_set. destruct (key_eqb k k'); [reflexivity|apply He].
  - destruct (m_get (s_kv s) k) as [[v [ms1|]]|] eqn:Eg; try exact He.
    destruct (ms1 <=? now)%Z eqn:Ee; cbn [fst snd s_kv fold_left apply_rec]; [exact He|].
    pose proof (He k) as Hk. rewrite Eg, (seen_expired now v (Some ms1)) in Hk.
    unfold expired in Hk. cbn [snd] in Hk. rewrite Ee in Hk. apply seen_some in Hk.
    rewrite Hk, Z.eqb_refl. intros k'. rewrite !m_get_set. destruct (key_eqb k k'); [reflexivity|apply He].
  - cbn [fst snd s_kv]. intros k'. change (fold_left apply_rec ?r ?a) with (replay r a).
    rewrite replay_dels. cbn [m_get]. pose proof (He k') as Hk.
    destruct (m_get (s_kv s) k'); [reflexivity|exact Hk].
  - congruence.
  - destruct (m_get (s_kv s) k) as [[v [ms|]]|]; try exact He.
    destruct (get_gen (s_gen s) k) as [g'|]; [|exact He].
    destruct (negb (g =? g')); [exact He|].
    destruct (now <? ms)%Z; cbn [fst snd s_kv fold_left apply_rec]; [exact He|].
    intros k'. rewrite !m_get_remove. destruct (key_eqb k k'); [reflexivity|apply He].
  - pose proof (mstep_get_pure now vic s k) as [H1 H2]. unfold st_of, recs_of in H1, H2. cbn [mstep] in H1, H2.
    rewrite H1, H2. exact He.
Qed.

Lemma filter_len_le {A} (P : A -> bool) (l : list A) : (length (filter P l) <= length l)%nat.
Proof. induction l as [|x l IH]; cbn [filter length]; [lia|]. destruct (P x); cbn [length]; lia. Qed.

Lemma length_remove (m : kvmap) k : (length (m_remove m k) <= length m)%nat.
Proof. induction m as [|[k0 e0] m IH]; cbn [m_remove length]; [lia|]. destruct (key_eqb k0 k); cbn [length]; lia. Qed.

Lemma mstep_len now vic s o : (length (s_kv (st_of (mstep now vic s o))) <= S (length (s_kv s)))%nat.
Proof.
  unfold st_of.
  assert (Hset : forall k e, (length (m_set (s_kv s) k e) <= S (length (s_kv s)))%nat).
  { intros k e. unfold m_set. cbn [length]. pose proof (length_remove (s_kv s) k). lia. }
  destruct o as [k v|k v ttl|k|k ms0|k| | |k g|k]; cbn [mstep].
  - cbn [fst s_kv]. apply Hset.
  - cbn [fst s_kv]. apply Hset.
  - destruct (m_get (s_kv s) k); cbn [fst s_kv]; [pose proof (length_remove (s_kv s) k)|]; cbn [fst]; lia.
  - destruct (m_get (s_kv s) k) as [[v e0]|]; [|cbn [fst]; lia].
    destruct (expired now (v, e0)); cbn [fst s_kv]; [cbn [fst]; lia|apply Hset].
  - destruct (m_get (s_kv s) k) as [[v [ms1|]]|]; try (cbn [fst]; lia).
    destruct (ms1 <=? now)%Z; cbn [fst s_kv]; [cbn [fst]; lia|apply Hset].
  - cbn [fst s_kv length]. lia.
  - cbn [fst s_kv]. pose proof (filter_len_le (fun ke : key * (list N * option Z) => negb (expired now (snd ke))) (s_kv s)). lia.
  - destruct (m_get (s_kv s) k) as [[v [ms|]]|]; try (cbn [fst]; lia).
    destruct (get_gen (s_gen s) k) as [g'|]; [|cbn [fst]; lia].
    destruct (negb (g =? g')); [cbn [fst]; lia|].
    destruct (now <? ms)%Z; cbn [fst s_kv]; [cbn [fst]; lia|pose proof (length_remove (s_kv s) k); lia].
  - pose proof (mstep_get_pure now vic s k) as [H _]. unfold st_of in H. cbn [mstep] in H. rewrite H. lia.
Qed.

(* the replayed map grows by at most one entry per operation *)
Definition grow (r : lrec) : nat := match r with RDel _ => 0%nat | _ => 1%nat end.
Lemma apply_len m r : (length (apply_rec m r) <= length m + grow r)%nat.
Proof.
  assert (Hset : forall k e, (length (m_set m k e) <= length m + 1)%nat).
  { intros k e. unfold m_set. cbn [length]. pose proof (length_remove m k). lia. }
  destruct r as [k v|k v ms|k ms|k]; cbn [apply_rec grow].
  - apply Hset.
  - destruct (plausible ms); [apply Hset|lia].
  - destruct (m_get m k) as [[v x]|]; [|lia].
    destruct (ms =? NO_EXPIRY)%Z; [apply Hset|]. destruct (plausible ms); [apply Hset|lia].
  - pose proof (length_remove m k). lia.
Qed.
Lemma replay_len : forall rs m, (length (replay rs m) <= length m + list_sum (map grow rs))%nat.
Proof.
  induction rs as [|r rs IH]; intros m; [unfold replay; cbn; lia|].
  change (list_sum (map grow (r :: rs))) with (grow r + list_sum (map grow rs))%nat.
  unfold replay in *. cbn [fold_left]. pose proof (IH (apply_rec m r)). pose proof (apply_len m r). lia.
Qed.
Lemma mstep_grow now vic s o : (list_sum (map grow (recs_of (mstep now vic s o))) <= 1)%nat.
Proof.
  unfold recs_of. destruct o as [k v|k v ttl|k|k ms0|k| | |k g|k]; cbn [mstep].
  - cbn. lia.
  - cbn. lia.
  - destruct (m_get (s_kv s) k); cbn; lia.
  - destruct (m_get (s_kv s) k) as [[v e0]|]; [|cbn; lia]. destruct (expired now (v, e0)); cbn; lia.
  - destruct (m_get (s_kv s) k) as [[v [ms1|]]|]; try (cbn; lia). destruct (ms1 <=? now)%Z; cbn; lia.
  - cbn [fst snd]. induction (s_kv s) as [|ke l IH]; [cbn; lia|].
    change (list_sum (map grow (map (fun ke0 => RDel (fst ke0)) (ke :: l)))) with
        (0 + list_sum (map grow (map (fun ke0 : key * (list N * option Z) => RDel (fst ke0)) l)))%nat. lia.
  - cbn. lia.
  - destruct (m_get (s_kv s) k) as [[v [ms|]]|]; try (cbn; lia).
    destruct (get_gen (s_gen s) k) as [g'|]; [|cbn; lia].
    destruct (negb (g =? g')); [cbn; lia|]. destruct (now <? ms)%Z; cbn; lia.
  - pose proof (mstep_get_pure now vic s k) as [_ H]. unfold recs_of in H. cbn [mstep] in H. rewrite H. cbn. lia.
Qed.
