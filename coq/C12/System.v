(* C12/System.v — the whole store (memory + snapshot + log, with compaction and clean
   restarts) against the reference map, for every history *)
From IoraVerif Require Import Common.Bytes C11.Model C11.Proofs C12.Spec C12.RefMap C12.Disk.
From Coq Require Import ZifyBool ZifyN ZifyNat.
Local Open Scope N_scope.

Lemma mop_eq_compact (o : mop) : o = OCompact \/ o <> OCompact.
Proof. destruct o; (left; reflexivity) || (right; discriminate). Qed.

Section System.
Variable crc : list N -> N.
Hypothesis crc32bit : forall l, crc l < 4294967296.

(* t = current time, c = operations so far, f = reference map, m0 = contents of the
   snapshot file, recs = records in the log file *)
Record Inv (t : Z) (c : nat) (y : sys) (f : rmap) (m0 : kvmap) (recs : list lrec) : Prop := {
  i_tmp : d_tmp (y_disk y) = None;
  i_snap : (d_snap (y_disk y) = None /\ m0 = []) \/
           (d_snap (y_disk y) = Some (enc_snapshot m0) /\ wfm m0 /\ lenN m0 <= 10000000);
  i_m0 : nodup m0;
  i_log : d_log (y_disk y) = enc_all crc recs;
  i_recs : Forall wf_rec recs;
  i_dsim : dsim t (replay recs m0) (s_kv (y_mem y));
  i_wfm : wfm (s_kv (y_mem y));
  i_nodup : nodup (s_kv (y_mem y));
  i_cache : cache_inv (y_mem y);
  i_sim : sim t (y_mem y) f;
  i_len : (length (s_kv (y_mem y)) <= c /\ length (replay recs m0) <= c)%nat
}.

Lemma enc_all_app a b : enc_all crc (a ++ b) = enc_all crc a ++ enc_all crc b.
Proof. unfold enc_all, enc_all_pre. now rewrite map_app, concat_app. Qed.

Lemma append_all : forall rs d,
  fold_left (append crc) rs d = mkDisk (d_snap d) (d_log d ++ enc_all crc rs) (d_tmp d).
Proof.
  induction rs as [|r rs IH]; intros d; cbn [fold_left].
  - unfold enc_all, enc_all_pre. cbn [map concat]. rewrite app_nil_r. now destruct d.
  - rewrite IH. unfold append. cbn [d_snap d_log d_tmp]. f_equal.
    rewrite <- app_assoc. reflexivity.
Qed.

Lemma inv_mono t t' c y f m0 recs : (t <= t')%Z -> Inv t c y f m0 recs -> Inv t' c y f m0 recs.
Proof.
  intros H [H1 H2 H3 H4 H5 H6 H7 H8 H9 H10 H11]. constructor; auto.
  - now apply (dsim_mono t t').
  - now apply (sim_mono t t').
Qed.

(* a clean restart: the constructor succeeds and the new in-memory map shows the same *)
Lemma load_inv t c y f m0 recs : Inv t c y f m0 recs ->
  exists m0', meq m0' m0 /\ nodup m0' /\
    load crc t (y_disk y) = Some (drop_expired t (replay recs m0'), y_disk y).
Proof.
  intros [H1 H2 H3 H4 H5 H6 H7 H8 H9 H10 H11]. unfold load.
  destruct (y_disk y) as [sn lg tm]. cbn [d_snap d_log d_tmp] in *. subst tm lg.
  assert (Hlog : forall mm, (let '(rs, good) := read_log crc (enc_all crc recs) in
            Some (drop_expired t (fold_left apply_rec rs mm),
                  mkDisk sn (firstn (N.to_nat good) (enc_all crc recs)) None)) =
            Some (drop_expired t (replay recs mm), mkDisk sn (enc_all crc recs) None)).
  { intros mm. rewrite (read_log_whole crc crc32bit recs H5).
    unfold lenN. rewrite Nat2N.id, firstn_all. reflexivity. }
  destruct H2 as [[-> ->]|(-> & Hw & Hl)].
  - exists []. split; [intros k; reflexivity|]. split; [constructor|]. apply Hlog.
  - exists (fold_left put m0 []). split; [|split].
    + intros k. rewrite fold_put_get by exact H3. cbn [m_get]. now destruct (m_get m0 k).
    + apply fold_put_nodup. constructor.
    + rewrite snapshot_roundtrip by assumption. apply Hlog.
Qed.

Lemma fresh_kv cap m : s_kv (fresh_state cap m) = m /\ s_cache (fresh_state cap m) = [].
Proof. unfold fresh_state. split; reflexivity. Qed.

Lemma step_reopen t c y f m0 recs vic : Inv t c y f m0 recs ->
  exists y', sys_step crc t vic y SReopen = Some (y', None) /\ Inv t c y' f m0 recs.
Proof.
  intros HI. destruct (load_inv t c y f m0 recs HI) as (m0' & Hm & Hn & Hl).
  destruct HI as [H1 H2 H3 H4 H5 H6 H7 H8 H9 H10 H11].
  cbn [sys_step]. rewrite Hl. eexists. split; [reflexivity|].
  set (X := replay recs m0').
  assert (HX : meq X (replay recs m0)) by (apply replay_meq; exact Hm).
  assert (HnX : nodup X) by (apply replay_nodup; exact Hn).
  assert (HnA : nodup (replay recs m0)) by (apply replay_nodup; exact H3).
  assert (Hget : forall k, m_get (drop_expired t X) k = seen t (m_get (replay recs m0) k)).
  { intros k. rewrite drop_expired_get by exact HnX. now rewrite HX. }
  destruct (fresh_kv (s_cap (y_mem y)) (drop_expired t X)) as [Ekv Ec].
  constructor; cbn [y_mem y_disk]; auto; rewrite ?Ekv.
  - intros k. rewrite Hget. now rewrite seen_idem.
  - rewrite drop_expired_filter. apply wfm_filter. apply replay_wfm; [exact H5|].
    (* the loaded snapshot map is well formed *)
    destruct H2 as [[_ ->]|(_ & Hw & _)].
    + assert (E : m0' = []).
      { destruct m0' as [|[k e] m]; [reflexivity|]. specialize (Hm k). cbn [m_get] in Hm.
        rewrite key_eqb_refl in Hm. discriminate. }
      rewrite E. constructor.
    + unfold wfm. apply Forall_forall. intros [k [v e]] Hin.
      apply (in_m_get _ _ _ Hn) in Hin. rewrite Hm in Hin. exact (wfm_get _ _ _ _ Hw Hin).
  - rewrite drop_expired_filter. now apply nodup_filter.
  - split; [intros _; exact Ec|]. intros k e. rewrite Ec. cbn [m_get]. discriminate.
  - intros k. rewrite Ekv, Hget, seen_idem. rewrite (H6 k). apply H10.
  - destruct H11 as [_ H12]. split; [|exact H12].
    rewrite drop_expired_filter.
    pose proof (filter_len_le (fun ke : key * (list N * option Z) => negb (expired t (snd ke))) X).
    pose proof (meq_nodup_length X (replay recs m0) HnX HnA HX). lia.
Qed.

Lemma step_op t c y f m0 recs vic op : (0 <= t)%Z -> Inv t c y f m0 recs -> op_ok t op -> op <> OCompact ->
  exists y', sys_step crc t vic y (SOp op) = Some (y', out_of (mstep t vic (y_mem y) op)) /\
             Inv t (S c) y' (ref_step t f op) m0 (recs ++ recs_of (mstep t vic (y_mem y) op)).
Proof.
  intros Ht [H1 H2 H3 H4 H5 H6 H7 H8 H9 H10 H11] Hok Hnc.
  pose proof (mstep_recs_wf t vic (y_mem y) op Ht Hok H7) as Hrw.
  pose proof (mstep_wfm t vic (y_mem y) op Ht Hok H7) as Hw.
  pose proof (mstep_log t vic (y_mem y) op _ Ht Hok Hnc H6) as Hlog.
  pose proof (mstep_nodup t vic (y_mem y) op H8) as Hn.
  pose proof (mstep_cache_inv t vic (y_mem y) op H8 H9) as Hc.
  pose proof (mstep_sim t vic (y_mem y) op f H8 H10) as Hs.
  pose proof (mstep_len t vic (y_mem y) op) as Hl1.
  pose proof (mstep_grow t vic (y_mem y) op) as Hg.
  pose proof (replay_len (recs_of (mstep t vic (y_mem y) op)) (replay recs m0)) as Hl2.
  cbn [sys_step]. unfold st_of, recs_of, out_of in *.
  destruct (mstep t vic (y_mem y) op) as [[s' nr] out]. cbn [fst snd] in *.
  assert (Hd : match op with
               | OCompact => compact_step3 (compact_step2 (compact_step1 t (s_kv (y_mem y)) (fold_left (append crc) nr (y_disk y))))
               | _ => fold_left (append crc) nr (y_disk y)
               end = fold_left (append crc) nr (y_disk y)) by (destruct op; congruence).
  rewrite Hd. eexists. split; [reflexivity|].
  rewrite append_all.
  constructor; cbn [y_mem y_disk d_snap d_log d_tmp]; auto.
  - now rewrite H4, enc_all_app.
  - apply Forall_app. split; assumption.
  - rewrite replay_app. exact Hlog.
  - rewrite replay_app. destruct H11. split; lia.
Qed.

Lemma step_compact t c y f m0 recs vic : Inv t c y f m0 recs -> N.of_nat c <= 10000000 ->
  exists y', sys_step crc t vic y (SOp OCompact) = Some (y', None) /\
             Inv t (S c) y' f (drop_expired t (s_kv (y_mem y))) [].
Proof.
  intros [H1 H2 H3 H4 H5 H6 H7 H8 H9 H10 H11] Hc.
  pose proof (mstep_nodup t vic (y_mem y) OCompact H8) as Hn.
  pose proof (mstep_cache_inv t vic (y_mem y) OCompact H8 H9) as Hca.
  pose proof (mstep_sim t vic (y_mem y) OCompact f H8 H10) as Hs.
  pose proof (mstep_len t vic (y_mem y) OCompact) as Hl1.
  unfold st_of in *. cbn [sys_step mstep fst snd fold_left] in *.
  eexists. split; [reflexivity|].
  unfold compact_step3, compact_step2, compact_step1. cbn [d_snap d_log d_tmp].
  pose proof (filter_len_le (fun ke : key * (list N * option Z) => negb (expired t (snd ke))) (s_kv (y_mem y))) as Hf.
  constructor; cbn [y_mem y_disk d_snap d_log d_tmp s_kv]; auto.
  - right. split; [reflexivity|]. split.
    + rewrite drop_expired_filter. now apply wfm_filter.
    + rewrite drop_expired_filter. unfold lenN. destruct H11. lia.
  - rewrite drop_expired_filter. now apply nodup_filter.
  - unfold replay. cbn [fold_left]. rewrite drop_expired_filter. intros k. reflexivity.
  - now apply wfm_filter.
  - unfold replay. cbn [fold_left]. rewrite drop_expired_filter. destruct H11. split; lia.
Qed.

(* ------------------------------------------------------------ every history *)
Definition sysop_ok (now : Z) (o : sysop) : Prop :=
  match o with SOp op => op_ok now op | SReopen => True end.
Fixpoint hist_ok (t : Z) (h : list (Z * key * sysop)) : Prop :=
  match h with
  | [] => True
  | (now, _, o) :: h' => (t <= now)%Z /\ sysop_ok now o /\ hist_ok now h'
  end.
Fixpoint last_time (t : Z) (h : list (Z * key * sysop)) : Z :=
  match h with [] => t | (now, _, _) :: h' => last_time now h' end.

Lemma sys_step_inv t c y f m0 recs vic o : (0 <= t)%Z -> Inv t c y f m0 recs -> sysop_ok t o ->
  N.of_nat c <= 10000000 ->
  exists y' m0' recs',
    sys_step crc t vic y o =
      Some (y', match o with SOp (OGet k) => ref_get t f k | _ => None end) /\
    Inv t (S c) y' (ref_sys_step t f o) m0' recs'.
Proof.
  intros Ht HI Hok Hc. destruct o as [op|].
  - destruct (mop_eq_compact op) as [->|Hnc].
    + destruct (step_compact t c y f m0 recs vic HI Hc) as (y' & E & HI'). eauto.
    + destruct (step_op t c y f m0 recs vic op Ht HI Hok Hnc) as (y' & E & HI').
      exists y', m0, (recs ++ recs_of (mstep t vic (y_mem y) op)). split; [|exact HI'].
      rewrite E. f_equal. f_equal.
      destruct op; try reflexivity; try (now contradiction Hnc).
      * unfold out_of; cbn [mstep]. destruct (m_get (s_kv (y_mem y)) k); reflexivity.
      * unfold out_of; cbn [mstep]. destruct (m_get (s_kv (y_mem y)) k) as [[v e0]|]; [|reflexivity].
        destruct (expired t (v, e0)); reflexivity.
      * unfold out_of; cbn [mstep]. destruct (m_get (s_kv (y_mem y)) k) as [[v [ms1|]]|]; try reflexivity.
        destruct (ms1 <=? t)%Z; reflexivity.
      * unfold out_of; cbn [mstep]. destruct (m_get (s_kv (y_mem y)) k) as [[v [ms|]]|]; try reflexivity.
        destruct (get_gen (s_gen (y_mem y)) k) as [g'|]; [|reflexivity].
        destruct (negb (gen =? g')); [reflexivity|]. destruct (t <? ms)%Z; reflexivity.
      * apply mstep_get; [apply (i_cache _ _ _ _ _ _ HI)|apply (i_sim _ _ _ _ _ _ HI)].
  - destruct (step_reopen t c y f m0 recs vic HI) as (y' & E & HI').
    exists y', m0, recs. split; [exact E|].
    destruct HI' as [H1 H2 H3 H4 H5 H6 H7 H8 H9 H10 [H11 H12]]. constructor; auto.
Qed.

Theorem sys_refines : forall h t c y f m0 recs, (0 <= t)%Z -> Inv t c y f m0 recs -> hist_ok t h ->
  N.of_nat c + lenN h <= 10000000 ->
  exists y' c' m0' recs',
    srun crc y h = Some (y', snd (ref_run f h)) /\
    Inv (last_time t h) c' y' (fst (ref_run f h)) m0' recs'.
Proof.
  induction h as [|[[now vic] o] h IH]; intros t c y f m0 recs Ht HI Hh Hc.
  - cbn [srun ref_run snd fst last_time]. exists y, c, m0, recs. split; [reflexivity|exact HI].
  - destruct Hh as (Hle & Hok & Hh'). rewrite lenN_cons in Hc.
    assert (HI' : Inv now c y f m0 recs) by (apply (inv_mono t now); assumption).
    assert (Hnow : (0 <= now)%Z) by lia.
    destruct (sys_step_inv now c y f m0 recs vic o Hnow HI' Hok ltac:(lia)) as (y1 & m1 & r1 & E & HI1).
    destruct (IH now (S c) y1 (ref_sys_step now f o) m1 r1 Hnow HI1 Hh' ltac:(lia)) as (y2 & c2 & m2 & r2 & E2 & HI2).
    exists y2, c2, m2, r2. cbn [srun ref_run last_time fst snd]. rewrite E, E2. split; [|exact HI2].
    f_equal. f_equal. destruct o as [[]|]; reflexivity.
Qed.

Lemma inv_init t cap : Inv t 0 (init_sys cap) (fun _ => None) [] [].
Proof.
  constructor; cbn [init_sys y_mem y_disk d_tmp d_snap d_log s_kv s_cache s_cap]; auto.
  - constructor.
  - intros k. reflexivity.
  - constructor.
  - constructor.
  - split; [intros _; reflexivity|]. intros k e. discriminate.
  - intros k. reflexivity.
Qed.
End System.

(* ------------------------------------------------ the statements used by Properties.v *)
Definition reads_agree (now : Z) (s : mstate) (f : rmap) : Prop :=
  (forall k, r_get now (s_kv s) k = ref_get now f k) /\
  (forall k, r_exists now (s_kv s) k = ref_exists now f k) /\
  (forall k, r_ttl now (s_kv s) k = ref_ttl now f k) /\
  (forall k, In k (r_keys now (s_kv s)) <-> ref_has now f k) /\
  NoDup (r_keys now (s_kv s)) /\
  r_size now (s_kv s) = lenN (r_keys now (s_kv s)) /\
  (forall vic k, out_of (mstep now vic s (OGet k)) = ref_get now f k).

Theorem store_refines_map crc (crc32bit : forall l, crc l < 4294967296) cap t0 h :
  (0 <= t0)%Z -> hist_ok t0 h -> lenN h <= 10000000 ->
  exists y',
    srun crc (init_sys cap) h = Some (y', snd (ref_run (fun _ => None) h)) /\
    cache_inv (y_mem y') /\
    forall now, (last_time t0 h <= now)%Z -> reads_agree now (y_mem y') (fst (ref_run (fun _ => None) h)).
Proof.
  intros Ht Hh Hl.
  destruct (sys_refines crc crc32bit h t0 0%nat (init_sys cap) (fun _ => None) [] [] Ht (inv_init crc t0 cap) Hh ltac:(lia))
    as (y' & c' & m0' & recs' & E & HI).
  exists y'. split; [exact E|]. split; [apply (i_cache _ _ _ _ _ _ _ HI)|].
  intros now Hnow. apply (inv_mono crc _ now) in HI; [|exact Hnow].
  pose proof (i_sim _ _ _ _ _ _ _ HI) as Hs. pose proof (i_nodup _ _ _ _ _ _ _ HI) as Hn.
  pose proof (i_cache _ _ _ _ _ _ _ HI) as Hc.
  repeat split.
  - intros k. now apply r_get_ref.
  - intros k. now apply r_exists_ref.
  - intros k. now apply r_ttl_ref.
  - now apply r_keys_ref.
  - now apply r_keys_ref.
  - now apply r_keys_nodup.
  - apply r_size_keys.
  - intros vic k. now apply mstep_get.
Qed.

(* facts about the reference map itself *)
Lemma ref_expired_invisible now f k v ms : f k = Some (v, Some ms) -> (ms <= now)%Z ->
  ref_get now f k = None /\ ref_exists now f k = false /\ ref_ttl now f k = None /\ ~ ref_has now f k.
Proof.
  intros Hf Hle. unfold ref_exists, ref_get, ref_ttl, ref_has. rewrite Hf. cbn [seen].
  destruct (now <? ms)%Z eqn:E; [lia|]. destruct k; repeat split; congruence.
Qed.

Lemma ref_overwrite_clears_expiry now now' f k v : k <> [] ->
  ref_get now' (ref_step now f (OSet k v)) k = Some v /\ ref_ttl now' (ref_step now f (OSet k v)) k = None.
Proof.
  intros Hk. unfold ref_get, ref_ttl. cbn [ref_step]. rewrite upd_eq, key_eqb_refl. cbn [seen].
  destruct k; [congruence|]. split; reflexivity.
Qed.

Lemma ref_restart_compaction_identity now f :
  ref_sys_step now f SReopen = f /\ ref_step now f OCompact = f /\ forall k g, ref_step now f (OEvict k g) = f.
Proof. repeat split. Qed.
