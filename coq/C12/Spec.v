(* C12/Spec.v — the reference: a plain map with a per-key absolute expiry.
   Short on purpose; everything the KVStore model does is compared with this. *)
From IoraVerif Require Import Common.Bytes C11.Model.
Local Open Scope Z_scope.

Definition rmap := key -> option (list N * option Z).        (* key -> (value, absolute expiry ms) *)

Definition upd (f : rmap) (k : key) (o : option (list N * option Z)) : rmap :=
  fun k' => if key_eqb k k' then o else f k'.

(* what a reader sees of an entry at time now: an entry whose expiry has passed is absent *)
Definition seen (now : Z) (o : option (list N * option Z)) : option (list N * option Z) :=
  match o with
  | Some (v, Some ms) => if now <? ms then o else None
  | _ => o
  end.

(* writes at wall-clock time now (compaction, eviction and reads change nothing) *)
Definition ref_step (now : Z) (f : rmap) (o : mop) : rmap :=
  match o with
  | OSet k v => upd f k (Some (v, None))                         (* a plain set clears an expiry *)
  | OSetTtl k v ttl => upd f k (Some (v, Some (now + ttl)))
  | ORemove k => upd f k None
  | OExpireAt k ms =>
    match seen now (f k) with
    | Some (v, _) => upd f k (Some (v, Some (if ms <=? 0 then 1 else ms)))   (* any past instant = expired *)
    | None => f
    end
  | OPersist k =>
    match seen now (f k) with
    | Some (v, Some _) => upd f k (Some (v, None))
    | _ => f
    end
  | OClear => fun _ => None
  | OCompact | OEvict _ _ | OGet _ => f
  end.

(* reads at time now *)
Definition ref_get (now : Z) (f : rmap) (k : key) : option (list N) :=
  match k with
  | [] => None
  | _ => match seen now (f k) with Some (v, _) => Some v | None => None end
  end.
Definition ref_exists (now : Z) (f : rmap) (k : key) : bool :=
  match ref_get now f k with Some _ => true | None => false end.
Definition ref_ttl (now : Z) (f : rmap) (k : key) : option Z :=      (* whole seconds *)
  match seen now (f k) with
  | Some (_, Some ms) => Some ((ms - now) / 1000)
  | _ => None
  end.
Definition ref_has (now : Z) (f : rmap) (k : key) : Prop := seen now (f k) <> None.   (* k is in keys() *)

(* a history of the whole store: restarts change nothing *)
Definition ref_sys_step (now : Z) (f : rmap) (o : sysop) : rmap :=
  match o with SOp op => ref_step now f op | SReopen => f end.

Fixpoint ref_run (f : rmap) (h : list (Z * key * sysop)) : rmap * list (option (list N)) :=
  match h with
  | [] => (f, [])
  | (now, _, o) :: h' =>
    let r := ref_run (ref_sys_step now f o) h' in
    (fst r, match o with SOp (OGet k) => ref_get now f k :: snd r | _ => snd r end)
  end.
