(* C12/RefMap.v — the in-memory store (map + expiry + bounded cache + eviction) refines
   the reference map of C12/Spec.v *)
From IoraVerif Require Import Common.Bytes C11.Model C11.Proofs C12.Spec.
From Coq Require Import ZifyBool ZifyN ZifyNat.
Local Open Scope N_scope.

Definition nodup (m : kvmap) : Prop := NoDup (map fst m).

Lemma seen_vis now o : seen now o = vis now o.
Proof. reflexivity. Qed.

(* ---------------------------------------------------------------- association lists *)
Lemma key_eqb_sym a b : key_eqb a b = key_eqb b a.
Proof.
  destruct (key_eqb a b) eqn:E1, (key_eqb b a) eqn:E2; try reflexivity.
  - apply key_eqb_eq in E1. subst. now rewrite key_eqb_refl in E2.
  - apply key_eqb_eq in E2. subst. now rewrite key_eqb_refl in E1.
Qed.

Lemma m_get_none_iff (m : kvmap) k : m_get m k = None <-> ~ In k (map fst m).
Proof.
  induction m as [|[k0 e0] m IH]; cbn [m_get map fst In]; [tauto|].
  destruct (key_eqb k0 k) eqn:E.
  - apply key_eqb_eq in E. subst. split; [discriminate|tauto].
  - apply key_eqb_neq in E. rewrite IH. tauto.
Qed.

Lemma m_get_some_in (m : kvmap) k e : m_get m k = Some e -> In (k, e) m.
Proof.
  induction m as [|[k0 e0] m IH]; cbn [m_get In]; [discriminate|].
  destruct (key_eqb k0 k) eqn:E.
  - apply key_eqb_eq in E. subst. intros H. left. congruence.
  - intros H. right. auto.
Qed.

Lemma in_m_get (m : kvmap) k e : nodup m -> In (k, e) m -> m_get m k = Some e.
Proof.
  unfold nodup. induction m as [|[k0 e0] m IH]; cbn [m_get map fst In]; [tauto|].
  intros Hn [H|H]; inversion Hn; subst.
  - inversion H; subst. now rewrite key_eqb_refl.
  - destruct (key_eqb k0 k) eqn:E; [|auto].
    apply key_eqb_eq in E. subst. exfalso. apply H2. apply (in_map fst) in H. exact H.
Qed.

Lemma in_keys_remove (m : kvmap) k k' : In k' (map fst (m_remove m k)) <-> In k' (map fst m) /\ k' <> k.
Proof.
  induction m as [|[k0 e0] m IH]; cbn [m_remove map fst In]; [tauto|].
  destruct (key_eqb k0 k) eqn:E.
  - apply key_eqb_eq in E. subst k0. rewrite IH. split; [tauto|].
    intros [[H|H] Hne]; [congruence|tauto].
  - apply key_eqb_neq in E. cbn [map fst In]. rewrite IH. split.
    + intros [H|H]; [subst; split; [tauto|congruence]|tauto].
    + tauto.
Qed.

Lemma nodup_remove m k : nodup m -> nodup (m_remove m k).
Proof.
  unfold nodup. induction m as [|[k0 e0] m IH]; cbn [m_remove map fst]; intros Hn; [constructor|].
  inversion Hn; subst. destruct (key_eqb k0 k); [auto|].
  cbn [map fst]. constructor; [|auto].
  rewrite in_keys_remove. tauto.
Qed.

Lemma nodup_set m k e : nodup m -> nodup (m_set m k e).
Proof.
  intros Hn. unfold nodup, m_set. cbn [map fst]. constructor.
  - rewrite in_keys_remove. tauto.
  - now apply nodup_remove.
Qed.

Lemma in_keys_filter (P : key * (list N * option Z) -> bool) (m : kvmap) k :
  In k (map fst (filter P m)) -> In k (map fst m).
Proof.
  rewrite !in_map_iff. intros (x & Hx & Hin). apply filter_In in Hin. exists x. tauto.
Qed.

Lemma nodup_filter P (m : kvmap) : nodup m -> nodup (filter P m).
Proof.
  unfold nodup. induction m as [|[k0 e0] m IH]; cbn [filter map fst]; intros Hn; [constructor|].
  inversion Hn; subst. destruct (P (k0, e0)); [|auto].
  cbn [map fst]. constructor; [|auto].
  intros Hc. apply in_keys_filter in Hc. tauto.
Qed.

Lemma m_get_filter P (m : kvmap) k : nodup m ->
  m_get (filter P m) k = match m_get m k with
                         | Some e => if P (k, e) then Some e else None
                         | None => None
                         end.
Proof.
  unfold nodup. induction m as [|[k0 e0] m IH]; cbn [filter m_get map fst]; intros Hn; [reflexivity|].
  inversion Hn; subst. destruct (key_eqb k0 k) eqn:E.
  - apply key_eqb_eq in E. subst k0. destruct (P (k, e0)); cbn [m_get].
    + now rewrite key_eqb_refl.
    + rewrite IH by assumption. apply m_get_none_iff in H1. now rewrite H1.
  - destruct (P (k0, e0)); cbn [m_get]; [rewrite E|]; now apply IH.
Qed.

(* ------------------------------------------------------------------ seen *)
Lemma seen_mono now now' o : (now <= now')%Z -> seen now' (seen now o) = seen now' o.
Proof.
  intros H. destruct o as [[v [ms|]]|]; cbn [seen]; try reflexivity.
  destruct (now <? ms)%Z eqn:E1; cbn [seen]; [reflexivity|].
  destruct (now' <? ms)%Z eqn:E2; [lia|reflexivity].
Qed.

Lemma seen_some now o e : seen now o = Some e -> o = Some e.
Proof.
  destruct o as [[v [ms|]]|]; cbn [seen]; try congruence.
  destruct (now <? ms)%Z; congruence.
Qed.

Lemma seen_expired now v e : seen now (Some (v, e)) = if expired now (v, e) then None else Some (v, e).
Proof.
  unfold expired. destruct e as [ms|]; cbn [seen snd]; [|reflexivity].
  destruct (now <? ms)%Z eqn:E1, (ms <=? now)%Z eqn:E2; try reflexivity; lia.
Qed.

Lemma seen_idem now o : seen now (seen now o) = seen now o.
Proof. apply seen_mono. lia. Qed.

(* --------------------------------------------------------- invariants of the store *)
Definition st_of (r : mstate * list lrec * option (list N)) : mstate := fst (fst r).
Definition recs_of (r : mstate * list lrec * option (list N)) : list lrec := snd (fst r).
Definition out_of (r : mstate * list lrec * option (list N)) : option (list N) := snd r.

(* every cache entry is the current entry of the map: value AND absolute expiry *)
Definition cache_sub (s : mstate) : Prop :=
  forall k e, m_get (s_cache s) k = Some e -> m_get (s_kv s) k = Some e.
Definition cache_off (s : mstate) : Prop := s_cap s = 0 -> s_cache s = [].   (* capacity 0 = no cache *)
Definition cache_inv (s : mstate) : Prop := cache_off s /\ cache_sub s.
(* the map shows every reader what the reference map shows *)
Definition sim (now : Z) (s : mstate) (f : rmap) : Prop :=
  forall k, seen now (m_get (s_kv s) k) = seen now (f k).

Lemma cache_put_sub s vic k e k' e' : (s_cap s = 0 -> s_cache s = []) ->
  m_get (cache_put s vic k e) k' = Some e' -> (k = k' /\ e' = e) \/ (k <> k' /\ m_get (s_cache s) k' = Some e').
Proof.
  intros H0. unfold cache_put. destruct (s_cap s =? 0) eqn:E0.
  { apply N.eqb_eq in E0. rewrite (H0 E0). cbn [m_get]. discriminate. }
  rewrite m_get_set. destruct (key_eqb k k') eqn:E.
  - apply key_eqb_eq in E. intros H. left. split; congruence.
  - apply key_eqb_neq in E. intros H. right. split; [exact E|].
    destruct (s_cap s <=? lenN (s_cache s)); [|exact H].
    rewrite m_get_remove in H. destruct (key_eqb vic k'); [discriminate|exact H].
Qed.

Lemma mstep_nodup now vic s o : nodup (s_kv s) -> nodup (s_kv (st_of (mstep now vic s o))).
Proof.
  intros Hn. unfold st_of. destruct o as [k v|k v ttl|k|k ms0|k| | |k g|k]; cbn [mstep].
  - cbn [fst s_kv]. now apply nodup_set.
  - cbn [fst s_kv]. now apply nodup_set.
  - destruct (m_get (s_kv s) k); cbn [fst s_kv]; [now apply nodup_remove|exact Hn].
  - destruct (m_get (s_kv s) k) as [[v e0]|]; [|exact Hn].
    destruct (expired now (v, e0)); cbn [fst s_kv]; [exact Hn|now apply nodup_set].
  - destruct (m_get (s_kv s) k) as [[v [ms0|]]|]; try exact Hn.
    destruct (ms0 <=? now)%Z; cbn [fst s_kv]; [exact Hn|now apply nodup_set].
  - cbn [fst s_kv]. constructor.
  - cbn [fst s_kv]. now apply nodup_filter.
  - destruct (m_get (s_kv s) k) as [[v [ms|]]|]; try exact Hn.
    destruct (get_gen (s_gen s) k) as [g'|]; [|exact Hn].
    destruct (negb (g =? g')); [exact Hn|].
    destruct (now <? ms)%Z; cbn [fst s_kv]; [exact Hn|now apply nodup_remove].
  - destruct k as [|b k]; [exact Hn|].
    destruct (match c_get (s_cache s) (b :: k) with
              | Some (v, e) => if negb (expired now (v, e)) then Some v else None
              | None => None end); [exact Hn|].
    destruct (m_get (s_kv s) (b :: k)) as [[v e]|]; [|exact Hn].
    destruct (expired now (v, e)); exact Hn.
Qed.

Lemma filter_nil_cache (P : key * (list N * option Z) -> bool) : filter P [] = [].
Proof. reflexivity. Qed.

Lemma mstep_cache_off now vic s o : cache_off s -> cache_off (st_of (mstep now vic s o)).
Proof.
  unfold cache_off, st_of. intros H0.
  assert (Hput : forall k e, s_cap s = 0 -> cache_put s vic k e = []).
  { intros k e E. unfold cache_put. rewrite E. cbn. now apply H0. }
  destruct o as [k v|k v ttl|k|k ms0|k| | |k g|k]; cbn [mstep].
  - cbn [fst s_cap s_cache]. intros E. now apply Hput.
  - cbn [fst s_cap s_cache]. intros E. now apply Hput.
  - destruct (m_get (s_kv s) k); cbn [fst s_cap s_cache]; [|exact H0]. intros E. now rewrite (H0 E).
  - destruct (m_get (s_kv s) k) as [[v e0]|]; [|exact H0].
    destruct (expired now (v, e0)); cbn [fst s_cap s_cache]; [exact H0|]. intros E. now rewrite (H0 E).
  - destruct (m_get (s_kv s) k) as [[v [ms0|]]|]; try exact H0.
    destruct (ms0 <=? now)%Z; cbn [fst s_cap s_cache]; [exact H0|]. intros E. now rewrite (H0 E).
  - cbn [fst s_cap s_cache]. reflexivity.
  - cbn [fst s_cap s_cache]. intros E. now rewrite (H0 E).
  - destruct (m_get (s_kv s) k) as [[v [ms|]]|]; try exact H0.
    destruct (get_gen (s_gen s) k) as [g'|]; [|exact H0].
    destruct (negb (g =? g')); [exact H0|].
    destruct (now <? ms)%Z; cbn [fst s_cap s_cache]; [exact H0|]. intros E. now rewrite (H0 E).
  - destruct k as [|b k]; [exact H0|].
    destruct (match c_get (s_cache s) (b :: k) with
              | Some (v, e) => if negb (expired now (v, e)) then Some v else None
              | None => None end); [exact H0|].
    destruct (m_get (s_kv s) (b :: k)) as [[v e]|]; [|exact H0].
    destruct (expired now (v, e)); [exact H0|]. cbn [fst s_cap s_cache]. intros E. now apply Hput.
Qed.

Lemma mstep_cache_sub now vic s o : nodup (s_kv s) -> cache_off s -> cache_sub s -> cache_sub (st_of (mstep now vic s o)).
Proof.
  intros Hn H0 Hc. unfold st_of, cache_sub.
  destruct o as [k v|k v ttl|k|k ms0|k| | |k g|k]; cbn [mstep].
  - cbn [fst s_kv s_cache]. intros k' e' H. rewrite m_get_set.
    apply (cache_put_sub _ _ _ _ _ _ H0) in H. destruct H as [[-> ->]|[Hne H]].
    + now rewrite key_eqb_refl.
    + destruct (key_eqb k k') eqn:E; [apply key_eqb_eq in E; congruence|auto].
  - cbn [fst s_kv s_cache]. intros k' e' H. rewrite m_get_set.
    apply (cache_put_sub _ _ _ _ _ _ H0) in H. destruct H as [[-> ->]|[Hne H]].
    + now rewrite key_eqb_refl.
    + destruct (key_eqb k k') eqn:E; [apply key_eqb_eq in E; congruence|auto].
  - destruct (m_get (s_kv s) k); cbn [fst s_kv s_cache]; [|exact Hc].
    intros k' e'. rewrite !m_get_remove. destruct (key_eqb k k'); [discriminate|auto].
  - destruct (m_get (s_kv s) k) as [[v e0]|]; [|exact Hc].
    destruct (expired now (v, e0)); cbn [fst s_kv s_cache]; [exact Hc|].
    intros k' e'. rewrite m_get_remove, m_get_set. destruct (key_eqb k k'); [discriminate|auto].
  - destruct (m_get (s_kv s) k) as [[v [ms0|]]|]; try exact Hc.
    destruct (ms0 <=? now)%Z; cbn [fst s_kv s_cache]; [exact Hc|].
    intros k' e'. rewrite m_get_remove, m_get_set. destruct (key_eqb k k'); [discriminate|auto].
  - cbn [fst s_kv s_cache m_get]. discriminate.
  - cbn [fst s_kv s_cache]. intros k' e' H.
    assert (Hs : forall (c : list (key * (list N * option Z))),
               m_get (filter (fun ce => match m_get (s_kv s) (fst ce) with
                                        | Some e => negb (expired now e) | None => false end) c) k' = Some e' ->
               m_get c k' = Some e' /\ match m_get (s_kv s) k' with
                                       | Some e => negb (expired now e) | None => false end = true).
    { induction c as [|[k0 e0] c IH]; cbn [filter m_get fst]; [discriminate|].
      destruct (match m_get (s_kv s) k0 with Some e => negb (expired now e) | None => false end) eqn:Ep; cbn [m_get].
      - destruct (key_eqb k0 k') eqn:E; [|exact IH].
        apply key_eqb_eq in E. subst k0. intros Hq. split; [exact Hq|exact Ep].
      - intros Hq. destruct (IH Hq) as [H1 H2]. destruct (key_eqb k0 k') eqn:E; [|split; assumption].
        apply key_eqb_eq in E. subst k0. rewrite Ep in H2. discriminate. }
    destruct (Hs _ H) as [H1 H2]. apply Hc in H1.
    rewrite m_get_filter by exact Hn. rewrite H1 in *. cbn [snd]. now rewrite H2.
  - destruct (m_get (s_kv s) k) as [[v [ms|]]|]; try exact Hc.
    destruct (get_gen (s_gen s) k) as [g'|]; [|exact Hc].
    destruct (negb (g =? g')); [exact Hc|].
    destruct (now <? ms)%Z; cbn [fst s_kv s_cache]; [exact Hc|].
    intros k' e'. rewrite !m_get_remove. destruct (key_eqb k k'); [discriminate|auto].
  - destruct k as [|b k]; [exact Hc|].
    destruct (match c_get (s_cache s) (b :: k) with
              | Some (v, e) => if negb (expired now (v, e)) then Some v else None
              | None => None end); [exact Hc|].
    destruct (m_get (s_kv s) (b :: k)) as [[v e]|] eqn:Eg; [|exact Hc].
    destruct (expired now (v, e)); [exact Hc|]. cbn [fst s_kv s_cache].
    intros k' e' H. apply (cache_put_sub _ _ _ _ _ _ H0) in H. destruct H as [[<- ->]|[_ H]]; [exact Eg|auto].
Qed.

Lemma mstep_cache_inv now vic s o : nodup (s_kv s) -> cache_inv s -> cache_inv (st_of (mstep now vic s o)).
Proof.
  intros Hn [H0 Hc]. split; [now apply mstep_cache_off|now apply mstep_cache_sub].
Qed.

Lemma upd_eq f k o k' : upd f k o k' = if key_eqb k k' then o else f k'.
Proof. reflexivity. Qed.

(* every write keeps the map and the reference map in step; compaction and eviction
   remove only entries no reader could see *)
Lemma mstep_sim now vic s o f : nodup (s_kv s) -> sim now s f ->
  sim now (st_of (mstep now vic s o)) (ref_step now f o).
Proof.
  intros Hn Hs. unfold st_of, sim.
  destruct o as [k v|k v ttl|k|k ms0|k| | |k g|k]; cbn [mstep ref_step].
  - cbn [fst s_kv]. intros k'. rewrite m_get_set, upd_eq. destruct (key_eqb k k'); [reflexivity|apply Hs].
  - cbn [fst s_kv]. intros k'. rewrite m_get_set, upd_eq. destruct (key_eqb k k'); [reflexivity|apply Hs].
  - intros k'. rewrite upd_eq.
    destruct (m_get (s_kv s) k) as [e|] eqn:Eg; cbn [fst s_kv].
    + rewrite m_get_remove. destruct (key_eqb k k'); [reflexivity|apply Hs].
    + destruct (key_eqb k k') eqn:E; [|apply Hs]. apply key_eqb_eq in E. subst k'. now rewrite Eg.
  - pose proof (Hs k) as Hk.
    destruct (m_get (s_kv s) k) as [[v e0]|] eqn:Eg.
    + rewrite seen_expired in Hk. destruct (expired now (v, e0)).
      * rewrite <- Hk. exact Hs.
      * rewrite <- Hk. cbn [fst s_kv]. intros k'. rewrite m_get_set, upd_eq.
        destruct (key_eqb k k'); [reflexivity|apply Hs].
    + cbn [seen] in Hk. rewrite <- Hk. exact Hs.
  - pose proof (Hs k) as Hk.
    destruct (m_get (s_kv s) k) as [[v [ms1|]]|] eqn:Eg.
    + rewrite seen_expired in Hk. unfold expired in Hk. cbn [snd] in Hk.
      destruct (ms1 <=? now)%Z; rewrite <- Hk; [exact Hs|].
      cbn [fst s_kv]. intros k'. rewrite m_get_set, upd_eq.
      destruct (key_eqb k k'); [reflexivity|apply Hs].
    + cbn [seen] in Hk. rewrite <- Hk. exact Hs.
    + cbn [seen] in Hk. rewrite <- Hk. exact Hs.
  - cbn [fst s_kv m_get]. reflexivity.
  - cbn [fst s_kv]. intros k'. rewrite m_get_filter by exact Hn. rewrite <- Hs.
    destruct (m_get (s_kv s) k') as [[v e]|]; [|reflexivity]. cbn [snd].
    destruct (expired now (v, e)) eqn:E; cbn [negb].
    + rewrite seen_expired, E. reflexivity.
    + reflexivity.
  - destruct (m_get (s_kv s) k) as [[v [ms|]]|] eqn:Eg; try exact Hs.
    destruct (get_gen (s_gen s) k) as [g'|]; [|exact Hs].
    destruct (negb (g =? g')); [exact Hs|].
    destruct (now <? ms)%Z eqn:El; cbn [fst s_kv]; [exact Hs|].
    intros k'. rewrite m_get_remove. destruct (key_eqb k k') eqn:E; [|apply Hs].
    apply key_eqb_eq in E. subst k'. rewrite <- Hs, Eg. cbn [seen]. now rewrite El.
  - destruct k as [|b k]; [exact Hs|].
    destruct (match c_get (s_cache s) (b :: k) with
              | Some (v, e) => if negb (expired now (v, e)) then Some v else None
              | None => None end); [exact Hs|].
    destruct (m_get (s_kv s) (b :: k)) as [[v e]|]; [|exact Hs].
    destruct (expired now (v, e)); exact Hs.
Qed.

(* a get — through the cache or not — returns what the reference map returns *)
Lemma mstep_get now vic s k f : cache_inv s -> sim now s f ->
  out_of (mstep now vic s (OGet k)) = ref_get now f k.
Proof.
  intros [_ Hc] Hs. unfold out_of, ref_get. cbn [mstep]. destruct k as [|b k]; [reflexivity|].
  set (kk := b :: k). pose proof (Hs kk) as Hk. unfold c_get.
  destruct (m_get (s_cache s) kk) as [[v e]|] eqn:Ec.
  - apply Hc in Ec. rewrite Ec in *. rewrite seen_expired in Hk.
    destruct (expired now (v, e)) eqn:Ee; cbn [negb]; rewrite <- Hk; reflexivity.
  - destruct (m_get (s_kv s) kk) as [[v e]|] eqn:Eg.
    + rewrite seen_expired in Hk. destruct (expired now (v, e)); rewrite <- Hk; reflexivity.
    + cbn [seen] in Hk. rewrite <- Hk. reflexivity.
Qed.

(* a get changes neither the map nor the log *)
Lemma mstep_get_pure now vic s k :
  s_kv (st_of (mstep now vic s (OGet k))) = s_kv s /\ recs_of (mstep now vic s (OGet k)) = [].
Proof.
  unfold st_of, recs_of. cbn [mstep]. destruct k as [|b k]; [split; reflexivity|].
  destruct (match c_get (s_cache s) (b :: k) with
            | Some (v, e) => if negb (expired now (v, e)) then Some v else None
            | None => None end); [split; reflexivity|].
  destruct (m_get (s_kv s) (b :: k)) as [[v e]|]; [|split; reflexivity].
  destruct (expired now (v, e)); split; reflexivity.
Qed.

Lemma sim_mono now now' s f : (now <= now')%Z -> sim now s f -> sim now' s f.
Proof.
  intros H Hs k. rewrite <- (seen_mono now now' (m_get (s_kv s) k)) by exact H.
  rewrite Hs. now apply seen_mono.
Qed.

(* ------------------------------------------------ the other read paths, against the map *)
Lemma r_get_ref now s f k : sim now s f -> r_get now (s_kv s) k = ref_get now f k.
Proof.
  intros Hs. unfold r_get, ref_get. destruct k as [|b k]; [reflexivity|].
  rewrite <- Hs. destruct (m_get (s_kv s) (b :: k)) as [[v e]|]; [|reflexivity].
  rewrite seen_expired. destruct (expired now (v, e)); reflexivity.
Qed.

Lemma r_exists_ref now s f k : sim now s f -> r_exists now (s_kv s) k = ref_exists now f k.
Proof. intros Hs. unfold r_exists, ref_exists. now rewrite (r_get_ref now s f k Hs). Qed.

Lemma r_ttl_ref now s f k : sim now s f -> r_ttl now (s_kv s) k = ref_ttl now f k.
Proof.
  intros Hs. unfold r_ttl, ref_ttl. rewrite <- Hs.
  destruct (m_get (s_kv s) k) as [[v [ms|]]|]; cbn [seen]; try reflexivity.
  destruct (ms <=? now)%Z eqn:E1, (now <? ms)%Z eqn:E2; try reflexivity; lia.
Qed.

Lemma r_keys_ref now s f k : nodup (s_kv s) -> sim now s f ->
  (In k (r_keys now (s_kv s)) <-> ref_has now f k).
Proof.
  intros Hn Hs. unfold r_keys, ref_has. rewrite <- Hs.
  set (P := fun ke : key * (list N * option Z) => negb (expired now (snd ke))).
  assert (Hi : In k (map fst (filter P (s_kv s))) <-> m_get (filter P (s_kv s)) k <> None).
  { pose proof (m_get_none_iff (filter P (s_kv s)) k) as H.
    destruct (m_get (filter P (s_kv s)) k); split; intros H1; try congruence.
    - destruct (in_dec (list_eq_dec N.eq_dec) k (map fst (filter P (s_kv s)))) as [Hin|Hin]; [exact Hin|].
      apply H in Hin. discriminate.
    - apply H in H1; [contradiction|reflexivity]. }
  rewrite Hi. rewrite m_get_filter by exact Hn. subst P. cbn beta.
  destruct (m_get (s_kv s) k) as [[v e]|]; [|cbn [seen]; tauto].
  cbn [snd]. rewrite seen_expired. destruct (expired now (v, e)); cbn [negb]; split; congruence.
Qed.

Lemma r_keys_nodup now s : nodup (s_kv s) -> NoDup (r_keys now (s_kv s)).
Proof. intros Hn. unfold r_keys. now apply nodup_filter. Qed.

Lemma r_size_keys now (m : kvmap) : r_size now m = lenN (r_keys now m).
Proof.
  unfold r_size, r_keys, lenN. rewrite map_length.
  assert (H : (length (filter (fun ke : key * (list N * option Z) => expired now (snd ke)) m) +
               length (filter (fun ke : key * (list N * option Z) => negb (expired now (snd ke))) m) = length m)%nat).
  { induction m as [|[k e] m IH]; [reflexivity|].
    cbn [filter snd]. destruct (expired now e); cbn [negb length]; lia. }
  lia.
Qed.
