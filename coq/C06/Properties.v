(* C06/Properties.v — the property theorems for C06 and nothing else. *)
From IoraVerif Require Import Common.Bytes Common.Assoc C06.Model C06.Proofs.
Local Open Scope N_scope.

(* 1. Every state reachable from the start is well formed: the peer index maps an address to an
      OPEN listener-side session whose peer is that address (so a datagram is never handed to a
      session of another peer, and the lookup never dangles). *)
Theorem udp_index_well_formed : forall c lids h,
  hist_ok c (uinit lids) h -> wf (fst (urun c (uinit lids) h)).
Proof. intros c lids h H. apply run_wf; [apply init_wf|exact H]. Qed.
Print Assumptions udp_index_well_formed.

(* 2. One datagram read on a listener (1 <= size <= ioReadChunk; the default chunk is 64 KiB, above
      the largest UDP payload 65507) produces exactly one data event carrying the complete payload,
      on a session whose peer is the sender and which is the sender's index entry afterwards; an
      accept precedes it iff the sender was not indexed (and then the session cap must allow it). *)
Theorem udp_one_datagram_one_event : forall c now st lid from dg,
  wf st -> dg <> [] -> lenN dg <= c_chunk c -> (aget (u_pidx st) from = None -> room c st) ->
  let r := ustep c now st (URecv lid from dg) in
  exists sid s,
    aget (u_pidx (fst r)) from = Some sid /\ aget (u_sess (fst r)) sid = Some s /\ ss_peer s = from /\
    ((aget (u_pidx st) from = Some sid /\ snd r = [EData sid dg]) \/
     (aget (u_pidx st) from = None /\ snd r = [EAccept sid from; EData sid dg])).
Proof. exact recv_listener_one_event. Qed.
Print Assumptions udp_one_datagram_one_event.

Theorem udp_client_datagram_one_event : forall c now st sid s dg,
  aget (u_sess st) sid = Some s -> lenN dg <= c_chunk c ->
  snd (ustep c now st (UCRecv sid dg)) = [EData sid dg].
Proof. exact recv_client_one_event. Qed.
Print Assumptions udp_client_datagram_one_event.

(* 3. The mapping is stable: over ANY history that does not close session s (by the application,
      by a send error / back-pressure, or by idle GC), the index entry k -> s stays; with 2, the
      next datagram from k is delivered on s without a new accept — whatever other sessions to the
      same peer were opened and closed meanwhile. *)
Theorem udp_mapping_stable : forall c k s h st,
  wf st -> hist_ok c st h -> aget (u_pidx st) k = Some s ->
  ~ In (EClose s) (snd (urun c st h)) -> aget (u_pidx (fst (urun c st h))) k = Some s.
Proof. intros c k s h st. exact (mapping_stable_run c k s h st). Qed.
Print Assumptions udp_mapping_stable.

(* 4. Sends: over ANY history from the start (any kernel answers, queue bounds, closes, GC), the
      emitted datagrams carry pairwise different send-command numbers (no send is emitted twice),
      and each is an entry (number, destination, payload) of the send log ... *)
Theorem udp_emissions_are_sends : forall c lids h,
  let r := urun c (uinit lids) h in
  NoDup (tags (emits (snd r))) /\ NoDup (tags (u_log (fst r))) /\
  forall d, In d (emits (snd r)) -> In d (u_log (fst r)).
Proof. exact emissions_are_sends. Qed.
Print Assumptions udp_emissions_are_sends.

(* 5. ... and the send log is exactly: one entry per send command that reached an open session,
      with that session's peer as destination and the command's bytes as payload. *)
Theorem udp_send_log : forall c now st o, u_log (fst (ustep c now st o)) = u_log st ++ logged st o.
Proof. exact log_step. Qed.
Print Assumptions udp_send_log.

(* ------------------------------------------------ non-vacuity *)
Definition demo_cfg : cfg := mkCfg 65536 2 false 0 10000.
Definition demo : list (Z * uop) :=
  [ (0%Z, URecv 1 7 [104; 105]);          (* peer 7 -> accept sid 1 *)
    (0%Z, UVia 2 1 7);                    (* a second session to peer 7 through the listener *)
    (0%Z, USend 1 [1] KAgain);            (* queued on the listener *)
    (0%Z, USend 2 [2] KOk);
    (0%Z, UClose 2);                      (* closing the via session must not unmap sid 1 *)
    (1%Z, URecv 1 7 [106]);
    (1%Z, UFlushL 1 [KOk]) ].
Example demo_ok : hist_ok demo_cfg (uinit [1]) demo.
Proof. cbn. repeat split; lia. Qed.
Example demo_runs :
  snd (urun demo_cfg (uinit [1]) demo) =
  [EAccept 1 7; EData 1 [104; 105]; EConnect 2 7; EEmit (inl 1) 1 7 [2]; EClose 2; EData 1 [106]; EEmit (inl 1) 0 7 [1]].
Proof. vm_compute. reflexivity. Qed.
