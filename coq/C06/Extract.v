(* C06/Extract.v — extraction of the UDP bookkeeping model (ExtrOcamlBasic only) *)
From IoraVerif Require Import C06.Model.
Require Import ExtrOcamlBasic.
Extraction Language OCaml.
Extraction "../build/ocaml/c06_model.ml" ustep uinit urun.
