(* C06/Proofs.v — lemmas about C06/Model.v *)
From IoraVerif Require Import Common.Bytes Common.Assoc C06.Model.
From Coq Require Import ZifyBool ZifyN ZifyNat Permutation.
Local Open Scope N_scope.

(* ------------------------------------------------------------ well-formed states *)
Record wf (st : ust) : Prop := {
  (* the peer index maps an address to an open listener-side session of that very peer *)
  wf_idx : forall k sid, aget (u_pidx st) k = Some sid ->
           exists s lid, aget (u_sess st) sid = Some s /\ ss_peer s = k /\ ss_role s = RPeer lid;
  (* session ids are below the counter *)
  wf_ids : forall sid s, aget (u_sess st) sid = Some s -> sid < u_next st
}.

(* connect()/connectViaListener() take their id from the counter *)
Definition op_ok (st : ust) (o : uop) : Prop :=
  match o with
  | UConnect sid _ | UVia sid _ _ => u_next st <= sid
  | _ => True
  end.

Lemma close_sess_sess st sid sid' :
  aget (u_sess (fst (close_sess st sid))) sid' =
  if sid =? sid' then None else aget (u_sess st) sid'.
Proof.
  unfold close_sess. destruct (aget (u_sess st) sid) as [s|] eqn:E; cbn [fst u_sess].
  - apply aget_adel.
  - destruct (sid =? sid') eqn:E1; [|reflexivity]. apply N.eqb_eq in E1. now subst.
Qed.

Lemma close_sess_next st sid : u_next (fst (close_sess st sid)) = u_next st.
Proof. unfold close_sess. destruct (aget (u_sess st) sid); reflexivity. Qed.

(* what closing does to the index: only the closing session's own entry can go *)
Lemma close_sess_pidx st sid k : wf st ->
  aget (u_pidx (fst (close_sess st sid))) k =
  match aget (u_pidx st) k with
  | Some owner => if owner =? sid then None else Some owner
  | None => None
  end.
Proof.
  intros Hw. unfold close_sess. destruct (aget (u_sess st) sid) as [s|] eqn:Es; cbn [fst u_pidx].
  - destruct (ss_role s) as [|lid] eqn:Er.
    + destruct (aget (u_pidx st) k) as [owner|] eqn:Ek; [|reflexivity].
      destruct (owner =? sid) eqn:Eo; [|reflexivity]. apply N.eqb_eq in Eo. subst owner.
      destruct (wf_idx st Hw k sid Ek) as (s' & lid & Hs & _ & Hr). congruence.
    + destruct (aget (u_pidx st) (ss_peer s)) as [o2|] eqn:Ep.
      * destruct (o2 =? sid) eqn:E2.
        -- apply N.eqb_eq in E2. subst o2. rewrite aget_adel.
           destruct (ss_peer s =? k) eqn:Ekk.
           ++ apply N.eqb_eq in Ekk. subst k. now rewrite Ep, N.eqb_refl.
           ++ destruct (aget (u_pidx st) k) as [owner|] eqn:Ek; [|reflexivity].
              destruct (owner =? sid) eqn:Eo; [|reflexivity]. apply N.eqb_eq in Eo. subst owner.
              destruct (wf_idx st Hw k sid Ek) as (s' & lid' & Hs & Hp & _).
              assert (s' = s) by congruence. subst s'. apply N.eqb_neq in Ekk. congruence.
        -- destruct (aget (u_pidx st) k) as [owner|] eqn:Ek; [|reflexivity].
           destruct (owner =? sid) eqn:Eo; [|reflexivity]. apply N.eqb_eq in Eo. subst owner.
           destruct (wf_idx st Hw k sid Ek) as (s' & lid' & Hs & Hp & _).
           assert (s' = s) by congruence. subst s'. rewrite Hp in Ep. rewrite Ek in Ep.
           apply N.eqb_neq in E2. congruence.
      * destruct (aget (u_pidx st) k) as [owner|] eqn:Ek; [|reflexivity].
        destruct (owner =? sid) eqn:Eo; [|reflexivity]. apply N.eqb_eq in Eo. subst owner.
        destruct (wf_idx st Hw k sid Ek) as (s' & lid' & Hs & Hp & _).
        assert (s' = s) by congruence. subst s'. congruence.
  - destruct (aget (u_pidx st) k) as [owner|] eqn:Ek; [|reflexivity].
    destruct (owner =? sid) eqn:Eo; [|reflexivity]. apply N.eqb_eq in Eo. subst owner.
    destruct (wf_idx st Hw k sid Ek) as (s' & lid' & Hs & _). congruence.
Qed.

Lemma close_wf st sid : wf st -> wf (fst (close_sess st sid)).
Proof.
  intros Hw. constructor.
  - intros k sid' Hk. rewrite (close_sess_pidx st sid k Hw) in Hk.
    destruct (aget (u_pidx st) k) as [owner|] eqn:Ek; [|discriminate].
    destruct (owner =? sid) eqn:Eo; [discriminate|]. inversion Hk; subst sid'.
    destruct (wf_idx st Hw k owner Ek) as (s & lid & Hs & Hp & Hr).
    exists s, lid. rewrite close_sess_sess. rewrite N.eqb_sym, Eo. auto.
  - intros sid' s Hs. rewrite close_sess_sess in Hs. rewrite close_sess_next.
    destruct (sid =? sid'); [discriminate|]. now apply (wf_ids st Hw sid' s).
Qed.

Lemma close_events st sid :
  snd (close_sess st sid) = match aget (u_sess st) sid with Some _ => [EClose sid] | None => [] end.
Proof. unfold close_sess. destruct (aget (u_sess st) sid); reflexivity. Qed.

Lemma close_noop st sid : aget (u_sess st) sid = None -> close_sess st sid = (st, []).
Proof. intros H. unfold close_sess. now rewrite H. Qed.

(* touching a session keeps the state well formed *)
Lemma touch_wf st sid s now : wf st -> aget (u_sess st) sid = Some s ->
  wf (set_sess st (aset (u_sess st) sid (touch s now))).
Proof.
  intros Hw Hs. constructor; cbn [set_sess u_pidx u_sess u_next].
  - intros k sid' Hk. destruct (wf_idx st Hw k sid' Hk) as (s' & lid & Hs' & Hp & Hr).
    rewrite aget_aset. destruct (sid =? sid') eqn:E.
    + apply N.eqb_eq in E. subst sid'. assert (s' = s) by congruence. subst s'.
      exists (touch s now), lid. auto.
    + exists s', lid. auto.
  - intros sid' s' Hs'. rewrite aget_aset in Hs'. destruct (sid =? sid') eqn:E.
    + apply N.eqb_eq in E. subst sid'. now apply (wf_ids st Hw sid s).
    + now apply (wf_ids st Hw sid' s').
Qed.

Lemma set_q_wf st k q : wf st -> wf (set_q st k q).
Proof. intros [H1 H2]. constructor; cbn [set_q u_pidx u_sess u_next]; assumption. Qed.

Lemma with_log_wf st t l : wf st -> wf (mkU (u_sess st) (u_pidx st) (u_q st) (u_next st) t l).
Proof. intros [H1 H2]. constructor; cbn [u_pidx u_sess u_next]; assumption. Qed.

Lemma bump_wf st sid : wf st -> wf (bump_next st sid).
Proof.
  intros [H1 H2]. constructor; cbn [bump_next u_pidx u_sess u_next]; [assumption|].
  intros sid' s Hs. specialize (H2 sid' s Hs). lia.
Qed.

(* adding a fresh session *)
Lemma add_sess_wf st sid s pidx' : wf st -> u_next st <= sid ->
  (forall k sid', aget pidx' k = Some sid' ->
     (sid' = sid /\ ss_peer s = k /\ exists lid, ss_role s = RPeer lid) \/ aget (u_pidx st) k = Some sid') ->
  wf (mkU (aset (u_sess st) sid s) pidx' (u_q st) (N.max (u_next st) (sid + 1)) (u_tag st) (u_log st)).
Proof.
  intros Hw Hfresh Hp. constructor; cbn [u_pidx u_sess u_next].
  - intros k sid' Hk. destruct (Hp k sid' Hk) as [(-> & Hpe & lid & Hr)|Hold].
    + exists s, lid. rewrite aget_aset, N.eqb_refl. auto.
    + destruct (wf_idx st Hw k sid' Hold) as (s' & lid & Hs' & Hpe & Hr).
      exists s', lid. rewrite aget_aset. destruct (sid =? sid') eqn:E; [|auto].
      apply N.eqb_eq in E. subst sid'. pose proof (wf_ids st Hw sid s' Hs'). lia.
  - intros sid' s' Hs'. rewrite aget_aset in Hs'. destruct (sid =? sid') eqn:E.
    + apply N.eqb_eq in E. subst sid'. lia.
    + pose proof (wf_ids st Hw sid' s' Hs'). lia.
Qed.

(* GC = a sequence of closes *)
Definition gc_fold (c : cfg) (now : Z) (l : list (N * sess)) (acc : ust * list uev) : ust * list uev :=
  fold_left (fun (acc : ust * list uev) (ks : N * sess) =>
               if (c_idle c <? now - ss_last (snd ks))%Z
               then let r := close_sess (fst acc) (fst ks) in (fst r, snd acc ++ snd r)
               else acc) l acc.

Lemma gc_fold_wf c now : forall l acc, wf (fst acc) -> wf (fst (gc_fold c now l acc)).
Proof.
  induction l as [|ks l IH]; intros acc Hw; [exact Hw|].
  unfold gc_fold in *. cbn [fold_left]. apply IH.
  destruct (c_idle c <? now - ss_last (snd ks))%Z; [|exact Hw]. cbn [fst]. now apply close_wf.
Qed.

Theorem step_wf c now st o : wf st -> op_ok st o -> wf (fst (ustep c now st o)).
Proof.
  intros Hw Hok. destruct o as [lid from dg|sid dg|sid peer|sid lid peer|sid dg a|lid ans|sid ans|sid|]; cbn [ustep op_ok] in *.
  - destruct dg as [|b dg']; [exact Hw|].
    destruct (aget (u_pidx st) from) as [sid|] eqn:Ei.
    + destruct (aget (u_sess st) sid) as [s|] eqn:Es; [|exact Hw]. cbn [fst]. now apply touch_wf.
    + destruct (negb (c_maxsess c =? 0) && (c_maxsess c <=? lenN (u_sess st))); [exact Hw|]. cbn [fst].
      replace (u_next st + 1) with (N.max (u_next st) (u_next st + 1)) by lia.
      apply add_sess_wf; [exact Hw|lia|].
      intros k sid' Hk. rewrite aget_aset in Hk. destruct (from =? k) eqn:E.
      * apply N.eqb_eq in E. subst k. inversion Hk; subst sid'. left. cbn [ss_peer ss_role]. eauto.
      * right. exact Hk.
  - destruct (aget (u_sess st) sid) as [s|] eqn:Es; [|exact Hw].
    destruct dg; [exact Hw|]. cbn [fst]. now apply touch_wf.
  - cbn [fst].
    assert (H : wf (mkU (aset (u_sess st) sid (mkS RClient peer now)) (u_pidx st) (u_q st)
                        (N.max (u_next st) (sid + 1)) (u_tag st) (u_log st))).
    { apply add_sess_wf; [exact Hw|exact Hok|]. intros k sid' Hk. right. exact Hk. }
    destruct H as [H1 H2]. constructor; cbn [u_pidx u_sess u_next] in *; assumption.
  - destruct (aget (u_q st) (lkey lid)); [|cbn [fst]; now apply bump_wf].
    destruct (negb (c_maxsess c =? 0) && (c_maxsess c <=? lenN (u_sess st))); [cbn [fst]; now apply bump_wf|].
    cbn [fst]. apply add_sess_wf; [exact Hw|exact Hok|].
    intros k sid' Hk. destruct (aget (u_pidx st) peer) as [o|] eqn:Ep; [right; exact Hk|].
    rewrite aget_aset in Hk. destruct (peer =? k) eqn:E.
    + apply N.eqb_eq in E. subst k. inversion Hk; subst sid'. left. cbn [ss_peer ss_role]. eauto.
    + right. exact Hk.
  - destruct dg as [|b dg']; [exact Hw|].
    destruct (aget (u_sess st) sid) as [s|] eqn:Es; [|exact Hw].
    assert (Hw1 : forall t l, wf (mkU (u_sess st) (u_pidx st) (u_q st) (u_next st) t l))
      by (intros; apply with_log_wf; exact Hw).
    destruct (ss_role s) as [|lid].
    + destruct a.
      * cbn [fst]. apply touch_wf; [apply Hw1|exact Es].
      * match goal with |- context [if ?b then _ else _] => destruct b end.
        -- destruct (c_cbp c); [apply close_wf; apply Hw1|cbn [fst]; apply set_q_wf; apply Hw1].
        -- cbn [fst]. apply set_q_wf; apply Hw1.
      * apply close_wf; apply Hw1.
    + cbn [u_q]. destruct (aget (u_q st) (lkey lid)) as [lq|]; [|apply close_wf; apply Hw1].
      destruct a.
      * cbn [fst]. apply touch_wf; [apply Hw1|exact Es].
      * match goal with |- context [if ?b then _ else _] => destruct b end.
        -- destruct (c_cbp c); [apply close_wf; apply set_q_wf; apply Hw1|cbn [fst]; apply set_q_wf; apply Hw1].
        -- cbn [fst]. apply set_q_wf; apply Hw1.
      * apply close_wf; apply Hw1.
  - destruct (aget (u_q st) (lkey lid)); [|exact Hw]. cbn [fst]. now apply set_q_wf.
  - destruct (aget (u_sess st) sid) as [s|]; [|exact Hw].
    destruct (ss_role s); [|exact Hw].
    destruct (snd (flush_c sid (q_get st (ckey sid)) ans)); cbn [fst].
    + apply close_wf. now apply set_q_wf.
    + now apply set_q_wf.
  - now apply close_wf.
  - destruct (c_idle c <=? 0)%Z; [exact Hw|]. apply (gc_fold_wf c now (u_sess st) (st, [])). exact Hw.
Qed.

Lemma init_wf lids : wf (uinit lids).
Proof. constructor; cbn; intros; discriminate. Qed.

(* ------------------------------------------------ one datagram -> one data event *)
Definition room (c : cfg) (st : ust) : Prop := c_maxsess c = 0 \/ lenN (u_sess st) < c_maxsess c.

Lemma firstn_whole (c : cfg) (dg : list N) : lenN dg <= c_chunk c -> firstn (N.to_nat (c_chunk c)) dg = dg.
Proof. intros H. apply firstn_all2. unfold lenN in H. lia. Qed.

Theorem recv_listener_one_event c now st lid from dg :
  wf st -> dg <> [] -> lenN dg <= c_chunk c -> (aget (u_pidx st) from = None -> room c st) ->
  let r := ustep c now st (URecv lid from dg) in
  exists sid s,
    aget (u_pidx (fst r)) from = Some sid /\ aget (u_sess (fst r)) sid = Some s /\ ss_peer s = from /\
    ((aget (u_pidx st) from = Some sid /\ snd r = [EData sid dg]) \/
     (aget (u_pidx st) from = None /\ snd r = [EAccept sid from; EData sid dg])).
Proof.
  intros Hw Hne Hlen Hroom. cbn [ustep]. destruct dg as [|b dg']; [congruence|].
  rewrite (firstn_whole c (b :: dg') Hlen).
  destruct (aget (u_pidx st) from) as [sid|] eqn:Ei.
  - destruct (wf_idx st Hw from sid Ei) as (s & l & Hs & Hp & Hr). rewrite Hs. cbn [fst snd set_sess u_pidx u_sess].
    exists sid, (touch s now). rewrite aget_aset, N.eqb_refl. repeat split; auto.
  - destruct (Hroom eq_refl) as [H0|Hlt].
    + rewrite H0. cbn [N.eqb negb andb fst snd u_pidx u_sess].
      exists (u_next st), (mkS (RPeer lid) from now). rewrite !aget_aset, !N.eqb_refl. repeat split; auto.
    + replace (negb (c_maxsess c =? 0) && (c_maxsess c <=? lenN (u_sess st))) with false by lia.
      cbn [fst snd u_pidx u_sess].
      exists (u_next st), (mkS (RPeer lid) from now). rewrite !aget_aset, !N.eqb_refl. repeat split; auto.
Qed.

Theorem recv_client_one_event c now st sid s dg :
  aget (u_sess st) sid = Some s -> lenN dg <= c_chunk c ->
  snd (ustep c now st (UCRecv sid dg)) = [EData sid dg].
Proof.
  intros Hs Hlen. cbn [ustep]. rewrite Hs. destruct dg as [|b dg']; [reflexivity|].
  cbn [snd]. now rewrite (firstn_whole c (b :: dg') Hlen).
Qed.

(* ------------------------------------------------ the peer -> session mapping is stable *)
Lemma close_stable st sid k s : wf st -> aget (u_pidx st) k = Some s ->
  ~ In (EClose s) (snd (close_sess st sid)) -> aget (u_pidx (fst (close_sess st sid))) k = Some s.
Proof.
  intros Hw Hk Hn. rewrite (close_sess_pidx st sid k Hw), Hk.
  destruct (s =? sid) eqn:E; [|reflexivity]. apply N.eqb_eq in E. subst sid. exfalso. apply Hn.
  rewrite close_events. destruct (wf_idx st Hw k s Hk) as (s' & l & Hs & _). rewrite Hs. now left.
Qed.

Lemma gc_fold_events_mono c now : forall l acc e, In e (snd acc) -> In e (snd (gc_fold c now l acc)).
Proof.
  induction l as [|ks l IH]; intros acc e He; [exact He|].
  unfold gc_fold in *. cbn [fold_left]. apply IH.
  destruct (c_idle c <? now - ss_last (snd ks))%Z; [|exact He]. cbn [snd]. apply in_or_app. now left.
Qed.

Lemma gc_fold_stable c now k s : forall l acc, wf (fst acc) -> aget (u_pidx (fst acc)) k = Some s ->
  ~ In (EClose s) (snd (gc_fold c now l acc)) -> aget (u_pidx (fst (gc_fold c now l acc))) k = Some s.
Proof.
  induction l as [|ks l IH]; intros acc Hw Hk Hn; [exact Hk|].
  unfold gc_fold in *. cbn [fold_left] in *.
  destruct (c_idle c <? now - ss_last (snd ks))%Z eqn:E.
  - apply IH; cbn [fst snd]; [now apply close_wf| |exact Hn].
    apply close_stable; [exact Hw|exact Hk|]. intros Hc. apply Hn.
    apply (gc_fold_events_mono c now l). cbn [snd]. apply in_or_app. now right.
  - now apply IH.
Qed.

Theorem mapping_stable c now st o k s : wf st -> op_ok st o -> aget (u_pidx st) k = Some s ->
  ~ In (EClose s) (snd (ustep c now st o)) -> aget (u_pidx (fst (ustep c now st o))) k = Some s.
Proof.
  intros Hw Hok Hk Hn.
  destruct o as [lid from dg|sid dg|sid peer|sid lid peer|sid dg a|lid ans|sid ans|sid|]; cbn [ustep op_ok] in *.
  - destruct dg as [|b dg']; [exact Hk|].
    destruct (aget (u_pidx st) from) as [sid|] eqn:Ei.
    + destruct (aget (u_sess st) sid); exact Hk.
    + destruct (negb (c_maxsess c =? 0) && (c_maxsess c <=? lenN (u_sess st))); [exact Hk|].
      cbn [fst u_pidx]. rewrite aget_aset. destruct (from =? k) eqn:E; [|exact Hk].
      apply N.eqb_eq in E. subst k. congruence.
  - destruct (aget (u_sess st) sid); [|exact Hk]. destruct dg; exact Hk.
  - exact Hk.
  - destruct (aget (u_q st) (lkey lid)); [|exact Hk].
    destruct (negb (c_maxsess c =? 0) && (c_maxsess c <=? lenN (u_sess st))); [exact Hk|].
    cbn [fst u_pidx]. destruct (aget (u_pidx st) peer) eqn:Ep; [exact Hk|].
    rewrite aget_aset. destruct (peer =? k) eqn:E; [|exact Hk]. apply N.eqb_eq in E. subst k. congruence.
  - destruct dg as [|b dg']; [exact Hk|].
    destruct (aget (u_sess st) sid) as [se|] eqn:Es; [|exact Hk].
    assert (Hw1 : forall t l, wf (mkU (u_sess st) (u_pidx st) (u_q st) (u_next st) t l))
      by (intros; apply with_log_wf; exact Hw).
    destruct (ss_role se) as [|lid].
    + destruct a.
      * exact Hk.
      * match goal with |- context [if ?b then _ else _] => destruct b end.
        -- destruct (c_cbp c); [apply close_stable; [apply Hw1|exact Hk|exact Hn]|exact Hk].
        -- exact Hk.
      * apply close_stable; [apply Hw1|exact Hk|exact Hn].
    + cbn [u_q] in *. destruct (aget (u_q st) (lkey lid)) as [lq|]; [|apply close_stable; [apply Hw1|exact Hk|exact Hn]].
      destruct a.
      * exact Hk.
      * match goal with |- context [if ?b then _ else _] => destruct b end.
        -- destruct (c_cbp c); [apply close_stable; [apply set_q_wf; apply Hw1|exact Hk|exact Hn]|exact Hk].
        -- exact Hk.
      * apply close_stable; [apply Hw1|exact Hk|exact Hn].
  - destruct (aget (u_q st) (lkey lid)); exact Hk.
  - destruct (aget (u_sess st) sid) as [se|]; [|exact Hk].
    destruct (ss_role se); [|exact Hk].
    destruct (snd (flush_c sid (q_get st (ckey sid)) ans)) eqn:Ec; cbn [fst snd] in *; [|exact Hk].
    apply close_stable; [now apply set_q_wf|exact Hk|].
    intros Hc. apply Hn. apply in_or_app. now right.
  - now apply close_stable.
  - destruct (c_idle c <=? 0)%Z; [exact Hk|].
    apply (gc_fold_stable c now k s (u_sess st) (st, [])); assumption.
Qed.

(* over whole histories *)
Fixpoint hist_ok (c : cfg) (st : ust) (h : list (Z * uop)) : Prop :=
  match h with
  | [] => True
  | (now, o) :: h' => op_ok st o /\ hist_ok c (fst (ustep c now st o)) h'
  end.

Theorem run_wf c : forall h st, wf st -> hist_ok c st h -> wf (fst (urun c st h)).
Proof.
  induction h as [|[now o] h IH]; intros st Hw Hh; [exact Hw|].
  destruct Hh as [Hok Hh]. cbn [urun fst]. apply IH; [now apply step_wf|exact Hh].
Qed.

Theorem mapping_stable_run c k s : forall h st, wf st -> hist_ok c st h -> aget (u_pidx st) k = Some s ->
  ~ In (EClose s) (snd (urun c st h)) -> aget (u_pidx (fst (urun c st h))) k = Some s.
Proof.
  induction h as [|[now o] h IH]; intros st Hw Hh Hk Hn; [exact Hk|].
  destruct Hh as [Hok Hh]. cbn [urun fst snd] in *.
  apply IH; [now apply step_wf|exact Hh| |].
  - apply mapping_stable; [exact Hw|exact Hok|exact Hk|]. intros Hc. apply Hn. apply in_or_app. now left.
  - intros Hc. apply Hn. apply in_or_app. now right.
Qed.

(* ------------------------------------------------ every emitted datagram is one send command *)
Definition emits (evs : list uev) : list outdg :=
  flat_map (fun e => match e with EEmit _ t d p => [(t, d, p)] | _ => [] end) evs.
Definition qall (st : ust) : list outdg := flat_map snd (u_q st).
Definition tags (l : list outdg) : list N := map og_tag l.
Definition cnt (l : list N) (t : N) : nat := count_occ N.eq_dec l t.

Lemma cnt_app a b t : cnt (a ++ b) t = (cnt a t + cnt b t)%nat.
Proof. apply count_occ_app. Qed.
Lemma tags_app a b : tags (a ++ b) = tags a ++ tags b.
Proof. apply map_app. Qed.
Lemma cnt_pos_in l t : (0 < cnt l t)%nat <-> In t l.
Proof. unfold cnt. split; intros H; [now apply (count_occ_In N.eq_dec)|now apply (count_occ_In N.eq_dec) in H]. Qed.
Lemma emits_app a b : emits (a ++ b) = emits a ++ emits b.
Proof. apply flat_map_app. Qed.

Lemma NoDup_snoc {A} (l : list A) (x : A) : NoDup l -> ~ In x l -> NoDup (l ++ [x]).
Proof.
  intros Hn Hx. induction l as [|y l IH]; cbn [app]; [constructor; [tauto|constructor]|].
  inversion Hn; subst. constructor.
  - intros Hin. apply in_app_or in Hin. destruct Hin as [Hin|[<-|[]]]; [tauto|apply Hx; now left].
  - apply IH; [assumption|]. intros Hin. apply Hx. now right.
Qed.

Record qinv (st : ust) (E : list N) : Prop := {
  qi_cnt : forall t, (cnt (tags (qall st)) t + cnt E t <= 1)%nat;      (* queued or emitted: at most once *)
  qi_lt : forall t, (0 < cnt (tags (qall st)) t + cnt E t)%nat -> t < u_tag st;
  qi_log : forall d, In d (qall st) -> In d (u_log st);
  qi_logt : forall d, In d (u_log st) -> og_tag d < u_tag st;
  qi_lognd : NoDup (tags (u_log st))
}.

Lemma trans_same st st' E X : qinv st E -> u_tag st' = u_tag st -> u_log st' = u_log st ->
  (forall t, (cnt (tags (qall st')) t + cnt X t <= cnt (tags (qall st)) t)%nat) ->
  (forall d, In d (qall st') -> In d (qall st)) ->
  qinv st' (E ++ X).
Proof.
  intros [H1 H2 H3 H4 H5] Ht Hl Hc Hi. constructor.
  - intros t. rewrite cnt_app. specialize (H1 t). specialize (Hc t). lia.
  - intros t Hp. rewrite Ht. apply H2. rewrite cnt_app in Hp. specialize (Hc t). lia.
  - intros d Hd. rewrite Hl. apply H3. now apply Hi.
  - intros d Hd. rewrite Ht. apply H4. now rewrite <- Hl.
  - now rewrite Hl.
Qed.

Lemma trans_send st st' E X d0 : qinv st E -> og_tag d0 = u_tag st ->
  u_tag st' = u_tag st + 1 -> u_log st' = u_log st ++ [d0] ->
  (forall t, (cnt (tags (qall st')) t + cnt X t <= cnt (tags (qall st)) t + (if N.eqb t (u_tag st) then 1 else 0))%nat) ->
  (forall d, In d (qall st') -> In d (qall st) \/ d = d0) ->
  qinv st' (E ++ X).
Proof.
  intros [H1 H2 H3 H4 H5] Hd0 Ht Hl Hc Hi. constructor.
  - intros t. rewrite cnt_app. specialize (H1 t). specialize (Hc t).
    destruct (t =? u_tag st) eqn:Et; [|lia].
    apply N.eqb_eq in Et. subst t.
    assert (cnt (tags (qall st)) (u_tag st) + cnt E (u_tag st) = 0)%nat.
    { destruct (cnt (tags (qall st)) (u_tag st) + cnt E (u_tag st))%nat eqn:Ez; [reflexivity|].
      assert (Hp : (0 < cnt (tags (qall st)) (u_tag st) + cnt E (u_tag st))%nat) by lia.
      apply H2 in Hp. lia. }
    lia.
  - intros t Hp. rewrite Ht. rewrite cnt_app in Hp. specialize (Hc t).
    destruct (t =? u_tag st) eqn:Et; [apply N.eqb_eq in Et; lia|].
    assert (Hq : (0 < cnt (tags (qall st)) t + cnt E t)%nat) by lia. apply H2 in Hq. lia.
  - intros d Hd. rewrite Hl. apply in_or_app. destruct (Hi d Hd) as [H|H]; [left; now apply H3|right; now left].
  - intros d Hd. rewrite Ht. rewrite Hl in Hd. apply in_app_or in Hd. destruct Hd as [Hd|[<-|[]]].
    + specialize (H4 d Hd). lia.
    + lia.
  - rewrite Hl. unfold tags. rewrite map_app. cbn [map]. fold (tags (u_log st)).
    apply NoDup_snoc; [exact H5|]. intros Hin. apply in_map_iff in Hin. destruct Hin as (d & Hd & Hin).
    specialize (H4 d Hin). lia.
Qed.

(* counting over the queue map *)
Lemma cnt_adel_le (m : amap (list outdg)) k t :
  (cnt (tags (flat_map snd (adel m k))) t <= cnt (tags (flat_map snd m)) t)%nat.
Proof.
  induction m as [|[k0 q0] m IH]; cbn [adel flat_map snd]; [lia|].
  destruct (k0 =? k); cbn [flat_map snd]; rewrite ?tags_app, ?cnt_app; lia.
Qed.
Lemma cnt_adel_get (m : amap (list outdg)) k q t : aget m k = Some q ->
  (cnt (tags q) t + cnt (tags (flat_map snd (adel m k))) t <= cnt (tags (flat_map snd m)) t)%nat.
Proof.
  induction m as [|[k0 q0] m IH]; cbn [aget adel flat_map snd]; [discriminate|].
  destruct (k0 =? k) eqn:E.
  - intros H. inversion H; subst q0. rewrite tags_app, cnt_app. pose proof (cnt_adel_le m k t). lia.
  - intros H. cbn [flat_map snd]. rewrite !tags_app, !cnt_app. specialize (IH H). lia.
Qed.
Lemma in_adel_flat (m : amap (list outdg)) k d : In d (flat_map snd (adel m k)) -> In d (flat_map snd m).
Proof.
  induction m as [|[k0 q0] m IH]; cbn [adel flat_map snd]; [tauto|].
  destruct (k0 =? k); cbn [flat_map snd]; rewrite ?in_app_iff; tauto.
Qed.
Lemma in_get_flat (m : amap (list outdg)) k q d : aget m k = Some q -> In d q -> In d (flat_map snd m).
Proof.
  induction m as [|[k0 q0] m IH]; cbn [aget flat_map snd]; [discriminate|].
  destruct (k0 =? k); rewrite in_app_iff; [intros H; inversion H; subst; tauto|intros H Hd; right; now apply IH].
Qed.

(* replacing queue k (old contents q, or absent with q = []) by q' *)
Lemma set_q_cnt st k q q' t : (aget (u_q st) k = Some q \/ (aget (u_q st) k = None /\ q = [])) ->
  (cnt (tags (qall (set_q st k q'))) t + cnt (tags q) t <= cnt (tags (qall st)) t + cnt (tags q') t)%nat.
Proof.
  intros H. unfold qall, set_q, aset. cbn [u_q flat_map snd]. rewrite tags_app, cnt_app.
  destruct H as [H|[H ->]].
  - pose proof (cnt_adel_get (u_q st) k q t H). lia.
  - pose proof (cnt_adel_le (u_q st) k t). cbn [tags map cnt count_occ]. lia.
Qed.
Lemma set_q_in st k q' d : In d (qall (set_q st k q')) -> In d q' \/ In d (qall st).
Proof.
  unfold qall, set_q, aset. cbn [u_q flat_map snd]. rewrite in_app_iff. intros [H|H]; [now left|right].
  now apply in_adel_flat in H.
Qed.
Lemma q_get_in st k d : In d (q_get st k) -> In d (qall st).
Proof.
  unfold q_get, qall. destruct (aget (u_q st) k) as [q|] eqn:E; [|intros []]. now apply (in_get_flat (u_q st) k q d E).
Qed.
Lemma q_get_case st k : aget (u_q st) k = Some (q_get st k) \/ (aget (u_q st) k = None /\ q_get st k = []).
Proof. unfold q_get. destruct (aget (u_q st) k); [left|right]; auto. Qed.

(* closing a session: its client queue disappears, nothing else changes *)
Lemma close_q st sid :
  u_tag (fst (close_sess st sid)) = u_tag st /\ u_log (fst (close_sess st sid)) = u_log st /\
  (forall t, (cnt (tags (qall (fst (close_sess st sid)))) t <= cnt (tags (qall st)) t)%nat) /\
  (forall d, In d (qall (fst (close_sess st sid))) -> In d (qall st)) /\
  emits (snd (close_sess st sid)) = [].
Proof.
  unfold close_sess. destruct (aget (u_sess st) sid) as [s|]; cbn [fst snd u_tag u_log].
  - repeat split; try reflexivity.
    + intros t. unfold qall. cbn [u_q]. apply cnt_adel_le.
    + intros d. unfold qall. cbn [u_q]. apply in_adel_flat.
  - repeat split; auto.
Qed.

Lemma close_qinv st sid E : qinv st E -> qinv (fst (close_sess st sid)) E.
Proof.
  intros Hq. destruct (close_q st sid) as (Ht & Hl & Hc & Hi & _).
  rewrite <- (app_nil_r E). apply (trans_same st); auto.
  intros t. specialize (Hc t). cbn [cnt count_occ]. lia.
Qed.

(* flushing *)
Lemma flush_l_cnt lid : forall q ans t,
  (cnt (tags (fst (flush_l lid q ans))) t + cnt (tags (emits (snd (flush_l lid q ans)))) t <= cnt (tags q) t)%nat.
Proof.
  unfold cnt, tags.
  induction q as [|d q IH]; intros ans t; [destruct ans; cbn; lia|].
  destruct ans as [|a ans]; [cbn [flush_l fst snd emits flat_map map count_occ]; lia|].
  destruct a; cbn [flush_l fst snd].
  - specialize (IH ans t). cbn [emits flat_map app map count_occ] in *.
    fold (emits (snd (flush_l lid q ans))).
    change (og_tag (og_tag d, og_dest d, og_payload d)) with (og_tag d).
    destruct (N.eq_dec (og_tag d) t); lia.
  - cbn [emits flat_map map count_occ]. lia.
  - specialize (IH ans t). cbn [emits flat_map app map count_occ] in *.
    fold (emits (snd (flush_l lid q ans))). destruct (N.eq_dec (og_tag d) t); lia.
Qed.
Lemma flush_l_in lid : forall q ans d,
  (In d (fst (flush_l lid q ans)) -> In d q) /\ (In d (emits (snd (flush_l lid q ans))) -> In d q).
Proof.
  induction q as [|d0 q IH]; intros ans d; [destruct ans; cbn; tauto|].
  destruct ans as [|a ans]; [cbn; tauto|].
  destruct a; cbn [flush_l fst snd].
  - destruct (IH ans d) as [H1 H2]. cbn [emits flat_map app In]. fold (emits (snd (flush_l lid q ans))).
    split; [intros H; right; auto|]. intros [H|H]; [left|right; auto].
    destruct d0 as [[t0 de0] p0]. exact H.
  - cbn. tauto.
  - destruct (IH ans d) as [H1 H2]. cbn [emits flat_map app In]. fold (emits (snd (flush_l lid q ans))).
    split; intros H; right; auto.
Qed.
Lemma flush_c_cnt sid : forall q ans t,
  (cnt (tags (fst (fst (flush_c sid q ans)))) t + cnt (tags (emits (snd (fst (flush_c sid q ans))))) t <= cnt (tags q) t)%nat.
Proof.
  unfold cnt, tags.
  induction q as [|d q IH]; intros ans t; [destruct ans; cbn; lia|].
  destruct ans as [|a ans]; [cbn [flush_c fst snd emits flat_map map count_occ]; lia|].
  destruct a; cbn [flush_c fst snd].
  - specialize (IH ans t). cbn [emits flat_map app map count_occ] in *.
    fold (emits (snd (fst (flush_c sid q ans)))).
    change (og_tag (og_tag d, og_dest d, og_payload d)) with (og_tag d).
    destruct (N.eq_dec (og_tag d) t); lia.
  - cbn [emits flat_map map count_occ]. lia.
  - cbn [emits flat_map map count_occ]. lia.
Qed.
Lemma flush_c_in sid : forall q ans d,
  (In d (fst (fst (flush_c sid q ans))) -> In d q) /\ (In d (emits (snd (fst (flush_c sid q ans)))) -> In d q).
Proof.
  induction q as [|d0 q IH]; intros ans d; [destruct ans; cbn; tauto|].
  destruct ans as [|a ans]; [cbn; tauto|].
  destruct a; cbn [flush_c fst snd].
  - destruct (IH ans d) as [H1 H2]. cbn [emits flat_map app In]. fold (emits (snd (fst (flush_c sid q ans)))).
    split; [intros H; right; auto|]. intros [H|H]; [left|right; auto].
    destruct d0 as [[t0 de0] p0]. exact H.
  - cbn. tauto.
  - cbn. tauto.
Qed.

Lemma keepq st st' E : qinv st E -> u_q st' = u_q st -> u_tag st' = u_tag st -> u_log st' = u_log st ->
  qinv st' (E ++ []).
Proof.
  intros Hq H1 H2 H3. apply (trans_same st); auto; unfold qall; rewrite H1; [|auto].
  intros t. cbn [cnt count_occ]. lia.
Qed.

Lemma snoc_cnt (q : list outdg) d0 t :
  cnt (tags (q ++ [d0])) t = (cnt (tags q) t + (if N.eqb t (og_tag d0) then 1 else 0))%nat.
Proof.
  rewrite tags_app, cnt_app. cbn [tags map cnt count_occ].
  destruct (N.eq_dec (og_tag d0) t) as [e|e]; destruct (N.eqb t (og_tag d0)) eqn:E; try lia.
Qed.
Lemma tl_cnt (q : list outdg) t : (cnt (tags (tl q)) t <= cnt (tags q) t)%nat.
Proof. destruct q as [|d q]; cbn [tl tags map cnt count_occ]; [lia|]. destruct (N.eq_dec (og_tag d) t); lia. Qed.
Lemma in_tl {A} (l : list A) x : In x (tl l) -> In x l.
Proof. destruct l; cbn; tauto. Qed.

Definition step_goal (c : cfg) (now : Z) (st : ust) (o : uop) (E : list N) : Prop :=
  let r := ustep c now st o in
  qinv (fst r) (E ++ tags (emits (snd r))) /\
  (forall d, In d (emits (snd r)) -> In d (u_log (fst r))) /\
  (exists l, u_log (fst r) = u_log st ++ l).

Lemma gc_fold_q c now E : forall l acc, qinv (fst acc) E -> emits (snd acc) = [] ->
  qinv (fst (gc_fold c now l acc)) E /\ emits (snd (gc_fold c now l acc)) = [] /\
  u_log (fst (gc_fold c now l acc)) = u_log (fst acc).
Proof.
  induction l as [|ks l IH]; intros acc Hq He; [auto|].
  unfold gc_fold in *. cbn [fold_left].
  destruct (c_idle c <? now - ss_last (snd ks))%Z; [|now apply IH].
  destruct (close_q (fst acc) (fst ks)) as (_ & Hl & _ & _ & Hem).
  destruct (IH (fst (close_sess (fst acc) (fst ks)), snd acc ++ snd (close_sess (fst acc) (fst ks)))) as (H1 & H2 & H3).
  - cbn [fst]. now apply close_qinv.
  - cbn [snd]. now rewrite emits_app, He, Hem.
  - split; [exact H1|]. split; [exact H2|]. cbn [fst] in H3. now rewrite H3, Hl.
Qed.

(* the send command: the new log entry, then one of: emitted now, queued, dropped *)
Lemma send_goal st st' E X (d0 : outdg) :
  qinv st E -> og_tag d0 = u_tag st -> u_tag st' = u_tag st + 1 -> u_log st' = u_log st ++ [d0] ->
  (forall t, (cnt (tags (qall st')) t + cnt X t <= cnt (tags (qall st)) t + (if N.eqb t (u_tag st) then 1 else 0))%nat) ->
  (forall d, In d (qall st') -> In d (qall st) \/ d = d0) ->
  qinv st' (E ++ X) /\ (exists l, u_log st' = u_log st ++ l).
Proof. intros. split; [now apply (trans_send st st' E X d0)|eauto]. Qed.

Theorem step_q c now st o E : qinv st E -> step_goal c now st o E.
Proof.
  intros Hq. unfold step_goal.
  assert (Hnil : forall st', u_q st' = u_q st -> u_tag st' = u_tag st -> u_log st' = u_log st ->
            qinv st' (E ++ tags (emits [])) /\ (forall d, In d (emits []) -> In d (u_log st')) /\
            (exists l, u_log st' = u_log st ++ l)).
  { intros st' H1 H2 H3. split; [now apply (keepq st)|]. split; [intros d []|]. exists []. now rewrite app_nil_r. }
  destruct o as [lid from dg|sid dg|sid peer|sid lid peer|sid dg a|lid ans|sid ans|sid|]; cbn [ustep].
  - destruct dg as [|b dg']; [now apply Hnil|].
    destruct (aget (u_pidx st) from) as [sid|].
    + destruct (aget (u_sess st) sid) as [s|]; cbn [fst snd]; [|].
      * change (emits [EData sid (firstn (N.to_nat (c_chunk c)) (b :: dg'))]) with (emits []). now apply Hnil.
      * change (emits [EError]) with (emits []). now apply Hnil.
    + destruct (negb (c_maxsess c =? 0) && (c_maxsess c <=? lenN (u_sess st))); [now apply Hnil|].
      cbn [fst snd]. match goal with |- context [emits ?l] => change (emits l) with (emits []) end. now apply Hnil.
  - destruct (aget (u_sess st) sid) as [s|]; [|now apply Hnil].
    destruct dg; cbn [fst snd]; match goal with |- context [emits ?l] => change (emits l) with (emits []) end; now apply Hnil.
  - cbn [fst snd]. change (emits [EConnect sid peer]) with (@nil outdg). cbn [tags map].
    split; [|split; [intros d []|exists []; cbn [u_log]; now rewrite app_nil_r]].
    apply (trans_same st); auto.
    + intros t. unfold qall, aset. cbn [u_q flat_map snd app cnt count_occ].
      pose proof (cnt_adel_le (u_q st) (ckey sid) t). unfold cnt in *. lia.
    + intros d. unfold qall, aset. cbn [u_q flat_map snd app]. apply in_adel_flat.
  - destruct (aget (u_q st) (lkey lid)).
    + destruct (negb (c_maxsess c =? 0) && (c_maxsess c <=? lenN (u_sess st))); cbn [fst snd];
        match goal with |- context [emits ?l] => change (emits l) with (emits []) end; now apply Hnil.
    + cbn [fst snd]. change (emits [EClose sid]) with (emits []). now apply Hnil.
  - destruct dg as [|b dg']; [now apply Hnil|].
    destruct (aget (u_sess st) sid) as [s|]; [|now apply Hnil].
    set (dg := b :: dg'). set (d0 := (u_tag st, ss_peer s, dg) : outdg).
    set (st1 := mkU (u_sess st) (u_pidx st) (u_q st) (u_next st) (u_tag st + 1) (u_log st ++ [d0])).
    assert (Hsend : forall st' X,
               u_tag st' = u_tag st + 1 -> u_log st' = u_log st ++ [d0] ->
               (forall t, (cnt (tags (qall st')) t + cnt X t <= cnt (tags (qall st)) t + (if N.eqb t (u_tag st) then 1 else 0))%nat) ->
               (forall d, In d (qall st') -> In d (qall st) \/ d = d0) ->
               qinv st' (E ++ X) /\ (exists l, u_log st' = u_log st ++ l)).
    { intros st' X H1 H2 H3 H4. apply (send_goal st st' E X d0); auto. }
    assert (Hclose : forall st2, u_tag st2 = u_tag st + 1 -> u_log st2 = u_log st ++ [d0] ->
               (forall t, (cnt (tags (qall st2)) t <= cnt (tags (qall st)) t + (if N.eqb t (u_tag st) then 1 else 0))%nat) ->
               (forall d, In d (qall st2) -> In d (qall st) \/ d = d0) ->
               qinv (fst (close_sess st2 sid)) (E ++ tags (emits (snd (close_sess st2 sid)))) /\
               (forall d, In d (emits (snd (close_sess st2 sid))) -> In d (u_log (fst (close_sess st2 sid)))) /\
               (exists l, u_log (fst (close_sess st2 sid)) = u_log st ++ l)).
    { intros st2 H1 H2 H3 H4. destruct (close_q st2 sid) as (Ht & Hl & Hc & Hi & Hem).
      rewrite Hem. cbn [tags map].
      destruct (Hsend (fst (close_sess st2 sid)) []) as [Ha Hb]; try congruence.
      - intros t. specialize (Hc t). specialize (H3 t). cbn [cnt count_occ]. unfold cnt in *. lia.
      - intros d Hd. apply H4. now apply Hi.
      - split; [exact Ha|]. split; [intros d []|exact Hb]. }
    assert (Hq1 : forall t, (cnt (tags (qall st1)) t <= cnt (tags (qall st)) t + (if N.eqb t (u_tag st) then 1 else 0))%nat)
      by (intros t; unfold qall; cbn [st1 u_q]; lia).
    assert (Hi1 : forall d, In d (qall st1) -> In d (qall st) \/ d = d0) by (intros d Hd; left; exact Hd).
    (* queueing d0 on queue k of st1 *)
    assert (Hqueue : forall k, let q := q_get st1 k ++ [d0] in
               (forall t, (cnt (tags (qall (set_q st1 k q))) t <= cnt (tags (qall st)) t + (if N.eqb t (u_tag st) then 1 else 0))%nat) /\
               (forall d, In d (qall (set_q st1 k q)) -> In d (qall st) \/ d = d0) /\
               (forall t, (cnt (tags (qall (set_q st1 k (tl q)))) t <= cnt (tags (qall st)) t + (if N.eqb t (u_tag st) then 1 else 0))%nat) /\
               (forall d, In d (qall (set_q st1 k (tl q))) -> In d (qall st) \/ d = d0)).
    { intros k q.
      assert (A : forall q', (forall t, (cnt (tags q') t <= cnt (tags q) t)%nat) -> (forall d, In d q' -> In d q) ->
                  (forall t, (cnt (tags (qall (set_q st1 k q'))) t <= cnt (tags (qall st)) t + (if N.eqb t (u_tag st) then 1 else 0))%nat) /\
                  (forall d, In d (qall (set_q st1 k q')) -> In d (qall st) \/ d = d0)).
      { intros q' Hc Hi. split.
        - intros t. pose proof (set_q_cnt st1 k (q_get st1 k) q' t (q_get_case st1 k)) as H.
          specialize (Hc t). unfold q in Hc. rewrite snoc_cnt in Hc. cbn [d0 og_tag fst] in Hc.
          change (qall st1) with (qall st) in H. lia.
        - intros d Hd. apply set_q_in in Hd. destruct Hd as [Hd|Hd]; [|left; exact Hd].
          apply Hi in Hd. unfold q in Hd. apply in_app_or in Hd. destruct Hd as [Hd|[<-|[]]]; [left|right; reflexivity].
          apply (q_get_in st1 k d Hd). }
      destruct (A q) as [A1 A2]; [intros t; lia|auto|].
      destruct (A (tl q)) as [A3 A4]; [intros t; apply tl_cnt|intros d; apply in_tl|]. auto. }
    destruct (ss_role s) as [|lid].
    + destruct a.
      * cbn [fst snd]. change (emits [EEmit (inr sid) (u_tag st) (ss_peer s) dg]) with [d0].
        destruct (Hsend (set_sess st1 (aset (u_sess st1) sid (touch s now))) (tags [d0])) as [Ha Hb]; try reflexivity.
        -- intros t. change (qall (set_sess st1 (aset (u_sess st1) sid (touch s now)))) with (qall st).
           cbn [tags map cnt count_occ d0 og_tag fst].
           destruct (N.eq_dec (u_tag st) t) as [e|e]; destruct (N.eqb t (u_tag st)) eqn:Eb; lia.
        -- intros d Hd. left. exact Hd.
        -- split; [exact Ha|]. split; [|exact Hb]. intros d [<-|[]]. cbn [set_sess u_log st1]. apply in_or_app. right. now left.
      * destruct (Hqueue (ckey sid)) as (Q1 & Q2 & Q3 & Q4).
        match goal with |- context [if ?b then _ else _] => destruct b end.
        -- destruct (c_cbp c).
           ++ apply Hclose; auto.
           ++ cbn [fst snd]. change (emits []) with (@nil outdg). cbn [tags map].
              destruct (Hsend (set_q st1 (ckey sid) (tl (q_get st1 (ckey sid) ++ [d0]))) []) as [Ha Hb]; try reflexivity.
              ** intros t. specialize (Q3 t). cbn [cnt count_occ]. unfold cnt in *. lia.
              ** exact Q4.
              ** split; [exact Ha|]. split; [intros d []|exact Hb].
        -- cbn [fst snd]. change (emits []) with (@nil outdg). cbn [tags map].
           destruct (Hsend (set_q st1 (ckey sid) (q_get st1 (ckey sid) ++ [d0])) []) as [Ha Hb]; try reflexivity.
           ** intros t. specialize (Q1 t). cbn [cnt count_occ]. unfold cnt in *. lia.
           ** exact Q2.
           ** split; [exact Ha|]. split; [intros d []|exact Hb].
      * apply Hclose; auto.
    + destruct (aget (u_q st1) (lkey lid)) as [lq|] eqn:Elq; [|apply Hclose; auto].
      assert (Eg : q_get st1 (lkey lid) = lq) by (unfold q_get; now rewrite Elq).
      destruct a.
      * cbn [fst snd]. change (emits [EEmit (inl lid) (u_tag st) (ss_peer s) dg]) with [d0].
        destruct (Hsend (set_sess st1 (aset (u_sess st1) sid (touch s now))) (tags [d0])) as [Ha Hb]; try reflexivity.
        -- intros t. change (qall (set_sess st1 (aset (u_sess st1) sid (touch s now)))) with (qall st).
           cbn [tags map cnt count_occ d0 og_tag fst].
           destruct (N.eq_dec (u_tag st) t) as [e|e]; destruct (N.eqb t (u_tag st)) eqn:Eb; lia.
        -- intros d Hd. left. exact Hd.
        -- split; [exact Ha|]. split; [|exact Hb]. intros d [<-|[]]. cbn [set_sess u_log st1]. apply in_or_app. right. now left.
      * destruct (Hqueue (lkey lid)) as (Q1 & Q2 & Q3 & Q4). rewrite Eg in *.
        match goal with |- context [if ?b then _ else _] => destruct b end.
        -- destruct (c_cbp c).
           ++ apply Hclose; auto.
           ++ cbn [fst snd]. change (emits []) with (@nil outdg). cbn [tags map].
              destruct (Hsend (set_q st1 (lkey lid) (tl (lq ++ [d0]))) []) as [Ha Hb]; try reflexivity.
              ** intros t. specialize (Q3 t). cbn [cnt count_occ]. unfold cnt in *. lia.
              ** exact Q4.
              ** split; [exact Ha|]. split; [intros d []|exact Hb].
        -- cbn [fst snd]. change (emits []) with (@nil outdg). cbn [tags map].
           destruct (Hsend (set_q st1 (lkey lid) (lq ++ [d0])) []) as [Ha Hb]; try reflexivity.
           ** intros t. specialize (Q1 t). cbn [cnt count_occ]. unfold cnt in *. lia.
           ** exact Q2.
           ** split; [exact Ha|]. split; [intros d []|exact Hb].
      * apply Hclose; auto.
  - destruct (aget (u_q st) (lkey lid)) as [q|] eqn:Eq; [|now apply Hnil].
    cbn [fst snd].
    split; [|split].
    + apply (trans_same st); auto.
      * intros t. pose proof (set_q_cnt st (lkey lid) q (fst (flush_l lid q ans)) t (or_introl Eq)).
        pose proof (flush_l_cnt lid q ans t). lia.
      * intros d Hd. apply set_q_in in Hd. destruct Hd as [Hd|Hd]; [|exact Hd].
        apply (flush_l_in lid q ans d) in Hd. apply (in_get_flat (u_q st) (lkey lid) q d Eq Hd).
    + intros d Hd. apply (flush_l_in lid q ans d) in Hd. cbn [set_q u_log].
      apply (qi_log st E Hq). apply (in_get_flat (u_q st) (lkey lid) q d Eq Hd).
    + exists []. cbn [set_q u_log]. now rewrite app_nil_r.
  - destruct (aget (u_sess st) sid) as [s|]; [|now apply Hnil].
    destruct (ss_role s); [|now apply Hnil].
    set (q := q_get st (ckey sid)). set (r := flush_c sid q ans).
    set (st1 := set_q st (ckey sid) (fst (fst r))).
    assert (H1 : qinv st1 (E ++ tags (emits (snd (fst r))))).
    { apply (trans_same st); auto.
      - intros t. pose proof (set_q_cnt st (ckey sid) q (fst (fst r)) t (q_get_case st (ckey sid))).
        pose proof (flush_c_cnt sid q ans t). fold r in H0. unfold st1. lia.
      - intros d Hd. apply set_q_in in Hd. destruct Hd as [Hd|Hd]; [|exact Hd].
        apply (flush_c_in sid q ans d) in Hd. apply (q_get_in st (ckey sid) d Hd). }
    assert (H2 : forall d, In d (emits (snd (fst r))) -> In d (u_log st)).
    { intros d Hd. apply (flush_c_in sid q ans d) in Hd. apply (qi_log st E Hq). apply (q_get_in st (ckey sid) d Hd). }
    destruct (snd r); cbn [fst snd].
    + destruct (close_q st1 sid) as (Ht & Hl & Hc & Hi & Hem).
      rewrite emits_app, Hem, app_nil_r. split; [now apply close_qinv|]. split.
      * intros d Hd. rewrite Hl. cbn [st1 set_q u_log]. now apply H2.
      * exists []. rewrite Hl. cbn [st1 set_q u_log]. now rewrite app_nil_r.
    + split; [exact H1|]. split; [exact H2|]. exists []. cbn [st1 set_q u_log]. now rewrite app_nil_r.
  - destruct (close_q st sid) as (Ht & Hl & Hc & Hi & Hem). rewrite Hem. cbn [tags map]. rewrite app_nil_r.
    split; [now apply close_qinv|]. split; [intros d []|]. exists []. now rewrite Hl, app_nil_r.
  - destruct (c_idle c <=? 0)%Z; [now apply Hnil|].
    destruct (gc_fold_q c now E (u_sess st) (st, []) Hq eq_refl) as (H1 & H2 & H3).
    change (fold_left _ (u_sess st) (st, [])) with (gc_fold c now (u_sess st) (st, [])).
    rewrite H2. cbn [tags map]. rewrite app_nil_r. split; [exact H1|]. split; [intros d []|].
    exists []. cbn [fst] in H3. now rewrite H3, app_nil_r.
Qed.

Theorem run_q c : forall h st E, qinv st E ->
  let r := urun c st h in
  qinv (fst r) (E ++ tags (emits (snd r))) /\
  (forall d, In d (emits (snd r)) -> In d (u_log (fst r))) /\
  (exists l, u_log (fst r) = u_log st ++ l).
Proof.
  induction h as [|[now o] h IH]; intros st E Hq; cbn [urun fst snd].
  - cbn [emits flat_map tags map]. rewrite app_nil_r. split; [exact Hq|]. split; [intros d []|]. exists []. now rewrite app_nil_r.
  - destruct (step_q c now st o E Hq) as (H1 & H2 & l1 & H3).
    destruct (IH (fst (ustep c now st o)) _ H1) as (H4 & H5 & l2 & H6).
    rewrite emits_app, tags_app, app_assoc. split; [exact H4|]. split.
    + intros d Hd. apply in_app_or in Hd. destruct Hd as [Hd|Hd]; [|now apply H5].
      rewrite H6. apply in_or_app. left. now apply H2.
    + exists (l1 ++ l2). now rewrite H6, H3, app_assoc.
Qed.

Lemma init_qinv lids : qinv (uinit lids) [].
Proof.
  assert (Hq : qall (uinit lids) = []).
  { unfold qall, uinit. cbn [u_q]. induction lids as [|l lids IH]; [reflexivity|]. cbn [map flat_map snd app]. exact IH. }
  constructor; rewrite ?Hq; cbn [tags map cnt count_occ uinit u_log u_tag]; try lia; try (intros d []); try (intros; lia).
  constructor.
Qed.

(* the ghost log is exactly the list of send commands that reached an open session *)
Definition logged (st : ust) (o : uop) : list outdg :=
  match o with
  | USend sid (b :: dg) _ =>
    match aget (u_sess st) sid with Some s => [(u_tag st, ss_peer s, b :: dg)] | None => [] end
  | _ => []
  end.

Lemma gc_fold_log c now : forall l acc, u_log (fst (gc_fold c now l acc)) = u_log (fst acc).
Proof.
  induction l as [|ks l IH]; intros acc; [reflexivity|]. unfold gc_fold in *. cbn [fold_left].
  destruct (c_idle c <? now - ss_last (snd ks))%Z; [|apply IH]. rewrite IH. cbn [fst].
  now destruct (close_q (fst acc) (fst ks)) as (_ & Hl & _).
Qed.

Lemma close_log st sid : u_log (fst (close_sess st sid)) = u_log st.
Proof. now destruct (close_q st sid) as (_ & Hl & _). Qed.

Theorem log_step c now st o : u_log (fst (ustep c now st o)) = u_log st ++ logged st o.
Proof.
  destruct o as [lid from dg|sid dg|sid peer|sid lid peer|sid dg a|lid ans|sid ans|sid|]; cbn [ustep logged];
    rewrite ?app_nil_r.
  - destruct dg; [reflexivity|]. destruct (aget (u_pidx st) from) as [sid|].
    + destruct (aget (u_sess st) sid); reflexivity.
    + destruct (negb (c_maxsess c =? 0) && (c_maxsess c <=? lenN (u_sess st))); reflexivity.
  - destruct (aget (u_sess st) sid); [|reflexivity]. destruct dg; reflexivity.
  - reflexivity.
  - destruct (aget (u_q st) (lkey lid)); [|reflexivity].
    destruct (negb (c_maxsess c =? 0) && (c_maxsess c <=? lenN (u_sess st))); reflexivity.
  - destruct dg as [|b dg']; [now rewrite app_nil_r|].
    destruct (aget (u_sess st) sid) as [s|]; [|now rewrite app_nil_r].
    destruct (ss_role s) as [|lid].
    + destruct a; rewrite ?close_log; try reflexivity.
      match goal with |- context [if ?b then _ else _] => destruct b end; [destruct (c_cbp c)|]; rewrite ?close_log; reflexivity.
    + cbn [u_q]. destruct (aget (u_q st) (lkey lid)); [|now rewrite close_log].
      destruct a; rewrite ?close_log; try reflexivity.
      match goal with |- context [if ?b then _ else _] => destruct b end; [destruct (c_cbp c)|]; rewrite ?close_log; reflexivity.
  - destruct (aget (u_q st) (lkey lid)); reflexivity.
  - destruct (aget (u_sess st) sid) as [s|]; [|reflexivity]. destruct (ss_role s); [|reflexivity].
    destruct (snd (flush_c sid (q_get st (ckey sid)) ans)); cbn [fst]; rewrite ?close_log; reflexivity.
  - apply close_log.
  - destruct (c_idle c <=? 0)%Z; [reflexivity|]. apply (gc_fold_log c now (u_sess st) (st, [])).
Qed.

(* the statement for Properties.v *)
Theorem emissions_are_sends c lids h :
  let r := urun c (uinit lids) h in
  NoDup (tags (emits (snd r))) /\
  NoDup (tags (u_log (fst r))) /\
  forall d, In d (emits (snd r)) -> In d (u_log (fst r)).
Proof.
  destruct (run_q c h (uinit lids) [] (init_qinv lids)) as (H1 & H2 & _). cbn [app] in H1.
  split; [|split; [apply (qi_lognd _ _ H1)|exact H2]].
  apply (NoDup_count_occ N.eq_dec). intros t. pose proof (qi_cnt _ _ H1 t) as H. unfold cnt in H. lia.
Qed.
