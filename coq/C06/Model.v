(* C06/Model.v — executable model of UdpEngine's session bookkeeping on the I/O thread:
   sessions, the peer index (source address -> receiving session), the listener and client
   out-queues, one recvfrom -> one data event, one send command -> at most one datagram.
   Mirrors include/iora/network/detail/udp_engine.hpp: readFromListener, onClient,
   connectDo, viaDo, sendDo, flushListener, writeClient, closeNow, runGc.
   Definitions only.  Addresses, listener ids and session ids are numbers. *)
From IoraVerif Require Import Common.Bytes Common.Assoc.
Local Open Scope N_scope.

Inductive role := RClient | RPeer (lid : N).

(* a queued datagram: ghost tag (number of the send command), destination, payload *)
Definition outdg := (N * N * list N)%type.
Definition og_tag (d : outdg) : N := fst (fst d).
Definition og_dest (d : outdg) : N := snd (fst d).
Definition og_payload (d : outdg) : list N := snd d.

Record sess := mkS {
  ss_role : role;
  ss_peer : N;                 (* peer address (ServerPeer: sendto destination; client: connected peer) *)
  ss_last : Z                  (* lastActivity *)
}.

Record cfg := mkCfg {
  c_chunk : N;                 (* ioReadChunk *)
  c_maxq : N;                  (* maxWriteQueue *)
  c_cbp : bool;                (* closeOnBackpressure *)
  c_maxsess : N;               (* maxSessions, 0 = unlimited *)
  c_idle : Z                   (* idleTimeout, 0 = off *)
}.

Record ust := mkU {
  u_sess : amap sess;                  (* _sessions (open sessions only) *)
  u_pidx : amap N;                     (* _peerIndex *)
  u_q : amap (list outdg);             (* out-queues: Listener::wq under key lkey lid, the wq of a
                                          ClientConnected session under key ckey sid *)
  u_next : N;                          (* _nextSessionId *)
  u_tag : N;                           (* ghost: number of send commands so far *)
  u_log : list outdg                   (* ghost: (tag, session's peer, payload) of every send command that reached a session *)
}.

Inductive kans := KOk | KAgain | KErr.       (* what the kernel answers to send/sendto *)

Inductive uop :=
| URecv (lid from : N) (dg : list N)           (* a datagram from address from is read on listener lid *)
| UCRecv (sid : N) (dg : list N)               (* a datagram is read on the connected socket of sid *)
| UConnect (sid peer : N)                      (* connect() command, socket ok *)
| UVia (sid lid peer : N)                      (* connectViaListener() command *)
| USend (sid : N) (dg : list N) (a : kans)     (* send command; a = answer to the immediate send/sendto *)
| UFlushL (lid : N) (ans : list kans)          (* EPOLLOUT on a listener; one answer per sendto *)
| UFlushC (sid : N) (ans : list kans)          (* EPOLLOUT on a client socket *)
| UClose (sid : N)                             (* close command *)
| UGc.                                         (* GC timer: idle expiry *)

Inductive uev :=
| EAccept (sid from : N)
| EConnect (sid peer : N)
| EData (sid : N) (payload : list N)
| EClose (sid : N)
| EEmit (via : N + N) (tag dest : N) (payload : list N)   (* inl lid: sendto on the listener socket; inr sid: send on the client socket *)
| EError.

Definition lkey (lid : N) : N := 2 * lid.
Definition ckey (sid : N) : N := 2 * sid + 1.

Definition q_get (st : ust) (k : N) : list outdg := match aget (u_q st) k with Some q => q | None => [] end.
Definition bump_next (st : ust) (sid : N) : ust :=      (* the API call took sid from _nextSessionId *)
  mkU (u_sess st) (u_pidx st) (u_q st) (N.max (u_next st) (sid + 1)) (u_tag st) (u_log st).
Definition set_sess (st : ust) (m : amap sess) : ust := mkU m (u_pidx st) (u_q st) (u_next st) (u_tag st) (u_log st).
Definition set_q (st : ust) (k : N) (q : list outdg) : ust :=
  mkU (u_sess st) (u_pidx st) (aset (u_q st) k q) (u_next st) (u_tag st) (u_log st).

(* closeNow: the session leaves the map; a listener-side session gives up the peer index
   entry of its peer — only if the entry is its own (fix: see DESIGN.md F12) *)
Definition close_sess (st : ust) (sid : N) : ust * list uev :=
  match aget (u_sess st) sid with
  | None => (st, [])
  | Some s =>
    let pidx' := match ss_role s with
                 | RClient => u_pidx st
                 | RPeer _ => match aget (u_pidx st) (ss_peer s) with
                              | Some owner => if owner =? sid then adel (u_pidx st) (ss_peer s) else u_pidx st
                              | None => u_pidx st
                              end
                 end in
    (* the client queue dies with the session *)
    (mkU (adel (u_sess st) sid) pidx' (adel (u_q st) (ckey sid)) (u_next st) (u_tag st) (u_log st), [EClose sid])
  end.

Definition touch (s : sess) (now : Z) : sess := mkS (ss_role s) (ss_peer s) now.

(* flushListener: one sendto per queued datagram until EAGAIN; a hard error drops the datagram *)
Fixpoint flush_l (lid : N) (q : list outdg) (ans : list kans) : list outdg * list uev :=
  match q, ans with
  | [], _ => ([], [])
  | _, [] => (q, [])
  | d :: q', KOk :: ans' =>
    let r := flush_l lid q' ans' in (fst r, EEmit (inl lid) (og_tag d) (og_dest d) (og_payload d) :: snd r)
  | _ :: _, KAgain :: _ => (q, [])
  | _ :: q', KErr :: ans' => let r := flush_l lid q' ans' in (fst r, EError :: snd r)
  end.

(* writeClient: same on the connected socket; a hard error closes the session *)
Fixpoint flush_c (sid : N) (q : list outdg) (ans : list kans) : list outdg * list uev * bool :=
  match q, ans with
  | [], _ => ([], [], false)
  | _, [] => (q, [], false)
  | d :: q', KOk :: ans' =>
    let r := flush_c sid q' ans' in
    (fst (fst r), EEmit (inr sid) (og_tag d) (og_dest d) (og_payload d) :: snd (fst r), snd r)
  | _ :: _, KAgain :: _ => (q, [], false)
  | _ :: _, KErr :: _ => (q, [], true)
  end.

Definition ustep (c : cfg) (now : Z) (st : ust) (o : uop) : ust * list uev :=
  match o with
  | URecv lid from dg =>
    match dg with
    | [] => (st, [])                                        (* n == 0: ignored on a listener *)
    | _ =>
      let payload := firstn (N.to_nat (c_chunk c)) dg in
      match aget (u_pidx st) from with
      | Some sid =>
        match aget (u_sess st) sid with
        | Some s => (set_sess st (aset (u_sess st) sid (touch s now)), [EData sid payload])
        | None => (st, [EError])                            (* unreachable when the index is well formed *)
        end
      | None =>
        if negb (c_maxsess c =? 0) && (c_maxsess c <=? lenN (u_sess st)) then (st, []) else
        let sid := u_next st in
        (mkU (aset (u_sess st) sid (mkS (RPeer lid) from now)) (aset (u_pidx st) from sid) (u_q st)
             (sid + 1) (u_tag st) (u_log st),
         [EAccept sid from; EData sid payload])
      end
    end
  | UCRecv sid dg =>
    match aget (u_sess st) sid with
    | Some s =>
      match dg with
      | [] => (st, [EData sid []])
      | _ => (set_sess st (aset (u_sess st) sid (touch s now)),
              [EData sid (firstn (N.to_nat (c_chunk c)) dg)])
      end
    | None => (st, [])
    end
  | UConnect sid peer =>
    (mkU (aset (u_sess st) sid (mkS RClient peer now)) (u_pidx st) (aset (u_q st) (ckey sid) [])
         (N.max (u_next st) (sid + 1)) (u_tag st) (u_log st),
     [EConnect sid peer])
  | UVia sid lid peer =>
    match aget (u_q st) (lkey lid) with
    | None => (bump_next st sid, [EClose sid])              (* listener not found *)
    | Some _ =>
      if negb (c_maxsess c =? 0) && (c_maxsess c <=? lenN (u_sess st)) then (bump_next st sid, [EClose sid]) else
      (mkU (aset (u_sess st) sid (mkS (RPeer lid) peer now))
           (match aget (u_pidx st) peer with Some _ => u_pidx st | None => aset (u_pidx st) peer sid end)
           (u_q st) (N.max (u_next st) (sid + 1)) (u_tag st) (u_log st),
       [EConnect sid peer])
    end
  | USend sid dg a =>
    match dg with
    | [] => (st, [])                                        (* send(): n == 0 is a no-op *)
    | _ =>
      match aget (u_sess st) sid with
      | None => (st, [])
      | Some s =>
        let tag := u_tag st in
        let d : outdg := (tag, ss_peer s, dg) in
        let st1 := mkU (u_sess st) (u_pidx st) (u_q st) (u_next st) (tag + 1) (u_log st ++ [d]) in
        match ss_role s with
        | RClient =>
          match a with
          | KOk => (set_sess st1 (aset (u_sess st1) sid (touch s now)), [EEmit (inr sid) tag (ss_peer s) dg])
          | KAgain =>
            let q := q_get st1 (ckey sid) ++ [d] in
            if c_maxq c <? lenN q then
              if c_cbp c then close_sess st1 sid
              else (set_q st1 (ckey sid) (tl q), [])
            else (set_q st1 (ckey sid) q, [])
          | KErr => close_sess st1 sid
          end
        | RPeer lid =>
          match aget (u_q st1) (lkey lid) with
          | None => close_sess st1 sid                      (* listener gone *)
          | Some lq =>
            match a with
            | KOk => (set_sess st1 (aset (u_sess st1) sid (touch s now)), [EEmit (inl lid) tag (ss_peer s) dg])
            | KAgain =>
              let q := lq ++ [d] in
              if c_maxq c <? lenN q then
                if c_cbp c then close_sess (set_q st1 (lkey lid) q) sid
                else (set_q st1 (lkey lid) (tl q), [])
              else (set_q st1 (lkey lid) q, [])
            | KErr => close_sess st1 sid
            end
          end
        end
      end
    end
  | UFlushL lid ans =>
    match aget (u_q st) (lkey lid) with
    | None => (st, [])
    | Some q => let r := flush_l lid q ans in (set_q st (lkey lid) (fst r), snd r)
    end
  | UFlushC sid ans =>
    match aget (u_sess st) sid with
    | Some s =>
      match ss_role s with
      | RClient =>
        let r := flush_c sid (q_get st (ckey sid)) ans in
        let st1 := set_q st (ckey sid) (fst (fst r)) in
        if snd r then (fst (close_sess st1 sid), snd (fst r) ++ snd (close_sess st1 sid))
        else (st1, snd (fst r))
      | RPeer _ => (st, [])
      end
    | None => (st, [])
    end
  | UClose sid => close_sess st sid
  | UGc =>
    if (c_idle c <=? 0)%Z then (st, []) else
    fold_left (fun (acc : ust * list uev) (ks : N * sess) =>
                 if (c_idle c <? now - ss_last (snd ks))%Z
                 then let r := close_sess (fst acc) (fst ks) in (fst r, snd acc ++ snd r)
                 else acc)
              (u_sess st) (st, [])
  end.

Definition uinit (lids : list N) : ust := mkU [] [] (map (fun l => (lkey l, [])) lids) 1 0 [].

(* a history: (time, operation); all events in order *)
Fixpoint urun (c : cfg) (st : ust) (h : list (Z * uop)) : ust * list uev :=
  match h with
  | [] => (st, [])
  | (now, o) :: h' =>
    let r := ustep c now st o in
    let r' := urun c (fst r) h' in
    (fst r', snd r ++ snd r')
  end.
