(* C19/GenTie.v — label / name limits of the model are the DNS constants of the current headers *)
From IoraVerif Require Import Common.Bytes C19.Model Gen.Constants.
Local Open Scope N_scope.
Theorem dns_limits_tie : max_label = DNS_MAX_LABEL_SIZE /\ max_name = DNS_MAX_NAME_SIZE.
Proof. split; reflexivity. Qed.
Print Assumptions dns_limits_tie.
