(* C19/Proofs.v — lemmas about C19/Model.v *)
From IoraVerif Require Import Common.Bytes C19.Model.
From Coq Require Import ZifyBool ZifyN ZifyNat Sorted.
Local Open Scope N_scope.

(* ------------------------------------------------------------ reads *)

Lemma rd_some m off : off < lenN m -> exists b, rd m off = Some b.
Proof.
  intros H. unfold rd. destruct (nth_error m (N.to_nat off)) eqn:E; [eauto|].
  apply nth_error_None in E. unfold lenN in H. lia.
Qed.

Lemma rd_lt m off b : rd m off = Some b -> off < lenN m.
Proof.
  unfold rd. intros H.
  assert (Hn : nth_error m (N.to_nat off) <> None) by congruence.
  apply nth_error_Some in Hn. unfold lenN. lia.
Qed.

Lemma slice_some m off len : off + len <= lenN m -> exists s, slice m off len = Some s /\ lenN s = len.
Proof.
  intros H. unfold slice. destruct (off + len <=? lenN m) eqn:E; [|lia].
  eexists; split; [reflexivity|].
  unfold lenN in *. rewrite firstn_length, skipn_length. lia.
Qed.

Lemma rd_app_mid pre x post : rd (pre ++ x :: post) (lenN pre) = Some x.
Proof.
  unfold rd, lenN. rewrite Nat2N.id. rewrite nth_error_app2 by lia.
  rewrite Nat.sub_diag. reflexivity.
Qed.

Lemma rd_app_skip pre l off : rd (pre ++ l) (lenN pre + off) = rd l off.
Proof.
  unfold rd, lenN. rewrite nth_error_app2 by lia. f_equal. lia.
Qed.

Lemma slice_app_mid pre s post : slice (pre ++ s ++ post) (lenN pre) (lenN s) = Some s.
Proof.
  unfold slice. rewrite !lenN_app.
  destruct (lenN pre + lenN s <=? lenN pre + (lenN s + lenN post)) eqn:E; [|lia].
  unfold lenN. rewrite !Nat2N.id.
  rewrite skipn_app, skipn_all, Nat.sub_diag. cbn [skipn app].
  rewrite firstn_app, Nat.sub_diag, firstn_all. cbn [firstn]. now rewrite app_nil_r.
Qed.

(* ------------------------------------------ decode_name is total and in bounds *)

Lemma walk_no_oob : forall fuel m off name total, walk fuel m off name total <> WOob.
Proof.
  induction fuel as [|f IH]; intros m off name total; cbn [walk]; [discriminate|].
  destruct (lenN m <=? off) eqn:E1; [discriminate|].
  destruct (rd_some m off ltac:(lia)) as [len ->].
  destruct (N.land len 192 =? 192); [discriminate|].
  destruct (len =? 0); [discriminate|].
  destruct (max_label <? len); [discriminate|].
  destruct (lenN m <? off + 1 + len) eqn:E2; [discriminate|].
  destruct (slice_some m (off + 1) len ltac:(lia)) as (s & -> & _).
  destruct (max_name <? total + len + 1); [discriminate|apply IH].
Qed.

Lemma walk_no_fuel : forall fuel m off name total,
  (N.to_nat (lenN m - off) < fuel)%nat -> walk fuel m off name total <> WFuel.
Proof.
  induction fuel as [|f IH]; intros m off name total Hf; [lia|]. cbn [walk].
  destruct (lenN m <=? off) eqn:E1; [discriminate|].
  destruct (rd m off) as [len|]; [|discriminate].
  destruct (N.land len 192 =? 192); [discriminate|].
  destruct (len =? 0) eqn:E0; [discriminate|].
  destruct (max_label <? len); [discriminate|].
  destruct (lenN m <? off + 1 + len) eqn:E2; [discriminate|].
  destruct (slice m (off + 1) len); [|discriminate].
  destruct (max_name <? total + len + 1); [discriminate|].
  apply IH. lia.
Qed.

Lemma walk_top_no_fuel m off name total : walk (S (length m)) m off name total <> WFuel.
Proof. apply walk_no_fuel. unfold lenN. lia. Qed.

(* pigeonhole: distinct numbers below n are at most n *)
Lemma nodup_bounded_length (l : list N) (n : nat) :
  NoDup l -> Forall (fun x => x < N.of_nat n) l -> (length l <= n)%nat.
Proof.
  intros Hnd Hb.
  assert (Hincl : incl l (map N.of_nat (seq 0 n))).
  { intros x Hx. rewrite Forall_forall in Hb. specialize (Hb x Hx).
    apply in_map_iff. exists (N.to_nat x). split; [apply N2Nat.id|]. apply in_seq. lia. }
  pose proof (NoDup_incl_length Hnd Hincl) as H. rewrite map_length, seq_length in H. exact H.
Qed.

Lemma existsb_eqb_false p l : existsb (N.eqb p) l = false -> ~ In p l.
Proof.
  intros H Hin. assert (existsb (N.eqb p) l = true); [|congruence].
  apply existsb_exists. exists p. split; [exact Hin|apply N.eqb_refl].
Qed.

Definition vis_ok (m : msg) (visited : list N) : Prop :=
  NoDup visited /\ Forall (fun x => x < lenN m) visited.

Lemma dloop_total : forall jfuel m off name total jumped orig visited,
  vis_ok m visited -> (length m < jfuel + length visited)%nat ->
  match dloop jfuel m off name total jumped orig visited with
  | NOk _ _ v => vis_ok m v
  | NErr => True
  | NOob => False
  | NFuel => False
  end.
Proof.
  induction jfuel as [|jf IH]; intros m off name total jumped orig visited Hv Hf.
  - (* no jump fuel: visited is already longer than the message: impossible *)
    exfalso. destruct Hv as [Hnd Hb].
    pose proof (nodup_bounded_length visited (length m) Hnd Hb). lia.
  - cbn [dloop].
    pose proof (walk_no_oob (S (length m)) m off name total) as Hno.
    pose proof (walk_top_no_fuel m off name total) as Hnf.
    destruct (walk (S (length m)) m off name total) as [n t o|n t o|n t o| | |];
      try exact Hv; try exact I; try congruence.
    destruct (lenN m <? o + 2) eqn:E2; [exact I|].
    destruct (rd_some m o ltac:(lia)) as [b1 ->].
    destruct (rd_some m (o + 1) ltac:(lia)) as [b2 ->].
    set (p := N.land b1 63 * 256 + b2).
    destruct (lenN m <=? p) eqn:Ep; [exact I|].
    destruct (existsb (N.eqb p) visited) eqn:Ev; [exact I|].
    assert (Hv' : vis_ok m (p :: visited)).
    { destruct Hv as [Hnd Hb]. split.
      - constructor; [now apply existsb_eqb_false|exact Hnd].
      - constructor; [lia|exact Hb]. }
    destruct jf as [|jf'].
    + exfalso. destruct Hv' as [Hnd Hb].
      pose proof (nodup_bounded_length (p :: visited) (length m) Hnd Hb) as Hl.
      cbn [length] in Hl. lia.
    + apply IH; [exact Hv'|cbn [length]; lia].
Qed.

Lemma decode_name_total m off :
  match decode_name m off with
  | NOk _ _ v => NoDup v /\ Forall (fun x => x < lenN m) v
  | NErr => True
  | NOob => False
  | NFuel => False
  end.
Proof.
  unfold decode_name.
  apply (dloop_total (S (length m)) m off [] 0 false off []).
  - split; constructor.
  - cbn [length]. lia.
Qed.

(* --------------------------------------- RFC 1035 §4.1.4 names as an inductive spec *)

Definition lab_ok (lab : list N) : Prop := 0 < lenN lab /\ lenN lab <= 63.
Definition ptr_target (b1 b2 : N) : N := N.land b1 63 * 256 + b2.

(* consecutive ordinary labels from off up to (not including) position stop *)
Inductive seg (m : msg) : N -> list (list N) -> N -> Prop :=
| Seg_nil off : seg m off [] off
| Seg_cons off lab labs stop :
    lab_ok lab -> rd m off = Some (lenN lab) -> slice m (off + 1) (lenN lab) = Some lab ->
    seg m (off + 1 + lenN lab) labs stop -> seg m off (lab :: labs) stop.

(* a possibly compressed name at off: its labels, the offset just after it, and the
   pointer targets followed, in order *)
Inductive cname (m : msg) : N -> list (list N) -> N -> list N -> Prop :=
| CN_end off labs stop :
    seg m off labs stop -> rd m stop = Some 0 -> cname m off labs (stop + 1) []
| CN_ptr off labs stop b1 b2 labs' e' tg :
    seg m off labs stop -> rd m stop = Some b1 -> N.land b1 192 = 192 ->
    rd m (stop + 1) = Some b2 ->
    cname m (ptr_target b1 b2) labs' e' tg ->
    cname m off (labs ++ labs') (stop + 2) (ptr_target b1 b2 :: tg).

Definition name_size (labs : list (list N)) : N :=
  fold_right (fun l acc => lenN l + 1 + acc) 0 labs.

Definition name_step (name lab : list N) : list N :=
  match name with [] => lab | _ => name ++ dot :: lab end.
Definition acc_name (name : list N) (labs : list (list N)) : list N :=
  fold_left name_step labs name.

Lemma name_size_app a b : name_size (a ++ b) = name_size a + name_size b.
Proof.
  induction a as [|x a IH]; [reflexivity|].
  change (name_size ((x :: a) ++ b)) with (lenN x + 1 + name_size (a ++ b)).
  change (name_size (x :: a)) with (lenN x + 1 + name_size a). lia.
Qed.

Lemma acc_name_app name a b : acc_name name (a ++ b) = acc_name (acc_name name a) b.
Proof. unfold acc_name. apply fold_left_app. Qed.

Definition small_no_ptr_b (len : N) : bool := N.land len 192 =? 0.
Lemma small_no_ptr len : len < 64 -> N.land len 192 = 0.
Proof.
  intros H. assert (Hb : small_no_ptr_b len = true).
  { apply (forallb_range small_no_ptr_b 64); [vm_compute; reflexivity|exact H]. }
  unfold small_no_ptr_b in Hb. lia.
Qed.

Lemma slice_some_inv m off len s : slice m off len = Some s -> off + len <= lenN m.
Proof. unfold slice. destruct (off + len <=? lenN m) eqn:E; [lia|discriminate]. Qed.

Lemma seg_le m off labs stop : seg m off labs stop -> off + N.of_nat (length labs) <= stop.
Proof.
  induction 1 as [off|off lab labs stop [Hl0 Hl1] Hrd Hs _ IH]; cbn [length]; lia.
Qed.

(* the inner loop follows a segment *)
Lemma walk_seg m off labs stop : seg m off labs stop ->
  forall fuel name total, (length labs <= fuel)%nat ->
  total + name_size labs <= max_name ->
  walk fuel m off name total =
  walk (fuel - length labs) m stop (acc_name name labs) (total + name_size labs).
Proof.
  induction 1 as [off|off lab labs stop [Hl0 Hl1] Hrd Hs _ IH]; intros fuel name total Hf Ht.
  - cbn [length name_size fold_right acc_name fold_left]. rewrite Nat.sub_0_r, N.add_0_r. reflexivity.
  - destruct fuel as [|f]; [cbn [length] in Hf; lia|].
    change (name_size (lab :: labs)) with (lenN lab + 1 + name_size labs) in *.
    cbn [walk length].
    pose proof (rd_lt _ _ _ Hrd) as Hlt.
    destruct (lenN m <=? off) eqn:E1; [lia|]. rewrite Hrd.
    rewrite (small_no_ptr (lenN lab)) by lia. cbn [N.eqb].
    destruct (lenN lab =? 0) eqn:E0; [lia|].
    unfold max_label. destruct (63 <? lenN lab) eqn:E63; [lia|].
    pose proof (slice_some_inv _ _ _ _ Hs) as Hb.
    destruct (lenN m <? off + 1 + lenN lab) eqn:E2; [lia|]. rewrite Hs.
    unfold max_name in *.
    destruct (253 <? total + lenN lab + 1) eqn:E3; [lia|].
    rewrite IH by (cbn [length] in Hf; lia).
    cbn [acc_name fold_left]. fold (name_step name lab).
    replace (S f - S (length labs))%nat with (f - length labs)%nat by lia.
    f_equal. lia.
Qed.

Lemma seg_targets_bound m p labs stop b : seg m p labs stop -> rd m stop = Some b -> p < lenN m.
Proof. intros Hs Hr. apply seg_le in Hs. apply rd_lt in Hr. lia. Qed.

Lemma cname_targets_bound m off labs e tg :
  cname m off labs e tg -> Forall (fun x => x < lenN m) tg.
Proof.
  induction 1 as [off labs stop Hs Hr|off labs stop b1 b2 labs' e' tg Hs Hr Hp Hr2 Hc IH];
    [constructor|].
  constructor; [|exact IH].
  inversion Hc; subst; eapply seg_targets_bound; eauto.
Qed.

Lemma dloop_cname m off labs e tg : cname m off labs e tg ->
  forall jfuel name total jumped orig visited,
  (length tg <= jfuel)%nat -> NoDup tg -> (forall x, In x tg -> ~ In x visited) ->
  total + name_size labs <= max_name ->
  dloop jfuel m off name total jumped orig visited =
  NOk (acc_name name labs) (if jumped then orig else e) (rev tg ++ visited).
Proof.
  induction 1 as [off labs stop Hs Hr|off labs stop b1 b2 labs' e' tg Hs Hr Hp Hr2 Hc IH];
    intros jfuel name total jumped orig visited Hj Hnd Hdis Ht.
  - assert (Hw : walk (S (length m)) m off name total =
                 WEnd (acc_name name labs) (total + name_size labs) (stop + 1)).
    { pose proof (seg_le _ _ _ _ Hs) as Hle. pose proof (rd_lt _ _ _ Hr) as Hlt.
      unfold lenN in Hlt.
      rewrite (walk_seg _ _ _ _ Hs) by (try exact Ht; lia).
      replace (S (length m) - length labs)%nat with (S (length m - length labs)) by lia.
      cbn [walk]. destruct (lenN m <=? stop) eqn:E; [unfold lenN in E; lia|]. rewrite Hr.
      reflexivity. }
    destruct jfuel; cbn [dloop]; rewrite Hw; reflexivity.
  - rewrite name_size_app in Ht.
    assert (Hw : walk (S (length m)) m off name total =
                 WPtr (acc_name name labs) (total + name_size labs) stop).
    { pose proof (seg_le _ _ _ _ Hs) as Hle. pose proof (rd_lt _ _ _ Hr) as Hlt.
      unfold lenN in Hlt.
      rewrite (walk_seg _ _ _ _ Hs) by (try lia).
      replace (S (length m) - length labs)%nat with (S (length m - length labs)) by lia.
      cbn [walk]. destruct (lenN m <=? stop) eqn:E; [unfold lenN in E; lia|]. rewrite Hr, Hp.
      reflexivity. }
    pose proof (rd_lt _ _ _ Hr2) as Hlt2.
    pose proof (cname_targets_bound _ _ _ _ _ (CN_ptr _ _ _ _ _ _ _ _ _ Hs Hr Hp Hr2 Hc)) as Hb.
    inversion Hb as [|x l Hpb Hb']; subst.
    inversion Hnd as [|x l Hnin Hnd']; subst.
    destruct jfuel as [|jf]; [cbn [length] in Hj; lia|].
    cbn [dloop]. rewrite Hw.
    destruct (lenN m <? stop + 2) eqn:E2; [lia|]. rewrite Hr, Hr2.
    fold (ptr_target b1 b2).
    destruct (lenN m <=? ptr_target b1 b2) eqn:Ep; [lia|].
    destruct (existsb (N.eqb (ptr_target b1 b2)) visited) eqn:Ev.
    { exfalso. apply existsb_exists in Ev as (y & Hy & Heq). apply N.eqb_eq in Heq. subst y.
      apply (Hdis (ptr_target b1 b2)); [now left|exact Hy]. }
    rewrite IH; try (cbn [length] in Hj; lia); try exact Hnd'.
    + rewrite acc_name_app. cbn [rev]. rewrite <- app_assoc. cbn [app].
      destruct jumped; reflexivity.
    + intros x Hx [Hxe|Hxv]; [subst x; contradiction|]. apply (Hdis x); [now right|exact Hxv].
Qed.

Lemma acc_name_concat name labs : name <> [] ->
  acc_name name labs = name ++ concat (map (fun l => dot :: l) labs).
Proof.
  revert name; induction labs as [|l labs IH]; intros name Hn; cbn [acc_name fold_left map concat].
  - now rewrite app_nil_r.
  - fold (acc_name (name_step name l) labs).
    assert (Hs : name_step name l = name ++ dot :: l) by (destruct name; [congruence|reflexivity]).
    rewrite Hs, IH by (destruct name; discriminate). now rewrite <- app_assoc.
Qed.

Lemma join_labels_concat l labs :
  join_labels (l :: labs) = l ++ concat (map (fun x => dot :: x) labs).
Proof.
  revert l; induction labs as [|l' labs IH]; intros l.
  - cbn. now rewrite app_nil_r.
  - change (join_labels (l :: l' :: labs)) with (l ++ dot :: join_labels (l' :: labs)).
    rewrite IH. cbn [map concat app]. reflexivity.
Qed.

Lemma acc_name_join labs : Forall (fun l => l <> []) labs -> acc_name [] labs = join_labels labs.
Proof.
  destruct labs as [|l labs]; [reflexivity|]. intros H. inversion H; subst.
  cbn [acc_name fold_left name_step]. fold (acc_name l labs).
  rewrite acc_name_concat by assumption. now rewrite join_labels_concat.
Qed.

Lemma seg_labels_nonempty m off labs stop : seg m off labs stop -> Forall (fun l => l <> []) labs.
Proof.
  induction 1 as [|off lab labs stop [H0 H1] _ _ _ IH]; constructor; [|exact IH].
  intros ->. cbn in H0. lia.
Qed.

Lemma cname_labels_nonempty m off labs e tg : cname m off labs e tg -> Forall (fun l => l <> []) labs.
Proof.
  induction 1; [eapply seg_labels_nonempty; eauto|].
  apply Forall_app; split; [eapply seg_labels_nonempty; eauto|assumption].
Qed.

Theorem decode_name_exact m off labs e tg :
  cname m off labs e tg -> NoDup tg -> name_size labs <= max_name ->
  decode_name m off = NOk (join_labels labs) e (rev tg).
Proof.
  intros Hc Hnd Hsz. unfold decode_name.
  pose proof (cname_targets_bound _ _ _ _ _ Hc) as Hb.
  pose proof (nodup_bounded_length tg (length m) Hnd Hb) as Hlen.
  rewrite (dloop_cname _ _ _ _ _ Hc) by (auto; lia).
  rewrite app_nil_r. rewrite acc_name_join by (eapply cname_labels_nonempty; eauto).
  reflexivity.
Qed.

(* compressors that only point backwards to earlier names produce strictly decreasing
   target chains, hence never a repeated target *)
Lemma decreasing_nodup (tg : list N) : StronglySorted N.gt tg -> NoDup tg.
Proof.
  induction 1 as [|x l Hs IH Hx]; constructor; [|exact IH].
  intros Hin. rewrite Forall_forall in Hx. specialize (Hx x Hin). lia.
Qed.

(* ----------------------------------------- encodeName / decodeName round trip *)

Lemma encode_labels_seg : forall labs e, encode_labels labs = Some e ->
  Forall (fun l => l <> []) labs ->
  forall pre post, exists stop,
    seg (pre ++ e ++ post) (lenN pre) labs stop /\ stop + 1 = lenN pre + lenN e /\
    rd (pre ++ e ++ post) stop = Some 0 /\ name_size labs + 1 = lenN e.
Proof.
  induction labs as [|l t IH]; intros e He Hne pre post.
  - cbn in He. injection He as <-. exists (lenN pre). repeat split.
    + constructor.
    + cbn [app]. apply rd_app_mid.
  - cbn [encode_labels] in He. unfold max_label in He.
    destruct (63 <? lenN l) eqn:E63; [discriminate|].
    destruct (encode_labels t) as [r|] eqn:Er; [|discriminate]. injection He as <-.
    inversion Hne as [|x y Hl Ht]; subst.
    destruct (IH r eq_refl Ht (pre ++ lenN l :: l) post) as (stop & Hseg & Hstop & Hrd & Hsz).
    assert (Hm : (pre ++ lenN l :: l) ++ r ++ post = pre ++ (lenN l :: l ++ r) ++ post).
    { rewrite <- app_assoc. cbn [app]. now rewrite <- app_assoc. }
    rewrite Hm in *.
    exists stop. repeat split.
    + constructor.
      * split; [|lia]. destruct l; [congruence|rewrite lenN_cons; lia].
      * cbn [app]. apply rd_app_mid.
      * replace (pre ++ (lenN l :: l ++ r) ++ post) with ((pre ++ [lenN l]) ++ l ++ (r ++ post)).
        2:{ rewrite <- !app_assoc. cbn [app]. now rewrite <- app_assoc. }
        replace (lenN pre + 1) with (lenN (pre ++ [lenN l])) by (rewrite lenN_app; reflexivity).
        apply slice_app_mid.
      * replace (lenN pre + 1 + lenN l) with (lenN (pre ++ lenN l :: l))
          by (rewrite lenN_app, lenN_cons; lia).
        exact Hseg.
    + rewrite lenN_app, lenN_cons in Hstop. rewrite lenN_cons, lenN_app. lia.
    + exact Hrd.
    + change (name_size (l :: t)) with (lenN l + 1 + name_size t).
      rewrite lenN_cons, lenN_app. lia.
Qed.

Theorem encode_decode_name labs e pre post :
  encode_name labs = Some e -> Forall (fun l => l <> []) labs ->
  decode_name (pre ++ e ++ post) (lenN pre) = NOk (join_labels labs) (lenN pre + lenN e) [].
Proof.
  unfold encode_name. intros He Hne.
  destruct (encode_labels labs) as [e'|] eqn:El; [|discriminate].
  unfold max_name in He. destruct (253 <? lenN e') eqn:E; [discriminate|]. injection He as <-.
  destruct (encode_labels_seg labs e' El Hne pre post) as (stop & Hseg & Hstop & Hrd & Hsz).
  pose proof (CN_end _ _ _ _ Hseg Hrd) as Hc.
  rewrite (decode_name_exact _ _ _ _ _ Hc); [|constructor|unfold max_name; lia].
  cbn [rev]. f_equal. lia.
Qed.

(* ------------------------------------------------------- query round trip *)

Definition qspec := (list (list N) * N * N)%type.
Definition q_of (q : qspec) : question :=
  let '(labs, ty, cl) := q in mkQ (join_labels labs) ty cl.
Definition wf_q (q : qspec) : Prop :=
  let '(labs, ty, cl) := q in Forall (fun l => l <> []) labs /\ ty < 65536 /\ cl < 65536.

Lemma lenN_be2 x : lenN (be_encode 2 x) = 2.
Proof. unfold lenN. now rewrite be_encode_length. Qed.

Lemma be2 x : be_encode 2 x = [x / 256 mod 256; x mod 256].
Proof.
  cbn [be_encode]. change (256 ^ N.of_nat 1) with 256. change (256 ^ N.of_nat 0) with 1.
  now rewrite N.div_1_r.
Qed.

Lemma rd16_be pre x post : x < 65536 ->
  rd16 (pre ++ be_encode 2 x ++ post) (lenN pre) = Some x.
Proof.
  intros Hx. rewrite be2. unfold rd16. cbn [app].
  rewrite rd_app_mid.
  replace (pre ++ x / 256 mod 256 :: x mod 256 :: post)
    with ((pre ++ [x / 256 mod 256]) ++ x mod 256 :: post) by (now rewrite <- app_assoc).
  replace (lenN pre + 1) with (lenN (pre ++ [x / 256 mod 256])) by (rewrite lenN_app; reflexivity).
  rewrite rd_app_mid. f_equal.
  rewrite (N.mod_small (x / 256)) by (apply N.div_lt_upper_bound; lia).
  pose proof (N.div_mod x 256 ltac:(lia)). lia.
Qed.

Lemma check_bounds_ok m off needed : off + needed <= lenN m -> check_bounds m off needed = ROk tt.
Proof. intros H. unfold check_bounds. destruct (lenN m <? off + needed) eqn:E; [lia|reflexivity]. Qed.

Lemma parse_question_build labs ty cl e pre post :
  encode_name labs = Some e -> wf_q (labs, ty, cl) ->
  parse_question (pre ++ (e ++ be_encode 2 ty ++ be_encode 2 cl) ++ post) (lenN pre) =
  ROk (mkQ (join_labels labs) ty cl, lenN pre + lenN e + 4).
Proof.
  intros He (Hne & Hty & Hcl). unfold parse_question.
  rewrite <- !app_assoc.
  rewrite (encode_decode_name labs e pre _ He Hne). cbn [of_nres bind].
  set (m := pre ++ e ++ be_encode 2 ty ++ be_encode 2 cl ++ post).
  assert (Hlen : lenN m = lenN pre + lenN e + 4 + lenN post).
  { unfold m. rewrite !lenN_app, !lenN_be2. lia. }
  rewrite check_bounds_ok by lia. cbn [bind].
  assert (H1 : rd16 m (lenN pre + lenN e) = Some ty).
  { unfold m. rewrite app_assoc. rewrite <- lenN_app. apply rd16_be. exact Hty. }
  rewrite H1. cbn [lift bind].
  rewrite check_bounds_ok by lia. cbn [bind].
  assert (H2 : rd16 m (lenN pre + lenN e + 2) = Some cl).
  { unfold m.
    replace (pre ++ e ++ be_encode 2 ty ++ be_encode 2 cl ++ post)
      with ((pre ++ e ++ be_encode 2 ty) ++ be_encode 2 cl ++ post)
      by (now rewrite <- !app_assoc).
    replace (lenN pre + lenN e + 2) with (lenN (pre ++ e ++ be_encode 2 ty)).
    2:{ rewrite !lenN_app, !lenN_be2. lia. }
    apply rd16_be. exact Hcl. }
  rewrite H2. reflexivity.
Qed.

Lemma parse_questions_build : forall qs b, build_questions qs = Some b -> Forall wf_q qs ->
  forall pre post,
  parse_questions (length qs) (pre ++ b ++ post) (lenN pre) =
  ROk (map q_of qs, lenN pre + lenN b).
Proof.
  induction qs as [|[[labs ty] cl] qs IH]; intros b Hb Hwf pre post.
  - cbn in Hb. injection Hb as <-. cbn. f_equal. f_equal. lia.
  - cbn [build_questions] in Hb.
    destruct (encode_name labs) as [e|] eqn:He; [|discriminate].
    destruct (build_questions qs) as [r|] eqn:Hr; [|discriminate].
    assert (Hbe : b = e ++ be_encode 2 ty ++ be_encode 2 cl ++ r) by congruence.
    clear Hb. subst b.
    inversion Hwf as [|x y Hq Hqs]; subst.
    cbn [length parse_questions map].
    replace (pre ++ (e ++ be_encode 2 ty ++ be_encode 2 cl ++ r) ++ post)
      with (pre ++ (e ++ be_encode 2 ty ++ be_encode 2 cl) ++ (r ++ post))
      by (now rewrite <- !app_assoc).
    rewrite (parse_question_build labs ty cl e pre (r ++ post) He Hq). cbn [bind].
    replace (pre ++ (e ++ be_encode 2 ty ++ be_encode 2 cl) ++ r ++ post)
      with ((pre ++ e ++ be_encode 2 ty ++ be_encode 2 cl) ++ r ++ post)
      by (now rewrite <- !app_assoc).
    replace (lenN pre + lenN e + 4) with (lenN (pre ++ e ++ be_encode 2 ty ++ be_encode 2 cl)).
    2:{ rewrite !lenN_app, !lenN_be2. lia. }
    rewrite (IH r eq_refl Hqs). cbn [bind q_of].
    f_equal. f_equal. rewrite !lenN_app, !lenN_be2. lia.
Qed.

Theorem query_roundtrip qs rdflag id b :
  build_query qs rdflag id = Some b -> Forall wf_q qs -> lenN qs < 65536 -> id < 65536 ->
  parse b = ROk (mkRes (mkHdr id (if rdflag then 256 else 0) (lenN qs) 0 0 0)
                       (map q_of qs) [] [] [] []).
Proof.
  unfold build_query. intros Hb Hwf Hn Hid.
  destruct (build_questions qs) as [qb|] eqn:Hq; [|discriminate].
  assert (Hbe : b = be_encode 2 id ++ be_encode 2 (if rdflag then 256 else 0)
                    ++ be_encode 2 (lenN qs mod 65536) ++ [0; 0; 0; 0; 0; 0] ++ qb) by congruence.
  clear Hb. subst b.
  rewrite (N.mod_small (lenN qs)) by exact Hn.
  set (fl := if rdflag then 256 else 0).
  assert (Hfl : fl < 65536) by (unfold fl; destruct rdflag; lia).
  unfold parse.
  set (m := be_encode 2 id ++ be_encode 2 fl ++ be_encode 2 (lenN qs) ++ [0; 0; 0; 0; 0; 0] ++ qb).
  assert (Hlen : lenN m = 12 + lenN qb).
  { unfold m. rewrite !lenN_app, !lenN_be2. change (lenN [0; 0; 0; 0; 0; 0]) with 6. lia. }
  destruct (lenN m <? 12) eqn:E12; [lia|].
  assert (H0 : rd16 m 0 = Some id).
  { unfold m. apply (rd16_be [] id _ Hid). }
  assert (H2 : rd16 m 2 = Some fl).
  { unfold m. rewrite <- (lenN_be2 id) at 1. apply rd16_be. exact Hfl. }
  assert (H4 : rd16 m 4 = Some (lenN qs)).
  { unfold m. rewrite app_assoc.
    replace 4 with (lenN (be_encode 2 id ++ be_encode 2 fl)) at 1
      by (rewrite lenN_app, !lenN_be2; reflexivity).
    apply rd16_be. exact Hn. }
  assert (Hz : forall k, k = 6 \/ k = 8 \/ k = 10 -> rd16 m k = Some 0).
  { intros k Hk. unfold m. rewrite !be2. destruct Hk as [->|[->| ->]]; reflexivity. }
  rewrite H0, H2, H4, (Hz 6), (Hz 8), (Hz 10) by auto. cbn [lift bind].
  unfold lenN at 1. rewrite Nat2N.id.
  assert (Hm : m = (be_encode 2 id ++ be_encode 2 fl ++ be_encode 2 (lenN qs) ++ [0; 0; 0; 0; 0; 0])
                   ++ qb ++ []).
  { unfold m. rewrite app_nil_r, <- !app_assoc. reflexivity. }
  rewrite Hm.
  replace 12 with (lenN (be_encode 2 id ++ be_encode 2 fl ++ be_encode 2 (lenN qs) ++ [0; 0; 0; 0; 0; 0])) at 1.
  2:{ rewrite !lenN_app, !lenN_be2. reflexivity. }
  rewrite (parse_questions_build qs qb Hq Hwf). cbn [bind N.to_nat parse_rrs]. reflexivity.
Qed.

(* ------------------------------------------------------------ cache soundness *)

Lemma key_eqb_eq a b : key_eqb a b = true -> a = b.
Proof.
  destruct a as [[n1 t1] c1], b as [[n2 t2] c2]. unfold key_eqb.
  destruct (list_eq_dec N.eq_dec n1 n2) as [->|]; cbn [andb]; [|discriminate].
  intros H. apply andb_prop in H as [H1 H2]. apply N.eqb_eq in H1, H2. now subst.
Qed.

Lemma c_find_in c k e : c_find c k = Some e -> In e c /\ ce_key e = k.
Proof.
  induction c as [|x c IH]; cbn [c_find]; [discriminate|].
  destruct (key_eqb (ce_key x) k) eqn:E.
  - intros H; injection H as <-. split; [now left|now apply key_eqb_eq].
  - intros H. destruct (IH H). split; [now right|assumption].
Qed.

Lemma c_remove_in c k e : In e (c_remove c k) -> In e c.
Proof.
  induction c as [|x c IH]; cbn [c_remove]; [auto|].
  destruct (key_eqb (ce_key x) k); cbn [In]; intuition.
Qed.

(* where a cache entry comes from: a put of that value for that key with ttl > 0 *)
Definition justified (default : N) (h : list (N * cop)) (e : centry) : Prop :=
  exists t0 n ty cl ttl,
    In (t0, (if ce_neg e then CPutNeg n ty cl (ce_val e) ttl else CPut n ty cl (ce_val e) ttl)) h /\
    ce_key e = key_of n ty cl /\ 0 < ttl /\ ce_exp e = t0 + ttl.

Definition cinv (default : N) (h : list (N * cop)) (c : cache) : Prop :=
  forall e, In e c -> justified default h e.

Lemma justified_mono default h x e : justified default h e -> justified default (h ++ [x]) e.
Proof.
  intros (t0 & n & ty & cl & ttl & Hin & Hk & Ht & He).
  exists t0, n, ty, cl, ttl. repeat split; auto. apply in_or_app. now left.
Qed.

Lemma ec_get_sub c k now c1 r : ec_get c k now = (c1, r) ->
  (forall e, In e c1 -> In e c) /\
  (forall e, r = Some e -> In e c /\ ce_key e = k /\ now < ce_exp e).
Proof.
  unfold ec_get. destruct (c_find c k) as [e0|] eqn:Ef.
  - destruct (now <? ce_exp e0) eqn:El; intros H; injection H as <- <-.
    + split; [auto|]. intros e He. injection He as <-.
      destruct (c_find_in _ _ _ Ef). repeat split; auto. lia.
    + split; [intros e; apply c_remove_in|discriminate].
  - intros H; injection H as <- <-. split; [auto|discriminate].
Qed.

Lemma c_step_inv default h c t o c1 r :
  cinv default h c -> c_step default c t o = (c1, r) -> cinv default (h ++ [(t, o)]) c1.
Proof.
  intros Hinv Hs e He.
  destruct o as [n ty cl v ttl|n ty cl v ttl|n ty cl|n ty cl|]; cbn [c_step] in Hs.
  - destruct (ec_get c (key_of n ty cl) t) as [c' had] eqn:Eg.
    destruct (ec_get_sub _ _ _ _ _ Eg) as [Hsub _].
    destruct (ttl =? 0) eqn:E0; injection Hs as <- <-.
    + apply justified_mono, Hinv, Hsub. eapply c_remove_in; eauto.
    + unfold ec_set in He. destruct He as [<-|He].
      * exists t, n, ty, cl, ttl. cbn [ce_neg ce_val ce_key ce_exp].
        destruct (0 <? ttl) eqn:El; [|lia].
        repeat split; auto; [apply in_or_app; right; now left|lia].
      * apply justified_mono, Hinv, Hsub. eapply c_remove_in; eauto.
  - destruct (ec_get c (key_of n ty cl) t) as [c' had] eqn:Eg.
    destruct (ec_get_sub _ _ _ _ _ Eg) as [Hsub _].
    destruct (ttl =? 0) eqn:E0; injection Hs as <- <-.
    + apply justified_mono, Hinv, Hsub. eapply c_remove_in; eauto.
    + unfold ec_set in He. destruct He as [<-|He].
      * exists t, n, ty, cl, ttl. cbn [ce_neg ce_val ce_key ce_exp].
        destruct (0 <? ttl) eqn:El; [|lia].
        repeat split; auto; [apply in_or_app; right; now left|lia].
      * apply justified_mono, Hinv, Hsub. eapply c_remove_in; eauto.
  - destruct (ec_get c (key_of n ty cl) t) as [c' had] eqn:Eg.
    destruct (ec_get_sub _ _ _ _ _ Eg) as [Hsub _]. injection Hs as <- <-.
    apply justified_mono, Hinv, Hsub, He.
  - injection Hs as <- <-. apply justified_mono, Hinv. eapply c_remove_in; eauto.
  - injection Hs as <- <-. destruct He.
Qed.

(* every answer served: same question up to ASCII case, type, class; a put with that
   value; strictly before put-time + ttl *)
Lemma c_step_get_sound default h c t n ty cl c1 v neg :
  cinv default h c -> c_step default c t (CGet n ty cl) = (c1, Some (v, neg)) ->
  exists t0 n' ttl,
    In (t0, (if neg then CPutNeg n' ty cl v ttl else CPut n' ty cl v ttl)) h /\
    map lower n' = map lower n /\ 0 < ttl /\ t < t0 + ttl.
Proof.
  intros Hinv Hs. cbn [c_step] in Hs.
  destruct (ec_get c (key_of n ty cl) t) as [c' r] eqn:Eg.
  destruct r as [e|]; [|discriminate].
  destruct (ec_get_sub _ _ _ _ _ Eg) as [_ Hr]. destruct (Hr e eq_refl) as (Hin & Hk & Hlt).
  assert (Hv : ce_val e = v /\ ce_neg e = neg) by (split; congruence). destruct Hv as [<- <-].
  destruct (Hinv e Hin) as (t0 & n' & ty' & cl' & ttl & Hh & Hk' & Ht & He).
  rewrite Hk in Hk'. unfold key_of in Hk'. injection Hk' as Hn Hty Hcl. subst ty' cl'.
  exists t0, n', ttl. repeat split; auto. lia.
Qed.

Theorem cache_sound default : forall h2 h1 c rs2 c2,
  cinv default h1 c -> c_run default c h2 = (c2, rs2) ->
  forall i t n ty cl v neg,
    nth_error h2 i = Some (t, CGet n ty cl) -> nth_error rs2 i = Some (Some (v, neg)) ->
    exists t0 n' ttl,
      In (t0, (if neg then CPutNeg n' ty cl v ttl else CPut n' ty cl v ttl)) (h1 ++ firstn i h2) /\
      map lower n' = map lower n /\ 0 < ttl /\ t < t0 + ttl.
Proof.
  induction h2 as [|[t0 o] h2 IH]; intros h1 c rs2 c2 Hinv Hrun i t n ty cl v neg Hi Hr.
  - destruct i; discriminate.
  - cbn [c_run] in Hrun.
    destruct (c_step default c t0 o) as [c1 r] eqn:Es.
    destruct (c_run default c1 h2) as [c3 rs] eqn:Er. injection Hrun as <- <-.
    destruct i as [|i].
    + cbn in Hi, Hr. injection Hi as -> ->. injection Hr as ->.
      cbn [firstn]. rewrite app_nil_r. eapply c_step_get_sound; eauto.
    + cbn [nth_error] in Hi, Hr.
      pose proof (c_step_inv _ _ _ _ _ _ _ Hinv Es) as Hinv1.
      destruct (IH _ _ _ _ Hinv1 Er i t n ty cl v neg Hi Hr) as (t1 & n' & ttl & Hin & Hrest).
      exists t1, n', ttl. split; [|exact Hrest].
      cbn [firstn]. rewrite <- app_assoc in Hin. exact Hin.
Qed.

(* -------------------------------- the whole parser never reads out of bounds *)

Definition safe {A} (r : res A) : Prop := r <> ROob /\ r <> RFuel.

Lemma safe_ok {A} (a : A) : safe (ROk a). Proof. split; discriminate. Qed.
Lemma safe_err {A} : safe (@RErr A). Proof. split; discriminate. Qed.
Lemma safe_bind {A B} (r : res A) (f : A -> res B) :
  safe r -> (forall a, r = ROk a -> safe (f a)) -> safe (bind r f).
Proof.
  intros [H1 H2] Hf. destruct r; cbn [bind]; try congruence; [now apply Hf|apply safe_err].
Qed.

Lemma safe_of_nres m off : safe (of_nres (decode_name m off)).
Proof.
  pose proof (decode_name_total m off) as H.
  destruct (decode_name m off); cbn [of_nres]; try contradiction; [apply safe_ok|apply safe_err].
Qed.

Lemma safe_check m off k : safe (check_bounds m off k).
Proof. unfold check_bounds. destruct (_ <? _); [apply safe_err|apply safe_ok]. Qed.

Lemma check_bounds_inv m off k u : check_bounds m off k = ROk u -> off + k <= lenN m.
Proof. unfold check_bounds. destruct (lenN m <? off + k) eqn:E; [discriminate|lia]. Qed.

Lemma rd16_some m off : off + 2 <= lenN m -> exists x, rd16 m off = Some x.
Proof.
  intros H. unfold rd16.
  destruct (rd_some m off ltac:(lia)) as [a ->]. destruct (rd_some m (off + 1) ltac:(lia)) as [b ->].
  eauto.
Qed.

Lemma rd32_some m off : off + 4 <= lenN m -> exists x, rd32 m off = Some x.
Proof.
  intros H. unfold rd32.
  destruct (rd16_some m off ltac:(lia)) as [a ->]. destruct (rd16_some m (off + 2) ltac:(lia)) as [b ->].
  eauto.
Qed.

Lemma safe_lift16 m off : off + 2 <= lenN m -> safe (lift (rd16 m off)).
Proof. intros H. destruct (rd16_some m off H) as [x ->]. apply safe_ok. Qed.
Lemma safe_lift32 m off : off + 4 <= lenN m -> safe (lift (rd32 m off)).
Proof. intros H. destruct (rd32_some m off H) as [x ->]. apply safe_ok. Qed.
Lemma safe_lift_slice m off k : off + k <= lenN m -> safe (lift (slice m off k)).
Proof. intros H. destruct (slice_some m off k H) as (s & -> & _). apply safe_ok. Qed.

Lemma safe_parse_question m off : safe (parse_question m off).
Proof.
  unfold parse_question.
  apply safe_bind; [apply safe_of_nres|]. intros [name o] _.
  apply safe_bind; [apply safe_check|]. intros u Hc. apply check_bounds_inv in Hc.
  apply safe_bind; [apply safe_lift16; lia|]. intros ty _.
  apply safe_bind; [apply safe_check|]. intros u2 Hc2. apply check_bounds_inv in Hc2.
  apply safe_bind; [apply safe_lift16; lia|]. intros cl _. apply safe_ok.
Qed.

Lemma safe_parse_rr m off : safe (parse_rr m off).
Proof.
  unfold parse_rr.
  apply safe_bind; [apply safe_of_nres|]. intros [name o] _.
  apply safe_bind; [apply safe_check|]. intros u1 H1. apply check_bounds_inv in H1.
  apply safe_bind; [apply safe_lift16; lia|]. intros ty _.
  apply safe_bind; [apply safe_check|]. intros u2 H2. apply check_bounds_inv in H2.
  apply safe_bind; [apply safe_lift16; lia|]. intros cl _.
  apply safe_bind; [apply safe_check|]. intros u3 H3. apply check_bounds_inv in H3.
  apply safe_bind; [apply safe_lift32; lia|]. intros ttl _.
  apply safe_bind; [apply safe_check|]. intros u4 H4. apply check_bounds_inv in H4.
  apply safe_bind; [apply safe_lift16; lia|]. intros rdl _.
  apply safe_bind; [apply safe_check|]. intros u5 H5. apply check_bounds_inv in H5.
  apply safe_bind; [apply safe_lift_slice; lia|]. intros rdata _.
  destruct (validate_rdata ty rdata); [apply safe_ok|apply safe_err].
Qed.

Lemma safe_scan : forall fuel d c, (N.to_nat (lenN d - c) < fuel)%nat -> safe (scan_rdata fuel d c).
Proof.
  induction fuel as [|f IH]; intros d c Hf; [lia|]. cbn [scan_rdata].
  destruct (lenN d <=? c) eqn:E; [apply safe_ok|].
  destruct (rd_some d c ltac:(lia)) as [b ->].
  destruct (is_ptr_byte b); [apply safe_ok|].
  destruct (b =? 0); [apply safe_ok|].
  destruct (max_label <? b); [apply safe_err|].
  destruct (lenN d <=? c + 1 + b) eqn:E2; [apply safe_err|].
  apply IH. lia.
Qed.

Lemma safe_dnfr m rs ro d : safe (dnfr m rs ro d).
Proof.
  unfold dnfr.
  destruct ((lenN d =? 0) || (lenN d <=? ro)) eqn:E0; [apply safe_ok|].
  destruct (if ro + 1 <? lenN d then match rd d ro with Some b => is_ptr_byte b | None => false end
            else false) eqn:Ed.
  - destruct (ro + 1 <? lenN d) eqn:E1; [|discriminate].
    apply safe_bind; [apply safe_lift16; lia|]. intros p _.
    destruct ((N.land p 16383 <? lenN m) && (N.land p 16383 + 1 <? lenN m)); [|apply safe_err].
    apply safe_bind; [apply safe_of_nres|]. intros [name o] _. apply safe_ok.
  - destruct (lenN m <=? rs + ro); [apply safe_err|].
    apply safe_bind; [apply safe_of_nres|]. intros [name o] _.
    destruct ((rs <=? o) && (o <=? rs + lenN d)); [apply safe_ok|].
    apply safe_bind; [|intros c _; apply safe_ok].
    apply safe_scan. unfold lenN. lia.
Qed.

Lemma safe_swallow {A} (r : res A) : safe r -> safe (swallow r).
Proof. intros [H1 H2]. destruct r; cbn [swallow]; try congruence; apply safe_ok. Qed.

Lemma safe_typed_of m r : safe (typed_of m r).
Proof.
  unfold typed_of.
  destruct (r_type r =? 1); [apply safe_ok|].
  destruct (r_type r =? 28); [apply safe_ok|].
  destruct (r_type r =? 33).
  { destruct (lenN (r_data r) <? 6) eqn:E; [apply safe_ok|].
    apply safe_bind; [apply safe_lift16; lia|]. intros p _.
    apply safe_bind; [apply safe_lift16; lia|]. intros w _.
    apply safe_bind; [apply safe_lift16; lia|]. intros po _.
    destruct (6 <? lenN (r_data r)); [|apply safe_ok].
    apply safe_swallow. apply safe_bind; [apply safe_dnfr|]. intros [t o] _. apply safe_ok. }
  destruct (r_type r =? 35).
  { destruct (lenN (r_data r) <? 4) eqn:E; [apply safe_ok|].
    apply safe_bind; [apply safe_lift16; lia|]. intros p _.
    apply safe_bind; [apply safe_lift16; lia|]. intros w _.
    destruct (naptr_string (r_data r) 4) as [fl o1].
    destruct (naptr_string (r_data r) o1) as [sv o2].
    destruct (naptr_string (r_data r) o2) as [re o3].
    destruct (o3 <? lenN (r_data r)); [|apply safe_ok].
    apply safe_swallow. apply safe_bind; [apply safe_dnfr|]. intros [t o] _. apply safe_ok. }
  destruct (r_type r =? 5).
  { destruct (lenN (r_data r) =? 0); [apply safe_ok|].
    apply safe_swallow. apply safe_bind; [apply safe_dnfr|]. intros [t o] _. apply safe_ok. }
  destruct (r_type r =? 15).
  { destruct (lenN (r_data r) <? 2) eqn:E; [apply safe_ok|].
    apply safe_bind; [apply safe_lift16; lia|]. intros p _.
    destruct (2 <? lenN (r_data r)); [|apply safe_ok].
    apply safe_swallow. apply safe_bind; [apply safe_dnfr|]. intros [t o] _. apply safe_ok. }
  destruct (r_type r =? 16); [apply safe_ok|].
  destruct (r_type r =? 12).
  { destruct (lenN (r_data r) =? 0); [apply safe_ok|].
    apply safe_swallow. apply safe_bind; [apply safe_dnfr|]. intros [t o] _. apply safe_ok. }
  destruct (r_type r =? 6); [|apply safe_ok].
  destruct (lenN (r_data r) <? 20) eqn:E; [apply safe_ok|].
  apply safe_swallow.
  apply safe_bind; [apply safe_dnfr|]. intros [mn o1] _.
  apply safe_bind.
  { destruct (o1 <? lenN (r_data r)); [apply safe_dnfr|apply safe_ok]. }
  intros [rn o2] _.
  destruct (lenN (r_data r) <? o2 + 20) eqn:E20; [apply safe_err|].
  apply safe_bind; [apply safe_lift32; lia|]. intros a _.
  apply safe_bind; [apply safe_lift32; lia|]. intros b _.
  apply safe_bind; [apply safe_lift32; lia|]. intros c _.
  apply safe_bind; [apply safe_lift32; lia|]. intros e _.
  apply safe_bind; [apply safe_lift32; lia|]. intros f _. apply safe_ok.
Qed.

Lemma safe_parse_questions : forall k m off, safe (parse_questions k m off).
Proof.
  induction k as [|k IH]; intros m off; cbn [parse_questions]; [apply safe_ok|].
  apply safe_bind; [apply safe_parse_question|]. intros [q o] _.
  apply safe_bind; [apply IH|]. intros [qs o2] _. apply safe_ok.
Qed.

Lemma safe_parse_rrs : forall k m off, safe (parse_rrs k m off).
Proof.
  induction k as [|k IH]; intros m off; cbn [parse_rrs]; [apply safe_ok|].
  apply safe_bind; [apply safe_parse_rr|]. intros [r o] _.
  apply safe_bind; [apply safe_typed_of|]. intros t _.
  apply safe_bind; [apply IH|]. intros [[rs ts] o2] _. apply safe_ok.
Qed.

Theorem parse_total m : safe (parse m).
Proof.
  unfold parse. destruct (lenN m <? 12) eqn:E; [apply safe_err|].
  apply safe_bind; [apply safe_lift16; lia|]. intros id _.
  apply safe_bind; [apply safe_lift16; lia|]. intros fl _.
  apply safe_bind; [apply safe_lift16; lia|]. intros qd _.
  apply safe_bind; [apply safe_lift16; lia|]. intros an _.
  apply safe_bind; [apply safe_lift16; lia|]. intros ns _.
  apply safe_bind; [apply safe_lift16; lia|]. intros ar _.
  apply safe_bind; [apply safe_parse_questions|]. intros [qs o1] _.
  apply safe_bind; [apply safe_parse_rrs|]. intros [[r1 t1] o2] _.
  apply safe_bind; [apply safe_parse_rrs|]. intros [[r2 t2] o3] _.
  apply safe_bind; [apply safe_parse_rrs|]. intros [[r3 t3] o4] _.
  apply safe_ok.
Qed.

(* ---- negative TTL taken from the SOA record ---- *)
Lemma neg_ttl_soa default mn sttl soas auth :
  neg_ttl default ((mn, sttl) :: soas) auth <= mn /\ neg_ttl default ((mn, sttl) :: soas) auth <= sttl.
Proof. cbn [neg_ttl]. lia. Qed.

Theorem negative_ttl_from_soa : forall default h c rs i t n ty cl v mn sttl soas auth t0 n',
  c_run default [] h = (c, rs) ->
  nth_error h i = Some (t, CGet n ty cl) -> nth_error rs i = Some (Some (v, true)) ->
  (forall t1 n1 ttl1, In (t1, CPutNeg n1 ty cl v ttl1) (firstn i h) ->
     t1 = t0 /\ n1 = n' /\ ttl1 = neg_ttl default ((mn, sttl) :: soas) auth) ->
  t < t0 + mn /\ t < t0 + sttl.
Proof.
  intros default h c rs i t n ty cl v mn sttl soas auth t0 n' Hrun Hi Hr Hall.
  destruct (cache_sound default h [] [] rs c (fun e F => match F with end) Hrun i t n ty cl v true Hi Hr)
    as (t1 & n1 & ttl1 & Hin & _ & _ & Hlt).
  cbn [app] in Hin. destruct (Hall _ _ _ Hin) as (-> & -> & ->).
  pose proof (neg_ttl_soa default mn sttl soas auth) as [H1 H2]. lia.
Qed.
