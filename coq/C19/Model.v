(* C19/Model.v — executable model of include/iora/network/dns/dns_message.hpp
   (DnsMessage::parse / decodeName / decodeNameFromRdata / typed record decoders /
   validateRdataSecurity / encodeName / buildQuery) and of DnsCache over ExpiringCache.
   Definitions only. *)
From IoraVerif Require Export Common.Bytes.
Local Open Scope N_scope.

Definition msg := list N.

(* a read that the C++ performs as data[off]; None = the read would be out of bounds *)
Definition rd (m : msg) (off : N) : option N := nth_error m (N.to_nat off).

(* len bytes at off; None = out of bounds *)
Definition slice (m : msg) (off len : N) : option (list N) :=
  if off + len <=? lenN m then Some (firstn (N.to_nat len) (skipn (N.to_nat off) m)) else None.

Definition rd16 (m : msg) (off : N) : option N :=
  match rd m off, rd m (off + 1) with
  | Some a, Some b => Some (a * 256 + b)
  | _, _ => None
  end.
Definition rd32 (m : msg) (off : N) : option N :=
  match rd16 m off, rd16 m (off + 2) with
  | Some a, Some b => Some (a * 65536 + b)
  | _, _ => None
  end.

(* ------------------------------------------------------------------ names *)

Definition dot : N := 46.
Definition max_label : N := 63.
Definition max_name : N := 253.

(* the inner part of the while loop: consecutive ordinary labels *)
Inductive wres :=
| WEnd (name : list N) (total off_after : N)   (* zero length byte consumed *)
| WOff (name : list N) (total off : N)         (* offset >= size: loop condition false *)
| WPtr (name : list N) (total off : N)         (* compression pointer at off *)
| WErr | WOob | WFuel.

Fixpoint walk (fuel : nat) (m : msg) (off : N) (name : list N) (total : N) : wres :=
  match fuel with
  | O => WFuel
  | S f =>
    if lenN m <=? off then WOff name total off else
    match rd m off with
    | None => WOob
    | Some len =>
      if N.land len 192 =? 192 then WPtr name total off
      else if len =? 0 then WEnd name total (off + 1)
      else if max_label <? len then WErr
      else if lenN m <? off + 1 + len then WErr          (* checkBounds(offset+1, length, size) *)
      else
        match slice m (off + 1) len with
        | None => WOob
        | Some lab =>
          let name' := match name with [] => lab | _ => name ++ dot :: lab end in
          let total' := total + len + 1 in
          if max_name <? total' then WErr else walk f m (off + 1 + len) name' total'
        end
    end
  end.

Inductive nres :=
| NOk (name : list N) (next : N) (visited : list N)
| NErr | NOob | NFuel.

Fixpoint dloop (jfuel : nat) (m : msg) (off : N) (name : list N) (total : N)
               (jumped : bool) (orig : N) (visited : list N) : nres :=
  match walk (S (length m)) m off name total with
  | WEnd n _ o => NOk n (if jumped then orig else o) visited
  | WOff n _ o => NOk n (if jumped then orig else o) visited
  | WPtr n t o =>
    let orig' := if jumped then orig else o + 2 in
    if lenN m <? o + 2 then NErr                          (* checkBounds(offset, 2, size) *)
    else
      match rd m o, rd m (o + 1) with
      | Some b1, Some b2 =>
        let p := N.land b1 63 * 256 + b2 in
        if lenN m <=? p then NErr
        else if existsb (N.eqb p) visited then NErr
        else
          match jfuel with
          | O => NFuel
          | S jf => dloop jf m p n t true orig' (p :: visited)
          end
      | _, _ => NOob
      end
  | WErr => NErr
  | WOob => NOob
  | WFuel => NFuel
  end.

Definition decode_name (m : msg) (off : N) : nres :=
  dloop (S (length m)) m off [] 0 false off [].

(* encodeName on a list of labels (the string split on '.' is glue, exercised by the
   correspondence check): None = DnsParseException *)
Fixpoint encode_labels (labs : list (list N)) : option (list N) :=
  match labs with
  | [] => Some [0]
  | l :: t =>
    if max_label <? lenN l then None
    else match encode_labels t with
         | Some r => Some (lenN l :: l ++ r)
         | None => None
         end
  end.
Definition encode_name (labs : list (list N)) : option (list N) :=
  match encode_labels labs with
  | Some e => if max_name <? lenN e then None else Some e
  | None => None
  end.

Fixpoint join_labels (labs : list (list N)) : list N :=
  match labs with
  | [] => []
  | [l] => l
  | l :: t => l ++ dot :: join_labels t
  end.

(* ------------------------------------------------------------ wire structure *)

Record header := mkHdr {
  h_id : N; h_flags : N; h_qd : N; h_an : N; h_ns : N; h_ar : N
}.
Record question := mkQ { q_name : list N; q_type : N; q_class : N }.
Record rrec := mkRR {
  r_name : list N; r_type : N; r_class : N; r_ttl : N; r_data : list N; r_doff : N
}.

Inductive typed :=
| TA (name : list N) (addr : list N) (ttl : N)
| TAAAA (name : list N) (addr : list N) (ttl : N)
| TSRV (name : list N) (prio weight port : N) (target : list N) (ttl : N)
| TNAPTR (name : list N) (order pref : N) (flags service regexp repl : list N) (ttl : N)
| TCNAME (name : list N) (cname : list N) (ttl : N)
| TMX (name : list N) (pref : N) (exch : list N) (ttl : N)
| TTXT (name : list N) (texts : list (list N)) (ttl : N)
| TPTR (name : list N) (ptr : list N) (ttl : N)
| TSOA (name : list N) (mname rname : list N) (serial refresh retry expire minimum : N) (ttl : N).

(* outcome of a step that may throw *)
Inductive res (A : Type) := ROk (a : A) | RErr | ROob | RFuel.
Arguments ROk {A} a. Arguments RErr {A}. Arguments ROob {A}. Arguments RFuel {A}.

Definition bind {A B} (r : res A) (f : A -> res B) : res B :=
  match r with ROk a => f a | RErr => RErr | ROob => ROob | RFuel => RFuel end.
Notation "'do' x <- r ; k" := (bind r (fun x => k)) (at level 200, x pattern, r at level 100, k at level 200).

Definition of_nres (r : nres) : res (list N * N) :=
  match r with NOk n o _ => ROk (n, o) | NErr => RErr | NOob => ROob | NFuel => RFuel end.

(* checkBounds(offset, needed, total): throws when offset + needed > total *)
Definition check_bounds (m : msg) (off needed : N) : res unit :=
  if lenN m <? off + needed then RErr else ROk tt.
Definition lift {A} (o : option A) : res A := match o with Some a => ROk a | None => ROob end.

Definition parse_question (m : msg) (off : N) : res (question * N) :=
  do (name, off) <- of_nres (decode_name m off);
  do _ <- check_bounds m off 2;
  do ty <- lift (rd16 m off);
  do _ <- check_bounds m (off + 2) 2;
  do cl <- lift (rd16 m (off + 2));
  ROk (mkQ name ty cl, off + 4).

(* validateRdataSecurity: the "pointer disguised as an address" heuristic for A records (pinned by the repository's
   own tests: known finding C19-F4b).  The clause that rejected every AAAA / TXT RDATA with a byte >= 0xC0 is gone
   since the repair of C19-F4c: those RDATA contain no names. *)
Definition is_ptr_byte (b : N) : bool := N.land b 192 =? 192.
Definition validate_rdata (ty : N) (rdata : list N) : bool :=   (* true = accepted *)
  if ty =? 1 then
    match rdata with
    | [a; b; c; d] => negb (is_ptr_byte a && (N.land a 63 * 256 + b <? 64) && (c =? 0) && (d =? 0))
    | a :: _ :: _ => negb (is_ptr_byte a)
    | _ => true
    end
  else true.

Definition parse_rr (m : msg) (off : N) : res (rrec * N) :=
  do (name, off) <- of_nres (decode_name m off);
  do _ <- check_bounds m off 2;
  do ty <- lift (rd16 m off);
  do _ <- check_bounds m (off + 2) 2;
  do cl <- lift (rd16 m (off + 2));
  do _ <- check_bounds m (off + 4) 4;
  do ttl <- lift (rd32 m (off + 4));
  do _ <- check_bounds m (off + 8) 2;
  do rdl <- lift (rd16 m (off + 8));
  do _ <- check_bounds m (off + 10) rdl;
  do rdata <- lift (slice m (off + 10) rdl);
  if validate_rdata ty rdata then ROk (mkRR name ty cl ttl rdata (off + 10), off + 10 + rdl)
  else RErr.

(* decodeNameFromRdata *)
Fixpoint scan_rdata (fuel : nat) (rdata : list N) (c : N) : res N :=
  match fuel with
  | O => RFuel
  | S f =>
    if lenN rdata <=? c then ROk c else
    match rd rdata c with
    | None => ROob
    | Some b =>
      if is_ptr_byte b then ROk (c + 2)
      else if b =? 0 then ROk (c + 1)
      else if max_label <? b then RErr
      else let c' := c + 1 + b in
           if lenN rdata <=? c' then RErr else scan_rdata f rdata c'
    end
  end.

Definition dnfr (m : msg) (rdstart rdoff : N) (rdata : list N) : res (list N * N) :=
  let rsz := lenN rdata in
  if (rsz =? 0) || (rsz <=? rdoff) then ROk ([], rdoff) else
  let is_direct :=
      if rdoff + 1 <? rsz then
        match rd rdata rdoff with Some b => is_ptr_byte b | None => false end
      else false in
  if is_direct then
    do p <- lift (rd16 rdata rdoff);
    let p := N.land p 16383 in
    if (p <? lenN m) && (p + 1 <? lenN m) then
      do (name, _) <- of_nres (decode_name m p);
      ROk (name, rdoff + 2)
    else RErr
  else
    let abs := rdstart + rdoff in
    if lenN m <=? abs then RErr else
    do (name, newoff) <- of_nres (decode_name m abs);
    if (rdstart <=? newoff) && (newoff <=? rdstart + rsz) then ROk (name, newoff - rdstart)
    else do c <- scan_rdata (S (length rdata)) rdata rdoff; ROk (name, c).

(* a DNS <character-string> inside NAPTR RDATA: (string, new offset); when it does not
   fit the string stays empty and the offset has moved past the length byte only *)
Definition naptr_string (rdata : list N) (off : N) : list N * N :=
  if lenN rdata <=? off then ([], off) else
  match rd rdata off with
  | None => ([], off)
  | Some len =>
    let off1 := off + 1 in
    match slice rdata off1 len with
    | Some s => (s, off1 + len)
    | None => ([], off1)
    end
  end.

Fixpoint txt_strings (fuel : nat) (rdata : list N) (off : N) : list (list N) :=
  match fuel with
  | O => []
  | S f =>
    if lenN rdata <=? off then [] else
    match rd rdata off with
    | None => []
    | Some len =>
      match slice rdata (off + 1) len with
      | Some s => s :: txt_strings f rdata (off + 1 + len)
      | None => []
      end
    end
  end.

(* parseTypedRecord: exceptions are swallowed (None); fuel/oob propagate as defects *)
Definition swallow {A} (r : res A) : res (option A) :=
  match r with ROk a => ROk (Some a) | RErr => ROk None | ROob => ROob | RFuel => RFuel end.

Definition typed_of (m : msg) (r : rrec) : res (option typed) :=
  let d := r_data r in
  let n := lenN d in
  let ty := r_type r in
  if ty =? 1 then ROk (if n =? 4 then Some (TA (r_name r) d (r_ttl r)) else None)
  else if ty =? 28 then ROk (if n =? 16 then Some (TAAAA (r_name r) d (r_ttl r)) else None)
  else if ty =? 33 then
    if n <? 6 then ROk None else
    do prio <- lift (rd16 d 0); do w <- lift (rd16 d 2); do port <- lift (rd16 d 4);
    if 6 <? n then
      swallow (do (t, _) <- dnfr m (r_doff r) 6 d; ROk (TSRV (r_name r) prio w port t (r_ttl r)))
    else ROk (Some (TSRV (r_name r) prio w port [] (r_ttl r)))
  else if ty =? 35 then
    if n <? 4 then ROk None else
    do order <- lift (rd16 d 0); do pref <- lift (rd16 d 2);
    let '(fl, o1) := naptr_string d 4 in
    let '(sv, o2) := naptr_string d o1 in
    let '(re, o3) := naptr_string d o2 in
    if o3 <? n then
      swallow (do (t, _) <- dnfr m (r_doff r) o3 d;
               ROk (TNAPTR (r_name r) order pref fl sv re t (r_ttl r)))
    else ROk (Some (TNAPTR (r_name r) order pref fl sv re [] (r_ttl r)))
  else if ty =? 5 then
    if n =? 0 then ROk (Some (TCNAME (r_name r) [] (r_ttl r)))
    else swallow (do (t, _) <- dnfr m (r_doff r) 0 d; ROk (TCNAME (r_name r) t (r_ttl r)))
  else if ty =? 15 then
    if n <? 2 then ROk None else
    do pref <- lift (rd16 d 0);
    if 2 <? n then
      swallow (do (t, _) <- dnfr m (r_doff r) 2 d; ROk (TMX (r_name r) pref t (r_ttl r)))
    else ROk (Some (TMX (r_name r) pref [] (r_ttl r)))
  else if ty =? 16 then ROk (Some (TTXT (r_name r) (txt_strings (S (length d)) d 0) (r_ttl r)))
  else if ty =? 12 then
    if n =? 0 then ROk (Some (TPTR (r_name r) [] (r_ttl r)))
    else swallow (do (t, _) <- dnfr m (r_doff r) 0 d; ROk (TPTR (r_name r) t (r_ttl r)))
  else if ty =? 6 then
    if n <? 20 then ROk None else
    swallow (
      do (mn, o1) <- dnfr m (r_doff r) 0 d;
      do (rn, o2) <- (if o1 <? n then dnfr m (r_doff r) o1 d else ROk ([], o1));
      if n <? o2 + 20 then RErr else
      do a <- lift (rd32 d o2); do b <- lift (rd32 d (o2 + 4)); do c <- lift (rd32 d (o2 + 8));
      do e <- lift (rd32 d (o2 + 12)); do f <- lift (rd32 d (o2 + 16));
      ROk (TSOA (r_name r) mn rn a b c e f (r_ttl r)))
  else ROk None.

Fixpoint parse_questions (k : nat) (m : msg) (off : N) : res (list question * N) :=
  match k with
  | O => ROk ([], off)
  | S k' =>
    do (q, off1) <- parse_question m off;
    do (qs, off2) <- parse_questions k' m off1;
    ROk (q :: qs, off2)
  end.

Fixpoint parse_rrs (k : nat) (m : msg) (off : N) : res (list rrec * list typed * N) :=
  match k with
  | O => ROk ([], [], off)
  | S k' =>
    do (r, off1) <- parse_rr m off;
    do t <- typed_of m r;
    do (rest, off2) <- parse_rrs k' m off1;
    let '(rs, ts) := rest in
    ROk (r :: rs, (match t with Some x => x :: ts | None => ts end), off2)
  end.

Record dresult := mkRes {
  d_hdr : header; d_qs : list question;
  d_an : list rrec; d_ns : list rrec; d_ar : list rrec;
  d_typed : list typed        (* in wire order; the C++ groups them per type *)
}.

Definition parse (m : msg) : res dresult :=
  if lenN m <? 12 then RErr else
  do id <- lift (rd16 m 0); do fl <- lift (rd16 m 2);
  do qd <- lift (rd16 m 4); do an <- lift (rd16 m 6);
  do ns <- lift (rd16 m 8); do ar <- lift (rd16 m 10);
  do (qs, o1) <- parse_questions (N.to_nat qd) m 12;
  do (x1, o2) <- parse_rrs (N.to_nat an) m o1;
  do (x2, o3) <- parse_rrs (N.to_nat ns) m o2;
  do (x3, o4) <- parse_rrs (N.to_nat ar) m o3;
  let '(r1, t1) := x1 in let '(r2, t2) := x2 in let '(r3, t3) := x3 in
  ROk (mkRes (mkHdr id fl qd an ns ar) qs r1 r2 r3 (t1 ++ t2 ++ t3)).

(* buildQuery(questions, rd, id): None = encodeName threw *)
Fixpoint build_questions (qs : list (list (list N) * N * N)) : option (list N) :=
  match qs with
  | [] => Some []
  | (labs, ty, cl) :: t =>
    match encode_name labs, build_questions t with
    | Some e, Some r => Some (e ++ be_encode 2 ty ++ be_encode 2 cl ++ r)
    | _, _ => None
    end
  end.
Definition build_query (qs : list (list (list N) * N * N)) (rdflag : bool) (id : N) : option (list N) :=
  match build_questions qs with
  | Some b => Some (be_encode 2 id ++ be_encode 2 (if rdflag then 256 else 0)
                    ++ be_encode 2 (lenN qs mod 65536) ++ [0; 0; 0; 0; 0; 0] ++ b)
  | None => None
  end.

(* ------------------------------------------------------------------- cache *)
(* DnsCache over ExpiringCache<DnsCacheKey, CachedDnsResult>; time in seconds as N
   (steady clock, injected).  Values are abstract ids (the harness stores a result
   whose header id is the value). *)

Definition lower (b : N) : N := if (65 <=? b) && (b <=? 90) then b + 32 else b.
Definition ckey := (list N * N * N)%type.
Definition key_of (name : list N) (ty cl : N) : ckey := (map lower name, ty, cl).
Definition key_eqb (a b : ckey) : bool :=
  let '(n1, t1, c1) := a in let '(n2, t2, c2) := b in
  (if list_eq_dec N.eq_dec n1 n2 then true else false) && (t1 =? t2) && (c1 =? c2).

Record centry := mkCE { ce_key : ckey; ce_val : N; ce_neg : bool; ce_exp : N }.
Definition cache := list centry.

Fixpoint c_find (c : cache) (k : ckey) : option centry :=
  match c with
  | [] => None
  | e :: t => if key_eqb (ce_key e) k then Some e else c_find t k
  end.
Fixpoint c_remove (c : cache) (k : ckey) : cache :=
  match c with
  | [] => []
  | e :: t => if key_eqb (ce_key e) k then c_remove t k else e :: c_remove t k
  end.

(* ExpiringCache::get at time now: an expired entry is erased and reported missing *)
Definition ec_get (c : cache) (k : ckey) (now : N) : cache * option centry :=
  match c_find c k with
  | Some e => if now <? ce_exp e then (c, Some e) else (c_remove c k, None)
  | None => (c, None)
  end.
(* ExpiringCache::set: customTtl = 0 means the default *)
Definition ec_set (c : cache) (k : ckey) (v : N) (neg : bool) (ttl default now : N) : cache :=
  mkCE k v neg (now + (if 0 <? ttl then ttl else default)) :: c_remove c k.

Inductive cop :=
| CPut (name : list N) (ty cl : N) (v : N) (ttl : N)        (* ttl = min over the records *)
| CPutNeg (name : list N) (ty cl : N) (v : N) (ttl : N)
| CGet (name : list N) (ty cl : N)
| CRemove (name : list N) (ty cl : N)
| CClear.

(* DnsCache::put / putNegative (after fix 2334281: a zero TTL is not cached) *)
Definition c_step (default : N) (c : cache) (now : N) (o : cop) : cache * option (N * bool) :=
  match o with
  | CPut n ty cl v ttl =>
    let k := key_of n ty cl in
    let '(c1, had) := ec_get c k now in
    if ttl =? 0 then (c_remove c1 k, None) else (ec_set c1 k v false ttl default now, None)
  | CPutNeg n ty cl v ttl =>
    let k := key_of n ty cl in
    let '(c1, had) := ec_get c k now in
    if ttl =? 0 then (c_remove c1 k, None) else (ec_set c1 k v true ttl default now, None)
  | CGet n ty cl =>
    let '(c1, r) := ec_get c (key_of n ty cl) now in
    (c1, match r with Some e => Some (ce_val e, ce_neg e) | None => None end)
  | CRemove n ty cl => (c_remove c (key_of n ty cl), None)
  | CClear => ([], None)
  end.

(* a timed history: (time of the op, op); times are non-decreasing (steady clock) *)
Fixpoint c_run (default : N) (c : cache) (h : list (N * cop)) : cache * list (option (N * bool)) :=
  match h with
  | [] => (c, [])
  | (t, o) :: rest =>
    let '(c1, r) := c_step default c t o in
    let '(c2, rs) := c_run default c1 rest in
    (c2, r :: rs)
  end.

(* calculateNegativeTtl (the putNegative overload without an explicit TTL, RFC 2308): min(MINIMUM, TTL) of the first
   parsed SOA record; failing that the TTL of the first SOA record of the raw authority section (is_soa, ttl); failing
   that the default *)
Definition neg_ttl (default : N) (soas : list (N * N)) (auth : list (bool * N)) : N :=
  match soas with
  | (mn, ttl) :: _ => N.min mn ttl
  | [] => match find fst auth with
          | Some (_, ttl) => ttl
          | None => default
          end
  end.
Definition cput_neg_auto (default : N) (n : list N) (ty cl v : N) (soas : list (N * N)) (auth : list (bool * N)) : cop :=
  CPutNeg n ty cl v (neg_ttl default soas auth).

(* calculateResultTtl: minimum TTL over all record lists, default when there is none *)
Definition min_ttl (default : N) (ttls : list N) : N :=
  match ttls with
  | [] => default
  | t :: ts => fold_left N.min ts t
  end.
