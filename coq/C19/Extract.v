(* C19/Extract.v — extraction of the executable model (ExtrOcamlBasic only). *)
From IoraVerif Require Import C19.Model.
Require Import ExtrOcamlBasic.
Extraction Language OCaml.
Extraction "../build/ocaml/c19_model.ml"
  parse decode_name encode_name build_query c_run min_ttl neg_ttl.
