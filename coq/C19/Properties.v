(* C19/Properties.v — the property theorems for C19 and nothing else. *)
From IoraVerif Require Import Common.Bytes C19.Model C19.Proofs.
From Coq Require Import Sorted.
Local Open Scope N_scope.

(* 1. Exactness: a name laid out per RFC 1035 §4.1.4 (labels, optionally ending in a
      compression pointer, at any position, any chain of pointers that never revisits
      a target) decodes to exactly its labels, returns the offset after it, and follows
      exactly those pointers. *)
Theorem dns_decode_name_exact : forall m off labs e tg,
  cname m off labs e tg -> NoDup tg -> name_size labs <= max_name ->
  decode_name m off = NOk (join_labels labs) e (rev tg).
Proof. exact decode_name_exact. Qed.
Print Assumptions dns_decode_name_exact.

(* 1'. In particular every compressor that only points backwards to earlier names. *)
Theorem dns_backward_compression_exact : forall m off labs e tg,
  cname m off labs e tg -> StronglySorted N.gt tg -> name_size labs <= max_name ->
  decode_name m off = NOk (join_labels labs) e (rev tg).
Proof. intros. apply decode_name_exact; auto. now apply decreasing_nodup. Qed.
Print Assumptions dns_backward_compression_exact.

(* 2. For ANY bytes and offset the name decoder terminates, never reads outside the
      buffer, and whenever it succeeds the pointers it followed were pairwise distinct
      and inside the message: pointer loops and out-of-range pointers are always errors. *)
Theorem dns_name_total_loops_are_errors : forall m off,
  match decode_name m off with
  | NOk _ _ v => NoDup v /\ Forall (fun x => x < lenN m) v
  | NErr => True
  | NOob => False
  | NFuel => False
  end.
Proof. exact decode_name_total. Qed.
Print Assumptions dns_name_total_loops_are_errors.

(* 3. For ANY bytes the whole message parser (header, questions, all record sections,
      all nine typed decoders) ends in a decoded message or an error: it never reads
      out of bounds and never runs out of fuel. *)
Theorem dns_parse_total : forall m, parse m <> ROob /\ parse m <> RFuel.
Proof. exact parse_total. Qed.
Print Assumptions dns_parse_total.

(* 4. encodeName then decodeName is the identity, at any position in any message. *)
Theorem dns_encode_decode_name : forall labs e pre post,
  encode_name labs = Some e -> Forall (fun l => l <> []) labs ->
  decode_name (pre ++ e ++ post) (lenN pre) = NOk (join_labels labs) (lenN pre + lenN e) [].
Proof. exact encode_decode_name. Qed.
Print Assumptions dns_encode_decode_name.

(* 5. Queries built by the library decode back to the same header and questions. *)
Theorem dns_query_roundtrip : forall qs rdflag id b,
  build_query qs rdflag id = Some b -> Forall wf_q qs -> lenN qs < 65536 -> id < 65536 ->
  parse b = ROk (mkRes (mkHdr id (if rdflag then 256 else 0) (lenN qs) 0 0 0)
                       (map q_of qs) [] [] [] []).
Proof. exact query_roundtrip. Qed.
Print Assumptions dns_query_roundtrip.

(* 6. Cache: every answer served by a get was put for the same question (name equal up
      to ASCII case, same type and class) with a non-zero TTL, and is served strictly
      before put-time + TTL — for every history of put / negative put / get / remove /
      clear at arbitrary times. *)
Theorem dns_cache_sound : forall default h c rs i t n ty cl v neg,
  c_run default [] h = (c, rs) ->
  nth_error h i = Some (t, CGet n ty cl) -> nth_error rs i = Some (Some (v, neg)) ->
  exists t0 n' ttl,
    In (t0, (if neg then CPutNeg n' ty cl v ttl else CPut n' ty cl v ttl)) (firstn i h) /\
    map lower n' = map lower n /\ 0 < ttl /\ t < t0 + ttl.
Proof.
  intros default h c rs i t n ty cl v neg Hrun Hi Hr.
  eapply (cache_sound default h [] [] rs c); eauto. intros e [].
Qed.
Print Assumptions dns_cache_sound.

(* 6'. ... and when the negative TTL is taken from the response (putNegative without an explicit TTL), an SOA record
      bounds it by BOTH its MINIMUM field and its own TTL: the negative answer is served strictly before
      put-time + min(MINIMUM, TTL) of the first SOA record. *)
Theorem dns_negative_ttl_from_soa : forall default h c rs i t n ty cl v mn sttl soas auth t0 n',
  c_run default [] h = (c, rs) ->
  nth_error h i = Some (t, CGet n ty cl) -> nth_error rs i = Some (Some (v, true)) ->
  (forall t1 n1 ttl1, In (t1, CPutNeg n1 ty cl v ttl1) (firstn i h) ->
     t1 = t0 /\ n1 = n' /\ ttl1 = neg_ttl default ((mn, sttl) :: soas) auth) ->
  t < t0 + mn /\ t < t0 + sttl.
Proof. exact negative_ttl_from_soa. Qed.
Print Assumptions dns_negative_ttl_from_soa.

(* 7. "Any well-formed response decodes to exactly the records it encodes" is FALSE of
      the model (and the code): the A record 192.0.0.0 is rejected as a "malicious
      compression pointer" (known finding C19-F4b; pinned by the repository's own test
      "Compression pointer loop detection", so recorded, not repaired). *)
Definition a_192_0_0_0 : list N :=
  [0; 1; 129; 128; 0; 0; 0; 1; 0; 0; 0; 0;  0;  0; 1; 0; 1; 0; 0; 0; 60; 0; 4;  192; 0; 0; 0].
Theorem dns_wellformed_record_rejected_refuted : parse a_192_0_0_0 = RErr.
Proof. vm_compute. reflexivity. Qed.
Print Assumptions dns_wellformed_record_rejected_refuted.

(* ------------------------------------------------ non-vacuity examples *)
(* "a." at 0, and "b" + pointer to 0 at 3 *)
Definition ex_msg : list N := [1; 97; 0; 1; 98; 192; 0].
Example cname_instance : cname ex_msg 3 ([[98]] ++ [[97]]) (5 + 2) [ptr_target 192 0].
Proof.
  eapply (CN_ptr ex_msg 3 [[98]] 5 192 0 [[97]] 3 []).
  - constructor; [split; vm_compute; congruence|reflexivity|reflexivity|constructor].
  - reflexivity.
  - reflexivity.
  - reflexivity.
  - change (ptr_target 192 0) with 0. change 3 with (2 + 1).
    eapply (CN_end ex_msg 0 [[97]] 2); [|reflexivity].
    constructor; [split; vm_compute; congruence|reflexivity|reflexivity|constructor].
Qed.
Example decode_instance : decode_name ex_msg 3 = NOk [98; 46; 97] 7 [0].
Proof. vm_compute. reflexivity. Qed.
Example loop_instance : decode_name [192; 0] 0 = NErr /\ decode_name [192; 2; 192; 0] 0 = NErr
                        /\ decode_name [192; 9] 0 = NErr.
Proof. vm_compute. auto. Qed.
Example cache_instance :
  snd (c_run 300 [] [(10, CPut [65; 66] 1 1 7 5); (14, CGet [97; 98] 1 1); (15, CGet [97; 98] 1 1);
                     (16, CPut [97] 1 1 8 0); (17, CGet [97] 1 1)])
  = [None; Some (7, false); None; None; None].
Proof. vm_compute. reflexivity. Qed.

(* negative answer with SOA MINIMUM 3600 and TTL 2, put at t = 10: served at 11, not at 12 *)
Example negative_ttl_instance :
  let put := cput_neg_auto 300 [120] 1 1 7 [(3600, 2)] [] in
  snd (c_run 300 [] [(10, put); (11, CGet [88] 1 1); (12, CGet [120] 1 1)]) =
  [None; Some (7, true); None].
Proof. vm_compute. reflexivity. Qed.
