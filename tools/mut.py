#!/usr/bin/env python3
"""mut.py — apply a textual mutation to a /repo file, run a quick check, restore.  For developing the checks only.
usage: mut.py <Cnn> <file-relative-to-/repo> <old> <new> [count]"""
import subprocess, sys, os
pid, rel, old, new = sys.argv[1:5]
cnt = int(sys.argv[5]) if len(sys.argv) > 5 else 1
p = os.path.join("/repo", rel)
s = open(p).read()
if s.count(old) < 1:
    print("MUT: pattern not found"); sys.exit(2)
open(p, "w").write(s.replace(old, new, cnt))
try:
    r = subprocess.run(["./check", pid, "--tier", "quick"], cwd="/verif", capture_output=True, text=True, env=dict(os.environ, VERIF_SEED=os.environ.get("VERIF_SEED", "1")))
    out = (r.stdout + r.stderr).strip().splitlines()
    print("\n".join([l for l in out if "VIOLATION" in l or "exit=" in l or "KNOWN" in l][-6:]))
finally:
    subprocess.run(["git", "-C", "/repo", "checkout", "--", rel])
