#!/usr/bin/env python3
"""seed_eval.py <Cnn> [<Cnn> ...] — evaluate an independently seeded breaking change.
Copies /tmp/seed/<id>/out (patch.diff, demo/, meta.json written by a sub-agent that saw only the property text)
into /verif/seeded/<id>/, applies the patch to /repo, runs the property's quick check, undoes the patch, and records
whether the check caught it.  Nothing is committed in /repo."""
import json, os, shutil, subprocess, sys, time

def sh(cmd, **kw):
    return subprocess.run(cmd, shell=isinstance(cmd, str), capture_output=True, text=True, **kw)

def evaluate(pid, seeds=("1",), rnd=1):
    src = ("/tmp/seed/%s/out" if rnd == 1 else "/tmp/seed" + str(rnd) + "/%s/out") % pid
    dst = ("/verif/seeded/%s" if rnd == 1 else "/verif/seeded/%s/round" + str(rnd)) % pid
    if not os.path.exists(os.path.join(src, "patch.diff")):
        print(pid, "no patch.diff"); return None
    if os.path.isdir(dst):
        shutil.rmtree(dst)
    os.makedirs(os.path.dirname(dst), exist_ok=True)
    shutil.copytree(src, dst, ignore=shutil.ignore_patterns("_build", "*.o", "a.out"))
    # drop compiled demo binaries
    for root, _, files in os.walk(dst):
        for f in files:
            p = os.path.join(root, f)
            if os.path.getsize(p) > 2_000_000 or (os.access(p, os.X_OK) and not f.endswith((".sh", ".py"))):
                try:
                    with open(p, "rb") as fh:
                        if fh.read(4) == b"\x7fELF":
                            os.remove(p)
                except OSError:
                    pass
    assert sh("git -C /repo status --porcelain").stdout.strip() == "", "/repo not clean"
    r = sh(["git", "-C", "/repo", "apply", "--whitespace=nowarn", os.path.join(dst, "patch.diff")])
    meta_p = os.path.join(dst, "meta.json")
    try:
        meta = json.load(open(meta_p))
    except Exception:
        meta = {"property": pid}
    if r.returncode != 0:
        meta["evaluation"] = {"applied": False, "error": r.stderr[-500:]}
        json.dump(meta, open(meta_p, "w"), indent=1)
        print(pid, "patch does not apply:", r.stderr[-300:]); return None
    caught, lines, walls = False, [], []
    tests = TESTS.get(pid, [])
    tests_ok = None
    try:
        if tests:
            # my own confirmation that the existing tests stay green with the change (targets rebuilt in /repo/_build)
            b = sh("cmake --build /repo/_build -j8 --target %s" % " ".join(tests))
            t = sh("ctest --test-dir /repo/_build --timeout 600 -R '(%s)$'" % "|".join(tests))
            tests_ok = b.returncode == 0 and t.returncode == 0
            meta["tests_confirmed"] = {"targets": tests, "build_rc": b.returncode, "ctest_rc": t.returncode,
                                       "tail": t.stdout[-400:]}
            print(pid, "tests with the change:", "green" if tests_ok else "NOT GREEN", tests)
        for seed in seeds:
            t0 = time.time()
            c = sh(["./check", pid, "--tier", "quick"], cwd="/verif", env=dict(os.environ, VERIF_SEED=seed))
            out = (c.stdout + c.stderr).splitlines()
            vl = [l for l in out if l.startswith("VIOLATION") or l.strip().startswith("->")]
            walls.append(round(time.time() - t0, 1))
            lines += vl
            if c.returncode != 0 and any(l.startswith("VIOLATION") for l in out):
                caught = True
                break
    finally:
        sh("git -C /repo checkout -- .")
        # the run against the patched tree has rewritten evidence/<id>.json: put the committed one back
        sh("git -C /verif checkout -- evidence/%s.json" % pid)
        if tests:
            sh("cmake --build /repo/_build -j8 --target %s" % " ".join(tests))
    # keep the replay the check produced next to the seed, drop it from replays/
    rep = []
    for l in lines:
        if "replay=" in l:
            rp = l.split("replay=")[1].split()[0]
            full = os.path.join("/verif", rp)
            if os.path.exists(full):
                shutil.copy(full, os.path.join(dst, "caught_" + os.path.basename(rp)))
                rep.append(os.path.basename(rp))
                os.remove(full)
    meta["evaluation"] = {"applied": True, "check": "./check %s --tier quick" % pid, "seeds_tried": list(seeds[:len(walls)]),
                          "caught": caught, "violation_lines": lines[:6], "replays_kept": rep, "wall_seconds": walls}
    json.dump(meta, open(meta_p, "w"), indent=1)
    print(pid, "CAUGHT" if caught else "MISSED", lines[:2])
    return caught

TESTS = {
    "C02": ["iora_test_tcp_engine", "iora_test_udp_engine", "iora_test_transport_improvements", "iora_test_engine_introspection"],
    "C06": ["iora_test_udp_engine", "iora_test_udp_engine_teardown_race"],
    "C08": ["iora_test_timer", "iora_test_timing_wheel", "iora_test_timer_lifecycle"],
    "C09": ["iora_test_threadpool", "iora_test_threadpool_cleanup", "iora_test_threadpool_lifecycle"],
    "C14": ["iora_test_xml_parser"],
    "C19": ["iora_test_dns_basic", "iora_test_dns_comprehensive", "iora_test_dns_async", "iora_test_dns_timer_cancellation"],
    "C10": ["iora_test_ring_buffer", "iora_test_blocking_queue"], "C11": ["iora_test_state"],
    "C12": ["iora_test_kvstore"], "C13": ["iora_test_json_parser"], "C16": ["iora_test_http"],
    "C17": ["iora_test_http", "iora_test_http_client_retry", "iora_test_http_client_lease",
            "iora_test_http_client_response_framing"], "C20": ["test_assets"],
}

if __name__ == "__main__":
    args = sys.argv[1:]
    rnd = 1
    if args and args[0] == "--round":
        rnd = int(args[1])
        args = args[2:]
    for pid in args:
        evaluate(pid, seeds=("1", "2", "3"), rnd=rnd)
