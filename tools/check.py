#!/usr/bin/env python3
"""check.py — entry point:  ./check <Cnn> [--tier quick|thorough] [--replay FILE]"""
import argparse
import importlib
import os
import shutil
import sys
import tempfile
import time
import traceback

sys.path.insert(0, os.path.dirname(os.path.abspath(__file__)))
import vlib  # noqa: E402


def main():
    ap = argparse.ArgumentParser()
    ap.add_argument("pid")
    ap.add_argument("--tier", default=os.environ.get("VERIF_TIER", "quick"))
    ap.add_argument("--replay", default=None)
    a = ap.parse_args()
    pid = a.pid.upper()
    tier = a.tier if a.tier in ("quick", "thorough") else "quick"
    try:
        seed = int(os.environ.get("VERIF_SEED", "1"))
    except ValueError:
        seed = 1
    mod = importlib.import_module("props.%s" % pid.lower())
    work = tempfile.mkdtemp(prefix="verif-%s-" % pid.lower())
    ctx = {"pid": pid, "tier": tier, "seed": seed, "workdir": work, "replay": a.replay}
    t0 = time.time()
    rc = 1
    try:
        rc = mod.run(ctx)
    except Exception:
        traceback.print_exc()
        os.makedirs(os.path.join(vlib.VERIF, "replays"), exist_ok=True)
        rp = "replays/%s-internal-error.case" % pid
        with open(os.path.join(vlib.VERIF, rp), "w") as f:
            f.write("# the check itself failed to run\n" + traceback.format_exc())
        print("VIOLATION property=%s replay=%s no-failing-input-found" % (pid, rp))
        rc = 1
    finally:
        if os.environ.get("VERIF_KEEP") != "1":
            shutil.rmtree(work, ignore_errors=True)
        else:
            print("workdir kept: " + work)
    print("[%s %s seed=%d] exit=%d wall=%.1fs" % (pid, tier, seed, rc, time.time() - t0))
    sys.exit(rc)


if __name__ == "__main__":
    main()
