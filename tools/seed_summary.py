#!/usr/bin/env python3
"""seed_summary.py — (re)write seeded/SUMMARY.md from seeded/*/meta.json"""
import glob, json, os
rows = []
for mp in sorted(glob.glob("/verif/seeded/*/meta.json")) + sorted(glob.glob("/verif/seeded/*/round[0-9]/meta.json")):
    m = json.load(open(mp))
    pid = os.path.basename(os.path.dirname(mp))
    if pid.startswith("round"):
        pid = os.path.basename(os.path.dirname(os.path.dirname(mp))) + " (round %s)" % pid[5:]
    ev = m.get("evaluation", {})
    rows.append((pid, (m.get("summary") or "")[:160].replace("\n", " ").replace("|", "/"), ", ".join(m.get("files_touched", []))[:80],
                 "yes" if m.get("tests_passed") else str(m.get("tests_passed")),
                 "CAUGHT" if ev.get("caught") else ("MISSED" if ev.get("applied") else "n/a"),
                 (ev.get("violation_lines") or [""])[-1][:140].replace("|", "/"), m.get("followup", "")))
with open("/verif/seeded/SUMMARY.md", "w") as f:
    f.write("# Independently seeded breaking changes\n\nOne fresh sub-agent per property and round, given only the property text and a scratch "
            "worktree of /repo (rounds 2 and 3: also the summaries of the earlier changes, to be avoided; round 3 for C07, C14, C15, C18, C19 ran on the tree after the late repairs; round 3 for C10-C13, C16, C17, C20 was run in a later session, where the existing tests were also re-run by seed_eval.py itself with the change applied; round 4 (C02, C06, C08, C09, C14, C19) likewise, each agent told about the three earlier changes); it had to make a change under include/ that compiles, keeps the existing tests green and breaks the "
            "property, and to demonstrate it. `tools/seed_eval.py` applied each patch to /repo, ran the property's quick check "
            "(seeds 1..3 until caught), and undid it.\n\n| id | change (agent's summary) | files | tests green | quick check | what it reported | follow-up |\n|---|---|---|---|---|---|---|\n")
    for r in sorted(rows):
        f.write("| " + " | ".join(r) + " |\n")
print(len(rows), "rows")
