#!/usr/bin/env python3
"""mkmanifest.py — regenerate MANIFEST.json from the property modules' META blocks."""
import glob
import importlib
import json
import os
import sys

sys.path.insert(0, os.path.dirname(os.path.abspath(__file__)))
import vlib  # noqa: E402

NA_REASON = {}
na_path = os.path.join(vlib.VERIF, "tools", "not_applicable.json")
if os.path.exists(na_path):
    NA_REASON = json.load(open(na_path))

props = [json.loads(l)["id"] for l in open(os.path.join(vlib.VERIF, "properties.jsonl")) if l.strip()]
checks, claimed = [], set()
for pid in props:
    p = os.path.join(vlib.VERIF, "tools", "props", pid.lower() + ".py")
    if not os.path.exists(p) or pid in NA_REASON:
        continue
    m = importlib.import_module("props.%s" % pid.lower())
    meta = m.META
    claimed.add(pid)
    checks.append({
        "property_id": pid,
        "quick_cmd": "./check %s --tier quick" % pid,
        "thorough_cmd": "./check %s --tier thorough" % pid,
        "evidence_file": "evidence/%s.json" % pid,
        "replay_cmd_template": "./check %s --replay {path}" % pid,
        "engine": "coq-proof+correspondence",
        "level_claimed": {"category": meta["category"], "text": meta["text"], "design_ref": meta["design_ref"]},
        "level_note": meta["note"],
        "technique": meta["technique"] + ("; model tied to facts the translator regenerates from the source on every run "
                                          "(coq/%s/GenTie.v proof obligations)" % pid
                                          if os.path.exists(os.path.join(vlib.COQ, pid, "GenTie.v")) and "translator" not in meta["technique"]
                                          else ""),
    })
hooks = json.load(open(os.path.join(vlib.VERIF, "tools", "hooks.json")))
man = {
    "version": 1,
    "setup_cmd": "./setup.sh",
    "hooks": hooks,
    "engines": [
        {"name": "coq-proofs", "path": "coq/", "serves_properties": sorted(claimed),
         "kind_free_text": "Coq 8.16.1 development: per-property Model.v / Proofs.v / Properties.v; full .vo build via coq_makefile"},
        {"name": "ocaml-extracted-models", "path": "ocaml/", "serves_properties": sorted(claimed),
         "kind_free_text": "ExtrOcamlBasic extraction of each Model.v + a small driver reading case lines"},
        {"name": "cxx-correspondence-harness", "path": "harness/", "serves_properties": sorted(claimed),
         "kind_free_text": "C++17 harnesses compiled against /repo/include of the current tree with ASan+UBSan; same case lines as the model"},
        {"name": "translator", "path": "tools/translate.py", "serves_properties": ["C02", "C04", "C05", "C08", "C09", "C10", "C11", "C12", "C13", "C14", "C15", "C18", "C19"],
         "kind_free_text": "regenerates coq/Gen/*.v from /repo's working tree on every run: Constants.v (values printed by harness/gen_constants.cpp compiled against the headers), RingProto.v, QueueShape.v, PoolShape.v, ConnectShape.v, WheelShape.v, CloseShape.v and TeardownShape.v (atomic accesses with memory orders / lock, wait, notify and mutation order per method / creation and registration of a pool worker / the lock, fence, connect, register, wait, close order of Transport::connectSync / the re-check of the accepting flag under the wheel mutex in TimingWheel::schedule / the guard, flag, table removal, gauge and callback order of both engines' closeNow / the fence and the three counters awaited by teardownWaitOut, from clang's JSON AST); coq/Cnn/GenTie.v holds the proof obligations that tie each model to them"},
        {"name": "orchestrator", "path": "tools/", "serves_properties": sorted(claimed),
         "kind_free_text": "check.py/vlib.py: translate, prove, correspond, decide, evidence; per-property generators in tools/props"},
    ],
    "checks": checks,
    "not_applicable": [{"property_id": pid, "reason": NA_REASON.get(pid, "check not built yet (work in progress; design in DESIGN.md §7)")}
                       for pid in props if pid not in claimed],
    "notes": "All checks: ./check <Cnn> --tier quick|thorough; VERIF_SEED honoured. Known findings: known_findings.json. See DESIGN.md.",
}
with open(os.path.join(vlib.VERIF, "MANIFEST.json"), "w") as f:
    json.dump(man, f, indent=1)
print("MANIFEST.json: %d checks, %d not_applicable" % (len(checks), len(man["not_applicable"])))
