"""C04 — synchronous connect yields a live session or a definite error in time.

prove:      coq/C04/Properties.v
correspond: harness/c04_impl.cpp: (S) the real Transport::connectSync over a scripted engine, the harness playing
            the I/O thread so that onConnect / onClose fall at chosen points (also inside the window in which the
            timed-out caller has released the mutex and is issuing its close) vs. the extracted model; (R) the
            real TcpEngine with accepting / refusing / unresolvable / black-holed targets, concurrent callers,
            stop while parked and cancellation, judged on results, return times, global callbacks, leftovers.
"""
import time

import vlib

PID = "C04"
HARNESS_OPTS = {"name": "c04_impl", "libs": "-lpthread -ldl -lssl -lcrypto"}
HARNESSES = [HARNESS_OPTS]
META = {
    "category": "proof",
    "technique": "Coq proof (invariant of the connectSync / handler / teardown transition system over all interleavings; the engine "
                 "assumed only to keep C02's per-identifier guarantee) + differential correspondence with scripted handler placement",
    "text": "Coq theorems over a transition system of any number of connectSync callers (fence check + engine connect + registration + "
            "park as one critical section, wake, timeout, the close issued with the mutex released, re-lock and return), plain "
            "connects, the I/O thread's onConnect / onClose handlers and the teardown fence, for every interleaving in which the engine "
            "keeps C02's guarantee: success is returned only for an identifier whose connect completed and that the call did not close; "
            "a global connect / close callback for a synchronous identifier implies its caller received it as success; a timed-out "
            "attempt has issued its close; a pendingConnects entry exists exactly while the operation has no result and never outlives "
            "the engine's close; behind the fence no connect is issued. The code as found is refuted (late onConnect in the unlock "
            "window, and after a fence wake-up). Tied to the code by scripts that place the handlers at every such point around real "
            "caller threads, and by real-engine runs with wall-clock bounds.",
    "design_ref": "DESIGN.md §7 C04",
    "note": "partial: 'no later than its timeout plus a bounded slack' is measured on the real engine (timeout + 1 s; cancellation "
            "polled every 100 ms), not proved; connectSyncCancellable restarts a fresh connect every 100 ms, which the model covers as "
            "a sequence of independent connectSync calls. Trusted: Coq kernel; extraction + OCaml driver; harness/c04_impl.cpp "
            "(scripted engine harness/recording_engine.hpp; park detection through syncMutex).",
}

# ---- additions of the translator / tie session
META["text"] += (" The model's caller step (syncMutex held from before engine->connect until the caller is parked with its entry "
                 "registered; the time-out close issued with the mutex released) is tied to the source: coq/Gen/ConnectShape.v "
                 "(connectSync's lock / fence / connect / register / wait / close order from clang's AST, regenerated every run) "
                 "and C04/GenTie.v connect_sync_generated_shape_ok.")


class Mirror:
    """just enough of the model to emit only enabled operations"""

    def __init__(self):
        self.next = 1
        self.callers = {}      # c -> dict(state, sid, done)
        self.async_ids = []
        self.connected = set()
        self.closed = set()
        self.shut = False
        self.refuse = False
        self.pending = set()
        self.abandoned = set()


def gen_script(rng):
    m = Mirror()
    ops = []
    ntimeouts = 0
    for _ in range(rng.randint(4, 16)):
        r = rng.random()
        waiting = [c for c, v in m.callers.items() if v["state"] == "wait"]
        inclose = [c for c, v in m.callers.items() if v["state"] == "close"]
        known = [v["sid"] for v in m.callers.values() if v["sid"]] + m.async_ids
        if r < 0.22 and len(m.callers) < 4:
            c = len(m.callers)
            will_timeout = (not m.shut and not m.refuse and ntimeouts < 2 and rng.random() < 0.5)
            if m.shut:
                m.callers[c] = {"state": "done", "sid": 0}
            elif m.refuse:
                m.next += 1
                m.callers[c] = {"state": "done", "sid": 0}
            else:
                sid = m.next
                m.next += 1
                m.callers[c] = {"state": "wait", "sid": sid, "t": will_timeout, "done": False}
                m.pending.add(sid)
                if will_timeout:
                    ntimeouts += 1
            ops.append("B%d:%s" % (c, "t" if will_timeout else "w"))
            if will_timeout:
                # the short wait is timed out by the script at once (the caller would do so on its own)
                ops.append("T%d" % c)
                m.callers[c]["state"] = "close"
                m.abandoned.add(m.callers[c]["sid"])
        elif r < 0.28:
            ops.append("A")
            if not m.refuse:
                m.async_ids.append(m.next)
            m.next += 1
        elif r < 0.50 and known:
            sid = rng.choice(known)
            if sid not in m.connected and sid not in m.closed:
                ops.append("HC%d" % sid)
                m.connected.add(sid)
                if sid in m.pending and sid not in m.abandoned:
                    m.pending.discard(sid)
                    for v in m.callers.values():
                        if v["sid"] == sid:
                            v["done"] = True
        elif r < 0.68 and known:
            sid = rng.choice(known)
            if sid not in m.closed:
                ops.append("HX%d" % sid)
                m.closed.add(sid)
                if sid in m.pending:
                    m.pending.discard(sid)
                    for v in m.callers.values():
                        if v["sid"] == sid:
                            v["done"] = True
        elif r < 0.80 and waiting:
            c = rng.choice(waiting)
            v = m.callers[c]
            if v["done"] or m.shut:
                ops.append("W%d" % c)
                if not v["done"]:
                    m.abandoned.add(v["sid"])
                v["state"] = "done"
            elif v["t"]:
                ops.append("T%d" % c)
                v["state"] = "close"
                m.abandoned.add(v["sid"])
        elif r < 0.90 and inclose:
            c = rng.choice(inclose)
            ops.append("F%d" % c)
            m.callers[c]["state"] = "done"
        elif r < 0.94 and not m.shut:
            ops.append("FENCE")
            m.shut = True
            # every parked caller wakes on the fence by itself: wait for them before the script goes on
            for c, v in m.callers.items():
                if v["state"] == "wait":
                    ops.append("W%d" % c)
                    if not v["done"]:
                        m.abandoned.add(v["sid"])
                    v["state"] = "done"
        elif r < 0.96 and not m.refuse:
            ops.append("REFUSE")
            m.refuse = True
    # callers that were started with a short timeout must be timed out by the script (they will, on their own)
    for c, v in m.callers.items():
        if v["state"] == "wait" and v.get("t") and not v["done"] and not m.shut:
            ops.append("T%d" % c)
            v["state"] = "close"
            if rng.random() < 0.5:
                # the window: the engine completes / fails the connect while the caller is issuing its close
                sid = v["sid"]
                if sid not in m.connected and sid not in m.closed and rng.random() < 0.7:
                    ops.append("HC%d" % sid)
                    m.connected.add(sid)
                ops.append("F%d" % c)
                if sid not in m.closed:
                    ops.append("HX%d" % sid)
                    m.closed.add(sid)
    return "S " + ";".join(ops)


CORPUS = [
    "S B1:e;W1",
    "S B1:e;B2:e;W1;W2;A;B3:w;HC4;W3",
    "S B1:w;B2:e;HX1;W1;W2",

    "S B0:t;T0;HC1;F0;HX1",                       # late onConnect in the unlock window
    "S B0:w;FENCE;W0;HC1;HX1",                    # late onConnect after a fence wake-up
    "S B0:w;A;B1:w;HC1;W0;HC2;B2:t;T2;HC4;I2;HX1;F2;HX4;HX2;FENCE;W1;B3:w",
    "S B0:w;HX1;W0;B1:w;REFUSE;B2:w;HC2;W1;HX2",
]


def run(ctx):
    t0 = time.time()
    v = vlib.Verdict(ctx)
    proof = vlib.prove(ctx, "C04", extra_targets=["C04/Extract.vo"])
    if proof["broken"]:
        v.proof_broken(proof["broken"], proof["log_tail"])
    cov = {"evaluations": 0, "distinct_nontrivial": 0, "rule": "", "samples": []}
    model_exe = None
    try:
        model_exe = vlib.build_driver("c04")
    except Exception as e:
        v.harness_broken("model driver failed to build", str(e)[-2000:])
    impl_exe, blog = vlib.build_harness(**HARNESS_OPTS)
    if impl_exe is None:
        v.harness_broken("harness/c04_impl.cpp no longer compiles against /repo/include", blog)
    if model_exe and impl_exe:
        rng = vlib.rng_for(ctx)
        thorough = ctx["tier"] == "thorough"
        if ctx.get("replay"):
            lines = [l.strip() for l in open(ctx["replay"]) if l.strip() and not l.startswith("#")]
            li, lm, _ = vlib.run_pair(ctx, impl_exe, model_exe, lines, "c04r")
            for a, b, c in zip(lines, li, lm):
                print("case:  %s\nimpl:  %s\nmodel: %s" % (a[:1500], b[:1500], c[:1500]))
            cov["evaluations"] = len(lines)
        else:
            n = 120 if not thorough else 3000
            lines = list(CORPUS) + [gen_script(rng) for _ in range(n)]
            reals = ["R ok 6 2000", "R refused 4 2000", "R resolve 3 3000", "R hole 4 200", "R tlsbad 4 2000", "R tlshang 4 250", "R mixed 12 250", "R slowio 1 100", "R slowio 1 40",
                     "R stop 4 5000", "R cancel 3 3000"]
            if thorough:
                reals = reals * 6 + ["R mixed 32 300", "R hole 16 150"]
            lines += reals
            li, lm, _ = vlib.run_pair(ctx, impl_exe, model_exe, lines, "c04h", timeout=3000)
            nontrivial = skipped = 0
            kinds = {}
            for line, ri, rm in zip(lines, li, lm):
                if "RACE-SKIP" in ri:
                    skipped += 1
                    continue
                if ri.startswith("CRASH") or ri.startswith("EXC") or "HUNG" in ri or ri.endswith("FAIL"):
                    v.property_failure("impl-crashes", "connectSync crashed / never returned (%s)" % ri[-200:], line, ri[-600:])
                    continue
                if "ILLEGAL-SCRIPT" in rm:
                    v.harness_broken("generator emitted an engine event the engine's guarantee excludes", line)
                    continue
                if line.startswith("R "):
                    kinds[line.split()[1]] = kinds.get(line.split()[1], 0) + 1
                    if ri != "R ok":
                        sig = ("global-callback-for-unhanded-id" if "global-callback" in ri else "late-return" if "late-return" in ri else
                               "timed-out-connection-left-open" if ("left-open" in ri or "open-sessions" in ri) else "sync-connect-outcome")
                        v.property_failure(sig, "real engine, scenario %s: %s" % (line.split()[1], ri[2:300]), line, ri)
                    else:
                        nontrivial += 1
                    continue
                if ri != rm:
                    gi = ri.split("#")[1] if "#" in ri else ""
                    gm = rm.split("#")[1] if "#" in rm else ""
                    if gi != gm:
                        v.property_failure("global-callback-for-unhanded-id", "the global connect / close callbacks were invoked for an "
                                           "identifier its synchronous caller never received (or withheld for one it did): impl %s, model %s" % (gi.strip(), gm.strip()),
                                           line, "impl:  %s\nmodel: %s" % (ri, rm))
                    else:
                        v.property_failure("sync-connect-outcome", "connectSync results / close commands / leftover entries differ from the model",
                                           line, "impl:  %s\nmodel: %s" % (ri, rm))
                else:
                    nontrivial += 1
            cov["evaluations"] = len(lines)
            cov["distinct_nontrivial"] = nontrivial
            cov["rule"] = ("random scripts over up to 4 connectSync callers on a scripted engine: registration, engine onConnect / onClose for "
                           "synchronous and plain identifiers at any point (before the wait ends, inside the window where the timed-out caller "
                           "has released the mutex and is inside engine->close, after its return), timeouts (80 ms) and long waits, the "
                           "teardown fence, the engine refusing connects; compared: every caller's result, the global callback log, the close "
                           "commands received by the engine, leftover pendingConnects entries. Real engine: accepting / refused / unresolvable / "
                           "black-holed targets, TLS targets that answer garbage or never answer, a timeout while the I/O thread is held in a slow callback (the close queues behind the unexecuted connect), mixed concurrent callers, stop while parked, cancellation; return time <= timeout + 1 s. "
                           "Scripts skipped because a short-timeout caller fired before its scripted point: %d." % skipped)
            cov["samples"] = lines[4:6] + ["real scenarios: %s" % sorted(kinds.items())]
    rc = v.finish()
    ctx["assumptions"] = ["loopback TCP; nonblocking connect to a listener with a full accept queue stays pending; a scripted step takes < 80 ms"]
    vlib.write_evidence(ctx, proof, cov, time.time() - t0, len(v.violations))
    return rc
