"""C05 — stopping or destroying a transport never strands, crashes or races.

prove:      coq/C05/Properties.v
correspond: harness/c05_impl.cpp: (S) worker threads parked inside receiveSync / connectSync / a held setReadMode
            flush of the real Transport (scripted engine) while a destructor thread drops the last owner, vs. the
            extracted handshake model; (P) the same with real TCP / UDP engines; (X) storms of every public
            operation against stop(); (C) the sole owner released inside a callback; (Y) restart cycles.  ASan +
            UBSan on every run, ThreadSanitizer build of the same harness for the real-engine scenarios.
"""
import os
import time

import vlib

PID = "C05"
HARNESS_OPTS = {"name": "c05_impl", "libs": "-lpthread -ldl -lssl -lcrypto"}
TSAN_OPTS = {"name": "c05_impl", "libs": "-lpthread -ldl -lssl -lcrypto", "sanitize": "tsan"}
HARNESSES = [HARNESS_OPTS, TSAN_OPTS]
META = {
    "category": "proof",
    "technique": "Coq proof (invariant + progress of the teardown-handshake transition system over all interleavings) + differential "
                 "correspondence with parked real threads + sanitizer-instrumented stress (ASan/UBSan/TSan)",
    "text": "Coq theorems over the teardown handshake of Transport::Impl (entry fence, the three parked-caller counters with their RAII "
            "guards, condition-variable notification, fence / engine stop / wait-out / ~Impl) for every interleaving of callers "
            "entering and leaving receiveSync / connectSync / a read-mode flush with the destructor: ~Impl never runs under a thread "
            "that is inside a call, the counters are exact, nobody parks behind the fence, every parked connector has been notified "
            "once the fence is up (no lost wake-up), receivers are notified by the wait-out exactly on the paths where no engine close "
            "will come, and the destructor proceeds once the callers inside have left. Tied to the code by scripts that park real "
            "threads inside the real Transport and drop the last owner, by the same on real engines, and by sanitizer-instrumented "
            "storms of every public operation against stop(), self-destruction inside callbacks and restart cycles.",
    "design_ref": "DESIGN.md §7 C05",
    "note": "partial: the proof covers the handshake logic (what the counters and the fence guarantee). 'No memory is used after "
            "being freed' and 'no data race' outside that logic - the engines' own teardown (shutdownDrain, deferred self-destruction, "
            "eventfd close vs. enqueue) - are sanitizer evidence from the storms, not theorems; 'bounded time' is measured (every call "
            "<= its own timeout + 1.5 s, stop() <= 5 s (sanitizer builds)). A call STARTED after the last owner is gone is outside the contract (theorem "
            "6 shows the model flags it). Trusted: Coq kernel; extraction + OCaml driver; harness/c05_impl.cpp; ASan/UBSan/TSan.",
}

# ---- additions of the translator / tie session
META["text"] += (" The model's wait-out step is tied to the source: coq/Gen/TeardownShape.v (teardownWaitOut: lock, fence, notifications, the "
                 "wait and the counters its predicate names, from clang's AST, regenerated every run) and C05/GenTie.v "
                 "teardown_generated_waits_for_all_three.")


def gen_script(rng):
    ops = []
    workers = {}      # t -> kind
    n = rng.randint(1, 5)
    short = None
    for t in range(1, n + 1):
        k = rng.choice("RRCCF")
        workers[t] = k
        if k == "R":
            ops.append("R%d:20000" % t)
        else:
            ops.append("%s%d" % (k, t))
    # sometimes somebody leaves before the teardown starts
    for t in list(workers):
        if rng.random() < 0.15:
            if workers[t] == "F":
                ops.append("X%d" % t)
            else:
                ops.append("S%d" % t)
            del workers[t]
    stopped_first = rng.random() < 0.35
    if stopped_first:
        ops.append("E")
    if rng.random() < 0.3:
        t = n + 1
        ops.append("R%d:350" % t)
        short = t
    ops.append("D")
    if short is not None and not stopped_first:
        ops.append("T%d" % short)         # its own timeout ends it (nothing else wakes a receiver on the normal path)
    elif short is not None:
        workers[short] = "R"
    inside = dict(workers)
    auto = [t for t, k in inside.items() if k == "C" or (k == "R" and stopped_first)]
    rng.shuffle(auto)
    for t in auto:
        ops.append("W%d" % t)
        del inside[t]
    nq = 0
    nextt = n + 2
    rest = list(inside)
    rng.shuffle(rest)
    for t in rest:
        if rng.random() < 0.4 and inside:
            ops.append("N%d:%s" % (nextt, rng.choice("rcf")))   # a call started while the teardown waits: fenced off
            nextt += 1
        if rng.random() < 0.3 and nq < 1:
            ops.append("?")
            nq += 1
        if rng.random() < 0.85:
            ops.append(("X%d" if inside[t] == "F" else "S%d") % t)
            del inside[t]
    if nq < 2 and rng.random() < 0.8:
        ops.append("?")
    return "S " + ";".join(ops)


CORPUS = [
    # a connectSync past its own timeout, still inside its timeout path, while the last owner goes away
    "S O1:60;D;?;U1;?",
    "S O1:60;C2;D;W2;?;N3:c;U1;?",
    "S O1:60;E;D;?;U1;?",
    "S O1:40;U1;D;?",
    "S R1:20000;C2;F3;D;W2;N4:r;?;S1;X3;?",
    "S R1:20000;C2;E;D;W1;W2;?",
    "S C1;C2;R3:20000;R4:350;D;T4;W1;W2;N5:c;S3;?",
    "S D;?",
    "S F1;D;N2:f;X1;?",
]


def run(ctx):
    t0 = time.time()
    v = vlib.Verdict(ctx)
    proof = vlib.prove(ctx, "C05", extra_targets=["C05/Extract.vo"])
    if proof["broken"]:
        v.proof_broken(proof["broken"], proof["log_tail"])
    cov = {"evaluations": 0, "distinct_nontrivial": 0, "rule": "", "samples": []}
    model_exe = None
    try:
        model_exe = vlib.build_driver("c05")
    except Exception as e:
        v.harness_broken("model driver failed to build", str(e)[-2000:])
    impl_exe, blog = vlib.build_harness(**HARNESS_OPTS)
    if impl_exe is None:
        v.harness_broken("harness/c05_impl.cpp no longer compiles against /repo/include", blog)
    tsan_exe, tlog = vlib.build_harness(**TSAN_OPTS)
    if tsan_exe is None:
        v.harness_broken("harness/c05_impl.cpp no longer compiles with -fsanitize=thread", tlog)
    if model_exe and impl_exe:
        rng = vlib.rng_for(ctx)
        thorough = ctx["tier"] == "thorough"
        if ctx.get("replay"):
            lines = [l.strip() for l in open(ctx["replay"]) if l.strip() and not l.startswith("#")]
            li, lm, log = vlib.run_pair(ctx, impl_exe, model_exe, lines, "c05r")
            for a, b, c in zip(lines, li, lm):
                print("case:  %s\nimpl:  %s\nmodel: %s" % (a[:1500], b[:1500], c[:1500]))
            print(log[1][-1500:])
            cov["evaluations"] = len(lines)
        else:
            n = 60 if not thorough else 1500
            lines = list(CORPUS) + [gen_script(rng) for _ in range(n)]
            base = rng.randint(1, 10 ** 6)
            # K first: it installs the global yield hook, which a detached self-destructing engine thread of a later C scenario
            # may still be reading
            reals = ["K tcp", "K udp", "P tcp 6", "P udp 4", "P tcp 12", "C close", "C data", "C connect", "Y tcp 3", "Y udp 3"]
            reals += ["X %s 4 %d %d" % ("udp" if i % 3 == 2 else "tcp", rng.choice([15, 40, 90]), base + i) for i in range(8 if not thorough else 120)]
            if thorough:
                reals = reals[:2] + reals[2:] * 4
            lines += reals
            li, lm, log = vlib.run_pair(ctx, impl_exe, model_exe, lines, "c05h", timeout=3000)
            nontrivial = 0
            kinds = {}
            san = log[1]
            if "ERROR: AddressSanitizer" in san or "runtime error:" in san:
                v.property_failure("memory-error", "AddressSanitizer / UBSan report during teardown scenarios", "(see detail)", san[-3000:])
            for line, ri, rm in zip(lines, li, lm):
                if ri.startswith("CRASH") or ri.startswith("EXC") or "HUNG" in ri or ri.endswith("FAIL"):
                    memerr = ri.startswith("CRASH") and ("AddressSanitizer" in san or "runtime error" in san)
                    v.property_failure("memory-error" if memerr else "impl-crashes",
                                       ("AddressSanitizer / UBSan report: " + (san[san.find("ERROR: AddressSanitizer"):][:160].replace("\n", " ")) if memerr
                                        else "teardown scenario crashed / hung (%s)" % ri[-200:]), line, ri[-600:] + "\n" + san[-3000:])
                    continue
                if "BAD-SCRIPT" in rm:
                    v.harness_broken("generator started a call on a destroyed transport", line)
                    continue
                kinds[line.split()[0]] = kinds.get(line.split()[0], 0) + 1
                if ri != rm:
                    if line.startswith("S "):
                        sig = "caller-stranded-or-wrong-result"
                        what = "parked callers / destructor progress differ from the handshake model: impl %s, model %s" % (ri[:200], rm[:200])
                    else:
                        sig = ("callback-after-stop" if "callback-after-stop" in ri else
                               "operation-accepted-after-teardown" if "after-queue-drained" in ri else
                               "caller-stranded-or-wrong-result" if ("still-inside" in ri or "result:" in ri or "over-bound" in ri or "took" in ri) else "teardown-scenario")
                        what = "real engine: %s" % ri[:300]
                    v.property_failure(sig, what, line, "impl:  %s\nmodel: %s" % (ri, rm))
                else:
                    nontrivial += 1
            # ThreadSanitizer build on the real-engine scenarios
            tsan_reports = None
            if tsan_exe:
                tl = [l for l in reals if l[0] in "PXCYK"][: (14 if not thorough else 60)]
                cf = os.path.join(ctx["workdir"], "c05tsan.cases")
                open(cf, "w").write("\n".join(tl) + "\n")
                rc, out = vlib.sh([tsan_exe, cf, cf + ".out"], timeout=2400, env={"TSAN_OPTIONS": "halt_on_error=0:report_signal_unsafe=0:second_deadlock_stack=1"})
                tsan_reports = out.count("WARNING: ThreadSanitizer")
                if tsan_reports:
                    first = out[out.find("WARNING: ThreadSanitizer"):][:3500]
                    v.property_failure("data-race-reported", "ThreadSanitizer reports %d issue(s) during teardown scenarios" % tsan_reports,
                                       "\n".join(tl), first)
                elif rc != 0:
                    v.property_failure("impl-crashes", "ThreadSanitizer build of the teardown scenarios exited with %d" % rc, "\n".join(tl), out[-2000:])
            cov["evaluations"] = len(lines)
            cov["distinct_nontrivial"] = nontrivial
            cov["rule"] = ("random scripts: 1-5 threads parked inside receiveSync / connectSync / a held flush of the real Transport "
                           "(scripted engine), some leaving early, optional engine-stopped-first path, a receiver that leaves by its own "
                           "timeout, the last owner dropped on a destructor thread, fenced-off late entries, engine closes and flush "
                           "releases in random order, destructor-done probes; compared with the extracted model: every thread's result and "
                           "whether ~Impl has run. Real engines: park-and-destroy (TCP/UDP), storms of connectSync / connect / receiveSync / "
                           "setReadMode / send / sendSync / close / addListener / getStats / observe against stop(), sole-owner release "
                           "inside close / data / connect callbacks, restart cycles, operations issued from the residual-close callback of shutdownDrain (must be refused). ASan+UBSan on all, TSan on the real-engine ones "
                           "(%s reports)." % tsan_reports)
            cov["samples"] = ["scenario kinds: %s" % sorted(kinds.items())]
    rc = v.finish()
    ctx["assumptions"] = ["no call is started on a transport after its last owner was released"]
    vlib.write_evidence(ctx, proof, cov, time.time() - t0, len(v.violations))
    return rc
