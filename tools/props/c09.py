"""C09 — every accepted task runs exactly once before pool shutdown completes.

prove:      coq/C09/Properties.v
correspond: harness/c09_impl.cpp: deterministic gated scenarios on the real ThreadPool vs. the extracted
            model; concurrent stress with per-task counters, futures, throwing and nested tasks, idle
            exits and destruction; two submitters made to meet between unlock and spawn (yield hook).
"""
import time

import vlib

PID = "C09"
HARNESS_OPTS = {"name": "c09_impl", "libs": "-lpthread"}
HARNESSES = [HARNESS_OPTS]
META = {
    "category": "proof",
    "technique": "Coq proof (invariants of the pool's transition system over all histories) + differential correspondence + stress",
    "text": "Coq theorems over ThreadPool as a transition system of its critical sections (submission with the spawn decision, "
            "spawn completion, workers taking and finishing tasks, idle-timeout exits, drain, shutdown, shutdown exits): in "
            "every reachable state every accepted task is queued, running or done exactly once and a queued task always has "
            "a worker or a spawn under way; when the last worker has left, the queue is empty and the done tasks are exactly "
            "the accepted ones; a submission is refused only for queue-full / draining / shut down; with the spawn slot "
            "reserved under the lock the worker count never exceeds the maximum - the unreserved decision of the code as "
            "found is refuted (fixed in the repository). Tied to the code by deterministic gated scenarios compared with the "
            "model, by a hook-driven reproduction of the two-submitter window, and by concurrent stress.",
    "design_ref": "DESIGN.md §7 C09",
    "note": "partial: real schedules are sampled by the stress runs only; the model's steps are the code's critical sections "
            "(a task body runs between STake and SFinish). Futures / exception propagation are library behaviour "
            "(std::packaged_task) and are tested, not modelled. ShutdownMode::DETACHED (threads detached at destruction) is "
            "outside the statement. drain() polls _activeThreads, which a worker increments after releasing the lock: drain "
            "may report completion one task early; stop()/the destructor join the workers and are not affected (noted in "
            "DESIGN.md). Trusted: Coq kernel; extraction + OCaml driver; harness/c09_impl.cpp; hook "
            "IORA_VERIF_YIELD(\"tp.enqueue.unlocked*\").",
}

# ---- additions of the translator / tie session
META["text"] += (" Since C09-F29 (a worker that left before its creator had registered it stayed in _threads for ever; found through "
                 "a seeding agent's observation, reproduced with the yield hook tp.spawn.created, repaired): the model's single step "
                 "'created and registered' is tied to the source - coq/Gen/PoolShape.v (spawnWorker's lock / create / register order "
                 "from clang's AST, regenerated every run) and C09/GenTie.v pool_generated_spawn_is_one_step. New scenarios: R (late "
                 "registration through the hook) and I (submissions timed onto the idle timeout of the only worker, every task awaited).")


def gen_scenario(rng):
    mn = rng.choice([0, 1, 2])
    mx = max(mn, rng.choice([1, 1, 2, 3]))
    maxq = rng.choice([1, 2, 3, 5])
    ops = []
    stopped = False
    drained = False
    for _ in range(rng.randint(3, 14)):
        r = rng.random()
        if r < 0.6:
            ops.append("s")
        elif r < 0.75:
            ops.append("z")
        elif r < 0.9:
            ops.append("g")
        elif r < 0.95 and not stopped and not drained:
            ops += ["g", "d"]
            drained = True
        elif not stopped:
            ops += ["g", "x"]
            stopped = True
    ops += ["g", "z"]
    return "S %d,%d,%d %s" % (mn, mx, maxq, ";".join(ops))


def run(ctx):
    t0 = time.time()
    v = vlib.Verdict(ctx)
    proof = vlib.prove(ctx, "C09", extra_targets=["C09/Extract.vo"])
    if proof["broken"]:
        v.proof_broken(proof["broken"], proof["log_tail"])
    cov = {"evaluations": 0, "distinct_nontrivial": 0, "rule": "", "samples": []}
    model_exe = None
    try:
        model_exe = vlib.build_driver("c09")
    except Exception as e:
        v.harness_broken("model driver failed to build", str(e)[-2000:])
    impl_exe, blog = vlib.build_harness(**HARNESS_OPTS)
    if impl_exe is None:
        v.harness_broken("harness/c09_impl.cpp no longer compiles against /repo/include", blog)
    if model_exe and impl_exe:
        rng = vlib.rng_for(ctx)
        thorough = ctx["tier"] == "thorough"
        if ctx.get("replay"):
            lines = [l.strip() for l in open(ctx["replay"]) if l.strip() and not l.startswith("#")]
            li, lm, _ = vlib.run_pair(ctx, impl_exe, model_exe, lines, "c09r")
            for a, b, c in zip(lines, li, lm):
                print("case:  %s\nimpl:  %s\nmodel: %s" % (a[:1500], b[:1500], c[:1500]))
            cov["evaluations"] = len(lines)
        else:
            n = 60 if not thorough else 1500
            lines = ["S 1,2,2 s;s;s;s;s;z;g;s;z;g;d;s;g;x;s", "S 0,1,1 s;s;s;z;g;z"] + [gen_scenario(rng) for _ in range(n)]
            stress = ["X 4 %d 1 4 64" % (400 if not thorough else 5000), "X 8 %d 0 2 16" % (300 if not thorough else 4000),
                      "X 2 %d 2 2 4" % (400 if not thorough else 5000), "X 6 %d 0 8 1024" % (300 if not thorough else 4000)]
            race = ["O"] * (3 if not thorough else 30)
            backlog = ["Y 200 1", "Y 300 3", "Y 50 2"] * (1 if not thorough else 10)
            # shutdown() / stop() starting while submitters are inside enqueue / enqueueWithResult / tryEnqueue
            zt = 25 if not thorough else 300
            shut = ["Z %d 6 1 1 shutdown" % zt, "Z %d 6 1 1 stop" % zt, "Z %d 4 0 3 shutdown" % zt, "Z %d 8 2 2 stop" % zt]
            # a running pool whose queue never fills refuses nothing (refusal reasons: full / draining / shut down only)
            never = ["N 6 %d" % (4000 if not thorough else 40000), "N 2 %d" % (4000 if not thorough else 40000)]
            # a worker that leaves on its idle timeout before its creator has registered it (yield hook tp.spawn.created)
            latereg = ["R"] * (2 if not thorough else 10)
            # submissions timed onto the idle timeout of the only worker (ThreadPool(0,1,1ms)); every task awaited
            idle = ["I 4 %d" % (1200 if not thorough else 12000), "I 8 %d" % (600 if not thorough else 6000)]
            lines += stress + race + backlog + shut + never + latereg + idle
            li, lm, _ = vlib.run_pair(ctx, impl_exe, model_exe, lines, "c09h", timeout=1800)
            nontrivial = 0
            disagree = 0
            for line, ri, rm in zip(lines, li, lm):
                if ri.startswith("CRASH") or ri.startswith("EXC"):
                    v.property_failure("impl-crashes", "ThreadPool crashed (%s)" % ri[:200], line, ri[:400])
                    continue
                if line.startswith("X "):
                    if ri != rm:
                        v.property_failure("stress-" + "-".join(k.split("=")[0] for k in ri.split(" ")[1:] if not k.endswith("=0")),
                                           "concurrent stress: %s (lost / duplicated / phantom task, future not ready with the task's "
                                           "result, a task body after the destructor returned, more workers than the maximum)" % ri, line, ri)
                    else:
                        nontrivial += 1
                    continue
                if line.startswith("Y "):
                    if ri != rm:
                        v.property_failure("destructor-returns-before-tasks-finished", "the pool was destroyed with queued tasks: %s "
                                           "(accepted tasks that had not run when the destructor returned / ran afterwards)" % ri, line, ri)
                    else:
                        nontrivial += 1
                    continue
                if line.startswith("N "):
                    if ri != rm:
                        v.property_failure("refused-without-reason", "a running pool with room in its queue refused submissions (or lost "
                                           "accepted ones): %s - a submission may be refused only for a full queue, a drain or a shutdown" % ri, line, ri)
                    else:
                        nontrivial += 1
                    continue
                if line.startswith("Z "):
                    if ri != rm:
                        v.property_failure("shutdown-racing-submitters", "submitters racing %s(): %s (an accepted task never ran / its future "
                                           "is not ready / a task started after the call returned / tasks left queued)" % (line.split()[5], ri), line, ri)
                    else:
                        nontrivial += 1
                    continue
                if line.startswith("I "):
                    if ri != rm:
                        v.property_failure("accepted-task-stranded-at-idle-exit", "a task accepted while the only worker was leaving on its idle "
                                           "timeout was not run (no worker took it, no replacement was spawned): %s" % ri, line, ri)
                    else:
                        nontrivial += 1
                    continue
                if line == "R":
                    if ri != rm:
                        v.property_failure("accepted-task-never-runs-after-late-registration", "a worker ran its task and left on its idle "
                                           "timeout before the submitter that created it had registered it in _threads; the stale entry "
                                           "counts as a worker for ever, so the next accepted task is never run while the pool keeps "
                                           "running: %s" % ri, line, ri)
                    else:
                        nontrivial += 1
                    continue
                if line == "O":
                    if ri != rm:
                        v.property_failure("more-workers-than-maximum", "two submitters that both left the lock before either spawned end up "
                                           "with %s" % ri, line, ri)
                    else:
                        nontrivial += 1
                    continue
                if ri != rm:
                    disagree += 1
                    v.disagreement("C09 correspondence: thread pool model and implementation differ on a gated scenario", line, ri[:1500], rm[:1500])
                else:
                    nontrivial += 1
            cov = {
                "evaluations": len(lines),
                "distinct_nontrivial": nontrivial,
                "rule": "deterministic scenarios (min 0..2, max 1..3 workers, queue bound 1/2/3/5): submissions of gated tasks (accepted / "
                        "refused), pending counts, gate openings until everything is done, drain, stop, submissions after them - "
                        "compared token by token with the model; stress: 2..8 submitter threads x 300..400 tasks (thorough: thousands) "
                        "with idle timeout 2 ms, every 11th task throwing, every 7th submitting a child task, every 5th through "
                        "enqueueWithResult (future must carry the task's value or exception), worker count sampled continuously, "
                        "task bodies checked not to run after the destructor; the two-submitter window reproduced through the yield "
                        "hook with max = 1.",
                "samples": lines[:3],
                "disagreements_model_vs_impl": disagree,
            }
    rc = v.finish()
    ctx["assumptions"] = ["the pool outlives its submitters (no submission concurrent with the destructor: object lifetime)"]
    vlib.write_evidence(ctx, proof, cov, time.time() - t0, len(v.violations))
    return rc
