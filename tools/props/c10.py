"""C10 — bounded queues are FIFO, lossless, capacity-bounded and race-free.

prove:      coq/C10/Properties.v
correspond: harness/c10_impl.cpp: single-threaded operation sequences on RingBuffer / DynamicRingBuffer /
            BlockingQueue vs. the extracted models; concurrent sequence-numbered stress (ASan and
            ThreadSanitizer builds); close() injected between a blocked caller's predicate and its sleep
            through the IORA_VERIF yield hook.
"""
import time

import vlib

PID = "C10"
HARNESS_OPTS = {"name": "c10_impl", "libs": "-lpthread"}
TSAN_OPTS = {"name": "c10_impl", "libs": "-lpthread", "sanitize": "tsan"}
HARNESSES = [HARNESS_OPTS, TSAN_OPTS]
META = {
    "category": "proof",
    "technique": "Coq proof (invariants of two-thread / many-caller transition systems over all interleavings) + differential correspondence + ThreadSanitizer stress",
    "text": "Coq theorems: (1) the SPSC ring buffers as a transition system at the granularity of the individual atomic loads, "
            "stores and slot accesses, with the happens-before knowledge carried by release/acquire: for EVERY interleaving "
            "(single and batch operations, any capacity) what was popped is exactly the prefix of what was pushed, head-tail "
            "never exceeds the capacity and no slot access is unordered w.r.t. a conflicting one - provided the producer "
            "loads the consumer index with acquire; with the relaxed load of the code as found a racing interleaving is "
            "exhibited (fixed in the repository); (2) BlockingQueue: FIFO / exactly-once / bounded for any sequence of "
            "critical sections, close refuses puts and leaves items retrievable; (3) the wait/notify protocol for any number "
            "of callers: in every quiescent reachable state nobody sleeps while its condition holds - close() as found "
            "(flag + notify_all without the mutex) is refuted by a concrete lost wake-up (fixed). Tied to the code by "
            "sequential differential runs, sequence-numbered concurrent stress (ASan and TSan builds) and a deterministic "
            "reproduction of the close() window through a yield hook.",
    "design_ref": "DESIGN.md §7 C10",
    "note": "partial: the memory-model argument is made in a small operational release/acquire model (a relaxed load "
            "transfers no happens-before knowledge); it is not the full C++ model. Counters are unbounded in the model "
            "(size_t wrap at 2^64 not modelled). resize()/clear()/peek() are outside the Coq model: resize is checked against "
            "a Python oracle only. ThreadSanitizer and the stress runs are tests. Trusted: Coq kernel; extraction + OCaml "
            "driver; harness/c10_impl.cpp; hooks IORA_VERIF_YIELD(\"bq.put.*\"/\"bq.take.*\") in the wait predicates.",
}

# ---- additions of the translator / tie session (appended to the manifest texts)
META["text"] += " Since the translator exists: the atomic accesses, memory orders and slot accesses of every ring method and the lock / wait / notify / mutation order of every BlockingQueue method are read off clang's AST of the CURRENT headers on every run (coq/Gen/RingProto.v, coq/Gen/QueueShape.v); C10/GenTie.v proves that the generated sequences follow the model's step protocols with acquire / release on both index pairs and that close() takes the mutex between the flag and notify_all, and instantiates the race-freedom and no-lost-wake-up theorems with the switches read off the source."
META["note"] += " Translator (tools/translate.py: clang -ast-dump=json + a Python walker) is trusted for the generated facts; its shape checks are syntactic (program order of the source text, one slot event per subscript expression)."
META["technique"] = 'Coq proof (invariants over all interleavings; model switches instantiated from facts the translator regenerates from the source on every run) + differential correspondence + TSan stress'


def gen_ring(rng):
    cap = rng.choice([1, 2, 4, 8])
    ops = []
    v = 0
    for _ in range(rng.randint(5, 40)):
        r = rng.random()
        if r < 0.3:
            v += 1
            ops.append("p:%d" % v)
        elif r < 0.5:
            n = rng.randint(0, cap + 3)
            vals = list(range(v + 1, v + 1 + n))
            v += n
            ops.append("P:%s" % ",".join(map(str, vals)))
        elif r < 0.7:
            ops.append("o")
        elif r < 0.9:
            ops.append("O:%d" % rng.randint(0, cap + 2))
        else:
            ops.append("z")
    return "R %d %s" % (cap, ";".join(ops))


def gen_queue(rng):
    cap = rng.choice([1, 2, 3, 5])
    ops = []
    v = 0
    closed = False
    for _ in range(rng.randint(5, 30)):
        r = rng.random()
        if r < 0.45:
            v += 1
            ops.append("%s:%d" % (rng.choice("uU"), v))
        elif r < 0.85:
            ops.append(rng.choice("tT"))
        elif r < 0.92:
            ops.append("z")
        else:
            ops.append("c")
    ops += ["t"] * (cap + 1)
    return "Q %d %s" % (cap, ";".join(ops))


def gen_dyn(rng):
    cap = rng.choice([1, 2, 3, 4, 7, 8])
    ops = []
    v = 0
    for _ in range(rng.randint(5, 30)):
        r = rng.random()
        if r < 0.5:
            v += 1
            ops.append("p:%d" % v)
        elif r < 0.7:
            ops.append("o")
        elif r < 0.8:
            ops.append("O:%d" % rng.randint(0, 5))
        elif r < 0.93:
            ops.append("Z:%d" % rng.choice([0, 1, 2, 3, 4, 5, 8, 9, 16]))
        else:
            ops.append("z")
    ops.append("O:40")
    return "D %d %s" % (cap, ";".join(ops))


def npow2(v):
    p = 1
    while p < max(v, 1):
        p *= 2
    return p


def dyn_oracle(line, out):
    """reference for DynamicRingBuffer incl. resize (keeps the most recent items when shrinking)"""
    cap = npow2(int(line.split(" ")[1]))
    q = []
    want = []
    for op in line.split(" ")[2].split(";"):
        p = op.split(":")
        if p[0] == "p":
            if len(q) < cap:
                q.append(int(p[1]))
                want.append("p1")
            else:
                want.append("p0")
        elif p[0] == "o":
            want.append("o%d" % q.pop(0) if q else "o-")
        elif p[0] == "O":
            n = min(int(p[1]), len(q))
            want.append("O[%s]" % ",".join(map(str, q[:n])))
            q = q[n:]
        elif p[0] == "Z":
            nc = npow2(int(p[1]))
            dropped = max(0, len(q) - nc)
            q = q[dropped:]
            cap = nc
            want.append("Z%d/%d" % (dropped, nc))
        elif p[0] == "z":
            want.append("z%d" % len(q))
    return " ".join(want)


def run(ctx):
    t0 = time.time()
    v = vlib.Verdict(ctx)
    proof = vlib.prove(ctx, "C10", extra_targets=["C10/Extract.vo"])
    if proof["broken"]:
        v.proof_broken(proof["broken"], proof["log_tail"])
    cov = {"evaluations": 0, "distinct_nontrivial": 0, "rule": "", "samples": []}
    model_exe = None
    try:
        model_exe = vlib.build_driver("c10")
    except Exception as e:
        v.harness_broken("model driver failed to build", str(e)[-2000:])
    impl_exe, blog = vlib.build_harness(**HARNESS_OPTS)
    if impl_exe is None:
        v.harness_broken("harness/c10_impl.cpp no longer compiles against /repo/include", blog)
    tsan_exe, tlog = vlib.build_harness(**TSAN_OPTS)
    if tsan_exe is None:
        v.harness_broken("harness/c10_impl.cpp (ThreadSanitizer build) no longer compiles", tlog)
    if model_exe and impl_exe:
        rng = vlib.rng_for(ctx)
        thorough = ctx["tier"] == "thorough"
        if ctx.get("replay"):
            lines = [l.strip() for l in open(ctx["replay"]) if l.strip() and not l.startswith("#")]
            li, lm, _ = vlib.run_pair(ctx, impl_exe, model_exe, lines, "c10r")
            for a, b, c in zip(lines, li, lm):
                print("case:  %s\nimpl:  %s\nmodel: %s" % (a[:1500], b[:1500], c[:1500]))
            cov["evaluations"] = len(lines)
        else:
            n = 400 if not thorough else 8000
            lines = [gen_ring(rng) for _ in range(n)] + [gen_queue(rng) for _ in range(n)] + [gen_dyn(rng) for _ in range(n // 2)]
            stress = ["X bq 3 2 %d 4" % (3000 if not thorough else 60000), "X bq 1 1 %d 1" % (3000 if not thorough else 60000),
                      "X bq 4 4 %d 2" % (2000 if not thorough else 30000), "X ring %d 8" % (300000 if not thorough else 5000000),
                      "X ring %d 1" % (50000 if not thorough else 1000000), "X ring %d 2" % (100000 if not thorough else 2000000)]
            # wide (128-byte) items and batch pops as large as the ring, fixed-capacity and dynamic variant
            stress += ["X %s %d %d" % (k, (60000 if not thorough else 1500000), c) for k in ("sring", "dring") for c in (8, 64, 2, 1)]
            wake = ["W put", "W take"] * (3 if not thorough else 30)
            # several blocked callers released one by one through every put / take entry point: each state change must
            # wake one of them (the model issues one notify per successful put / take)
            many = ["M put %s %d %d" % (api, cap, w) for api in ("take", "taketo", "trytake") for cap, w in ((4, 3), (1, 2))] + \
                   ["M take %s %d %d" % (api, cap, w) for api in ("put", "putrv", "tryput", "tryputrv", "putto", "puttorv") for cap, w in ((4, 3),)]
            lines += stress + wake + many
            li, lm, _ = vlib.run_pair(ctx, impl_exe, model_exe, lines, "c10h", timeout=1800)
            nontrivial = 0
            disagree = 0
            for line, ri, rm in zip(lines, li, lm):
                if ri.startswith("CRASH") or ri.startswith("EXC"):
                    v.property_failure("impl-crashes", "queue crashed (%s)" % ri[:200], line, ri[:400])
                    continue
                if line.startswith("D "):
                    want = dyn_oracle(line, ri)
                    if ri != want:
                        v.property_failure("dynamic-ring-differs-from-reference", "DynamicRingBuffer (with resize) differs from the FIFO "
                                           "reference: an item is lost / duplicated / reordered", line, "impl: %s\nref:  %s" % (ri[:800], want[:800]))
                    else:
                        nontrivial += 1
                    continue
                if line.startswith("X "):
                    if ri != "X lost=0 dup=0 order=1 bounded=1":
                        v.property_failure("concurrent-stress", "concurrent producers/consumers: %s" % ri, line, ri)
                    else:
                        nontrivial += 1
                    continue
                if line.startswith("M "):
                    w = line.split()[4]
                    if ri != "M early=0 finished=%s/%s" % (w, w):
                        v.property_failure("caller-left-blocked", "callers blocked in %s stay blocked although the %s calls that followed made room / data "
                                           "for all of them (a put / take entry point does not wake a waiter): %s" % (
                                               "queue()/tryQueue(timeout)" if line.split()[1] == "put" else "dequeue()", line.split()[2], ri), line, ri)
                    else:
                        nontrivial += 1
                    continue
                if line.startswith("W "):
                    if ri != "W woken":
                        v.property_failure("lost-wakeup-on-close", "a caller blocked in %s() stays blocked after close(): the notification fell "
                                           "between its predicate and its sleep" % ("queue" if "put" in line else "dequeue"), line, ri)
                    else:
                        nontrivial += 1
                    continue
                if "DIFFER" in ri:
                    v.property_failure("static-dynamic-differ", "RingBuffer and DynamicRingBuffer disagree on one sequence", line, ri[:600])
                    continue
                if ri != rm:
                    disagree += 1
                    v.disagreement("C10 correspondence: queue model and implementation differ on an operation sequence", line, ri[:1500], rm[:1500])
                else:
                    nontrivial += 1
            tsan_reports = None
            if tsan_exe:
                tl = ["X ring %d 8" % (200000 if not thorough else 3000000), "X ring %d 1" % (50000 if not thorough else 500000),
                      "X bq 3 2 %d 4" % (2000 if not thorough else 30000)]
                tl += ["X %s %d %d" % (k, (30000 if not thorough else 500000), c) for k in ("sring", "dring") for c in (8, 2)]
                import os
                cf = os.path.join(ctx["workdir"], "c10tsan.cases")
                open(cf, "w").write("\n".join(tl) + "\n")
                rc, out = vlib.sh([tsan_exe, cf, cf + ".out"], timeout=1500, env={"TSAN_OPTIONS": "halt_on_error=0:report_signal_unsafe=0"})
                tsan_reports = out.count("WARNING: ThreadSanitizer")
                if tsan_reports:
                    v.property_failure("data-race-reported", "ThreadSanitizer reports %d data race(s) in the queues used within their "
                                       "contract" % tsan_reports, "\n".join(tl), out[:3000])
            cov = {
                "evaluations": len(lines),
                "distinct_nontrivial": nontrivial,
                "rule": "single-threaded sequences: ring buffers (capacity 1/2/4/8; push, batch push 0..cap+3 items, pop, batch pop, size; "
                        "static and dynamic variant must agree) and BlockingQueue (capacity 1/2/3/5; non-blocking and 0 ms timed put/take, "
                        "close, size) against the extracted models; DynamicRingBuffer with resize to 0..16 against a Python FIFO; "
                        "concurrent stress with sequence-numbered items (3x2, 1x1, 4x4 threads on BlockingQueue; SPSC ring with "
                        "capacity 8/1/2, single and batch operations; the same with 128-byte items and ring-sized batch pops on the fixed-capacity RingBuffer and on DynamicRingBuffer, capacity 1/2/8/64) in ASan+UBSan and ThreadSanitizer builds; close() injected between "
                        "a blocked caller's predicate evaluation and its sleep, for put and take.",
                "samples": lines[:2] + lines[n:n + 1],
                "tsan_reports": tsan_reports,
                "disagreements_model_vs_impl": disagree,
            }
    rc = v.finish()
    ctx["assumptions"] = ["ring buffers: one producer thread and one consumer thread (their stated contract)"]
    vlib.write_evidence(ctx, proof, cov, time.time() - t0, len(v.violations))
    return rc
