"""C12 — the key-value store is a map with absolute expiry, across restarts.

prove:      coq/C12/Properties.v (reference map: coq/C12/Spec.v)
correspond: harness/c11_impl.cpp (real KVStore on a scratch directory, CLOCK_REALTIME frozen and
            moved by the harness, eviction callbacks fired by hand) vs. the extracted whole-store
            model (C11/Model.v sys_step) vs. an independent reference map in this file.
"""
import os
import time

import vlib

PID = "C12"
HARNESS_OPTS = {"name": "c11_impl", "libs": "-lpthread -ldl"}
HARNESSES = [HARNESS_OPTS]
META = {
    "category": "proof",
    "technique": "Coq refinement proof (store model -> reference map, induction over histories) + differential correspondence",
    "text": "Coq theorem over an executable model of the whole KVStore (value map + expiry, bounded read cache with an "
            "arbitrary victim, generation-guarded eviction callback, log records, snapshot bytes, compaction, load): for "
            "EVERY history of set / set-with-TTL / remove / expireAt / persist / clear / compaction / eviction callbacks with "
            "any generation at any time / get through the cache / clean close+reopen, with wall-clock advances of any size "
            "between any two steps, the constructor never throws and every get returns exactly what a plain reference map "
            "with absolute expiries returns; in every reachable state all read paths (get, exists, ttl, keys, size) agree with "
            "the reference map at every later instant and every cache entry equals the map entry. Corollaries on the "
            "reference: an expired key is invisible to every read, restart/compaction/eviction are identities, a plain set "
            "clears an expiry; snapshot byte round trip. Tied to the code by running the same generated histories (clock "
            "moved to each side of each expiry, caches of 0..3 entries, restarts, compactions, scripted evictions) on the real "
            "store, the extracted model and a Python reference map.",
    "design_ref": "DESIGN.md §7 C12",
    "note": "partial: the schedules part of the quantifier (readers/writers racing the eviction worker thread) is not "
            "exhibited — the model is sequential; eviction is modelled as a callback that may fire at any point BETWEEN "
            "operations with any timer generation, which covers every order of worker vs. caller under the store mutex but "
            "not data races. Trusted: Coq kernel; extraction + OCaml driver; harness/c11_impl.cpp (clock interposition, "
            "private access); Python reference map. Modelled not verified: std::unordered_map, TimingWheel (timers are "
            "abstracted to generations), file streams. Hypotheses of the main theorem: API domain (validateKeyValue, ttl>0, "
            "expiry representable as system_clock::time_point), clock >= 0, at most 10^7 operations (finding F22).",
}

# ---- additions of the translator / tie session (appended to the manifest texts)
META["text"] += " GenTie.v: kv_ok is the write-path bound of the current headers (coq/Gen/Constants.v, regenerated every run)."

MAXV = 100 * 1024 * 1024


def hx(b):
    return bytes(b).hex() if b else "-"


KEYS = [b"a", b"b", b"ab", b"abc", b"b\x00", b"\xff", b"user:1", b"user:2", b"user:10"]
PREFIXES = [b"a", b"ab", b"user:", b"user:1", b"", b"zz", b"\xff"]


class RefMap:
    """plain map with per-key absolute expiry (coq/C12/Spec.v, re-implemented independently)"""

    def __init__(self):
        self.m = {}

    def vis(self, now):
        return {k: ve for k, ve in self.m.items() if ve[1] is None or now < ve[1]}

    def seen(self, now, k):
        ve = self.m.get(k)
        if ve is None or (ve[1] is not None and not now < ve[1]):
            return None
        return ve


def valid(k, v):
    return 0 < len(k) <= 65535 and len(v) <= MAXV


class RefEval:
    """evaluates case operations on the reference map; .out collects the expected outputs"""

    def __init__(self):
        self.ref = RefMap()
        self.now = 1000
        self.out = []

    def apply(self, op):
        ref, now = self.ref, self.now
        p = op.split(":")
        kind = p[0]

        def b(x):
            return bytes.fromhex(x) if x != "-" else b""

        if kind.startswith("t="):
            self.now = int(kind[2:])
        elif kind == "S":
            k, v = b(p[1]), b(p[2])
            if valid(k, v):
                ref.m[k] = (v, None)
            else:
                self.out.append("EXC")
        elif kind == "E":
            k, v, ttl = b(p[1]), b(p[2]), int(p[3])
            if ttl > 0 and valid(k, v):
                ref.m[k] = (v, now + ttl * 1000)
            else:
                self.out.append("EXC")
        elif kind == "R":
            ref.m.pop(b(p[1]), None)
        elif kind == "X":
            k, ms = b(p[1]), int(p[2])
            ve = ref.seen(now, k) if k else None
            if ve:
                ref.m[k] = (ve[0], 1 if ms <= 0 else ms)
        elif kind == "P":
            k = b(p[1])
            ve = ref.seen(now, k) if k else None
            if ve and ve[1] is not None:
                ref.m[k] = (ve[0], None)
        elif kind == "C":
            ref.m = {}
        elif kind in ("K", "O", "V"):
            pass
        elif kind == "RP":
            pre = b(p[1])
            for kk in [x for x in ref.vis(now) if x.startswith(pre)]:
                del ref.m[kk]
        elif kind in ("B", "BE"):
            items = [] if p[1] == "-" else [tuple(b(y) for y in x.split("=")) for x in p[1].split(",")]
            ttl = int(p[2]) if kind == "BE" else None
            if ttl is not None and ttl <= 0:
                self.out.append("EXC")
            elif items and not all(valid(a, c) for a, c in items):
                self.out.append("EXC")
            else:
                for a, c in items:
                    ref.m[a] = (c, None if ttl is None else now + ttl * 1000)
        elif kind == "g":
            k = b(p[1])
            ve = ref.seen(now, k) if k else None
            self.out.append("g:" + (hx(ve[0]) if ve else "!"))
        elif kind == "e":
            k = b(p[1])
            self.out.append("e:%d" % (1 if (k and ref.seen(now, k)) else 0))
        elif kind == "l":
            k = b(p[1])
            ve = ref.seen(now, k) if k else None
            self.out.append("l:" + (str((ve[1] - now) // 1000) if ve and ve[1] is not None else "!"))
        elif kind == "k":
            self.out.append("k:" + ",".join(sorted(hx(k) for k in ref.vis(now))))
        elif kind == "z":
            self.out.append("z:%d" % len(ref.vis(now)))
        elif kind == "p":
            pre = b(p[1])
            self.out.append("p:" + ",".join(sorted(hx(k) for k in ref.vis(now) if k.startswith(pre))))
        elif kind == "gb":
            ks = [b(x) for x in p[1].split(",")]
            vv = ref.vis(now)
            self.out.append("gb:" + ",".join(sorted(set("%s=%s" % (hx(k), hx(vv[k][0])) for k in ks if k in vv))))
        elif kind == "d":
            items = sorted("%s=%s@%s" % (hx(k), hx(v), "-" if e is None else e) for k, (v, e) in ref.vis(now).items())
            self.out.append("d:" + (",".join(items) or "-"))
        else:
            raise ValueError(op)


def ref_outputs(ops):
    ev = RefEval()
    for o in ops:
        ev.apply(o)
    return ev.out


def gen_history(rng, nops, big=False):
    """returns (cap, [op strings]); the reference evaluator is consulted to aim the clock and expireAt"""
    cap = rng.choice([0, 1, 1, 2, 3, 1000])
    ev = RefEval()
    ref = ev.ref
    ops = []
    counter = [0]

    def val():
        counter[0] += 1
        r = rng.random()
        if r < 0.15:
            return b""
        if r < 0.8:
            return bytes([counter[0] % 256]) * rng.choice([1, 2, 5])
        if big and r < 0.83:
            return bytes([counter[0] % 256]) * rng.choice([65535, 65536, 70001])
        return bytes(rng.randrange(256) for _ in range(rng.randint(1, 12)))

    def key():
        r = rng.random()
        if r < 0.9:
            return rng.choice(KEYS)
        if r < 0.93:
            return b""
        if big and r < 0.95:
            return b"K" * rng.choice([65535, 65536])
        return bytes(rng.randrange(256) for _ in range(rng.randint(1, 4)))

    def reads(k):
        out = []
        for kind in rng.sample(["g", "e", "l", "g"], rng.randint(1, 3)):
            out.append("%s:%s" % (kind, hx(k)))
        r = rng.random()
        if r < 0.2:
            out.append("k")
        elif r < 0.35:
            out.append("z")
        elif r < 0.5:
            out.append("p:%s" % hx(rng.choice(PREFIXES)))
        elif r < 0.6:
            out.append("gb:%s" % ",".join(hx(x) for x in rng.sample(KEYS, rng.randint(1, 4))))
        elif r < 0.7:
            out.append("d")
        return out

    def emit(op):
        ops.append(op)
        ev.apply(op)

    for _ in range(nops):
        now = ev.now
        # move the clock: to every side of a known expiry, a small step, or a big jump
        r = rng.random()
        exps = sorted(set(e for _, e in ref.m.values() if e is not None and e + 1 >= now))
        if r < 0.35 and exps:
            e = rng.choice(exps)
            t = rng.choice([e - 1, e, e + 1])
            if t >= now:
                emit("t=%d" % t)
        elif r < 0.5:
            emit("t=%d" % (now + rng.choice([1, 10, 999, 1000, 1001, 5000])))
        elif r < 0.53:
            emit("t=%d" % (now + rng.choice([10 ** 6, 10 ** 9, 4 * 10 ** 11])))
        now = ev.now
        r = rng.random()
        k = key()
        if r < 0.2:
            emit("S:%s:%s" % (hx(k), hx(val())))
        elif r < 0.4:
            ttl = rng.choice([1, 1, 2, 5, 60, 3600, 0, -1]) if rng.random() < 0.95 else rng.choice([86400 * 365, 10 ** 8])
            emit("E:%s:%s:%d" % (hx(k), hx(val()), ttl))
        elif r < 0.47:
            emit("R:%s" % hx(k))
        elif r < 0.57:
            known = [e for _, e in ref.m.values() if e is not None]
            ms = rng.choice([now - 1, now, now + 1, now + 1500, now + 10 ** 7, 0, -5, 1] + known[:3])
            emit("X:%s:%d" % (hx(k), ms))
        elif r < 0.63:
            emit("P:%s" % hx(k))
        elif r < 0.66:
            emit("C")
        elif r < 0.72:
            emit("K")
        elif r < 0.76:
            emit("RP:%s" % hx(rng.choice(PREFIXES)))
        elif r < 0.83:
            ks = rng.sample(KEYS, rng.randint(1, 3))
            items = ",".join("%s=%s" % (hx(kk), hx(val())) for kk in ks)
            if rng.random() < 0.5:
                emit("B:%s" % items)
            else:
                emit("BE:%s:%d" % (items, rng.choice([1, 2, 60, 0])))
        elif r < 0.91:
            # the eviction callback of some TTL key fires now (early, on time or late)
            cands = [kk for kk, (_, e) in ref.m.items() if e is not None]
            kk = rng.choice(cands) if cands and rng.random() < 0.9 else k
            if kk:
                emit("V:%s" % hx(kk))
                k = kk
        else:
            emit("O")
        for rd in reads(k):
            emit(rd)
    emit("t=%d" % (ev.now + rng.choice([0, 1, 100000])))
    for rd in ["k", "z", "d", "O", "d", "K", "O", "d"]:
        emit(rd)
    return cap, ops


def impl_outputs(line):
    reads = line.split(" | files=")[0]
    return [t for t in reads.split(" ") if t]


def shrink(ctx, impl_exe, model_exe, cap, ops, pred):
    """greedy removal of operations while pred(line) still fails; returns the smaller op list"""
    cur = list(ops)
    step = max(1, len(cur) // 2)
    budget = 60
    while step >= 1 and budget > 0:
        i = 0
        changed = False
        while i < len(cur) and budget > 0:
            cand = cur[:i] + cur[i + step:]
            budget -= 1
            if cand and pred("H %d %s" % (cap, ";".join(cand))):
                cur = cand
                changed = True
            else:
                i += step
        if not changed:
            step //= 2
    return cur


def run(ctx):
    t0 = time.time()
    v = vlib.Verdict(ctx)
    proof = vlib.prove(ctx, "C12", extra_targets=["C11/Extract.vo"])
    if proof["broken"]:
        v.proof_broken(proof["broken"], proof["log_tail"])
    cov = {"evaluations": 0, "distinct_nontrivial": 0, "rule": "", "samples": []}
    model_exe = None
    try:
        model_exe = vlib.build_driver("c11")
    except Exception as e:
        v.harness_broken("model driver failed to build", str(e)[-2000:])
    impl_exe, blog = vlib.build_harness(**HARNESS_OPTS)
    if impl_exe is None:
        v.harness_broken("harness/c11_impl.cpp no longer compiles against /repo/include", blog)
    if model_exe and impl_exe:
        os.environ["VERIF_TMP"] = ctx["workdir"]
        rng = vlib.rng_for(ctx)
        thorough = ctx["tier"] == "thorough"
        if ctx.get("replay"):
            lines = [l.strip() for l in open(ctx["replay"]) if l.strip() and not l.startswith("#")]
            li, lm, _ = vlib.run_pair(ctx, impl_exe, model_exe, lines, "c12r")
            for a, b, c in zip(lines, li, lm):
                refo = " ".join(ref_outputs(a.split(" ")[2].split(";"))) if a.startswith("H ") else ""
                print("case:  %s\nimpl:  %s\nmodel: %s\nref:   %s" % (a[:2000], b[:3000], c[:3000], refo[:3000]))
            cov["evaluations"] = len(lines)
        else:
            n = 250 if not thorough else 5000
            cases = []
            # corpus first: minimised failures of earlier runs (found defects, now fixed)
            corpus = [
                (1000, "E:61:01:1;t=2000;X:61:9000;g:61;t=3000;g:61;d"),            # expireAt resurrected (fixed 52b8c43)
                (1000, "E:61:01:1;t=2000;P:61;g:61;l:61;d"),                       # persist resurrected
                (1000, "E:61:01:2;t=1999;P:61;t=5000;g:61;O;g:61;d"),              # persist lost at restart (fixed 8de243d)
                (1000, "E:61:01:2;t=1999;X:61:90000;t=5000;g:61;O;g:61;l:61;d"),   # expireAt lost at restart
                (1000, "S:61:01;X:61:-5;g:61;O;g:61;d"),                           # expireAt <= epoch (fixed 5b9d6a2)
                (0, "S:61:01;g:61;S:62:02;g:62;d"),                                # cache capacity 0 (fixed 1150dc0)
                (1, "S:61:01;S:62:02;g:61;g:62;E:61:03:1;g:61;t=2000;g:61;g:62"),
            ]
            corpus = [(c, o.split(";"), ref_outputs(o.split(";"))) for c, o in corpus]
            for i in range(n):
                big = (i % 50 == 49)
                cap, ops = gen_history(rng, rng.randint(3, 14) if not big else 6, big=big)
                cases.append((cap, ops, ref_outputs(ops)))
            lines = ["H %d %s" % (c, ";".join(o)) for c, o, _ in corpus] + ["H %d %s" % (c, ";".join(o)) for c, o, _ in cases]
            li, lm, _ = vlib.run_pair(ctx, impl_exe, model_exe, lines, "c12h", timeout=1500)
            allc = corpus + cases
            nontrivial = set()
            disagree = 0
            opcount = {}
            nreads = 0
            for (cap, ops, exp), line, ri, rm in zip(allc, lines, li, lm):
                for o in ops:
                    kk = o.split(":")[0] if not o.startswith("t=") else "t="
                    opcount[kk] = opcount.get(kk, 0) + 1
                if ri.startswith("CRASH") or "EXC:" in ri[:10]:
                    v.property_failure("impl-crashes", "KVStore crashed on a history (%s)" % ri[:200], line, ri[:800])
                    continue
                oi, om = impl_outputs(ri), impl_outputs(rm)
                bad = False
                if exp is not None:
                    nreads += len(exp)
                    if oi != exp:
                        idx = next((i for i, (a, b) in enumerate(zip(oi, exp)) if a != b), min(len(oi), len(exp)))
                        what = ("read #%d returns %s, the reference map with absolute expiries says %s"
                                % (idx, oi[idx][:80] if idx < len(oi) else "<missing>", exp[idx][:80] if idx < len(exp) else "<none>"))
                        v.property_failure("differs-from-reference-map", "a read disagrees with the reference map (expired key "
                                           "visible / value lost / expiry not honoured / reappears after restart or compaction)",
                                           line, what + "\nimpl:      %s\nreference: %s" % (" ".join(oi)[:1500], " ".join(exp)[:1500]))
                        bad = True
                if oi != om:          # files are compared by C11; load() of the real store also logs a 'D' per dropped key
                    disagree += 1
                    if not bad:
                        v.disagreement("C12 correspondence: store model and implementation differ on a history", line, " ".join(oi)[:2000], " ".join(om)[:2000])
                elif not bad:
                    nontrivial.add(line)
            cov = {
                "evaluations": len(lines),
                "distinct_nontrivial": len(nontrivial),
                "rule": "random histories of 3..14 operations (+ reads after each) over 9 fixed binary keys plus random/empty/"
                        "boundary-length keys, values empty..12 bytes (64K-70K in every 50th case), cache capacity in "
                        "{0,1,2,3,1000}, the frozen clock moved to expiry-1 / expiry / expiry+1 of live TTL keys, by small steps "
                        "and by jumps up to 4e11 ms, expireAt at now-1/now/now+1/<=0/known expiries, eviction callbacks fired by "
                        "hand early/on time/late, compaction, prefix removal, batches, clear, restarts; each read of the real "
                        "store is compared with a Python reference map and the whole output line with the extracted model. "
                        "non-trivial = histories on which all three agree.",
                "samples": lines[7:10],
                "operations": opcount,
                "reads_checked_against_reference": nreads,
                "disagreements_model_vs_impl": disagree,
            }
    rc = v.finish()
    ctx["assumptions"] = [
        "sequential histories: the eviction worker is represented by callbacks fired between operations",
        "CLOCK_REALTIME is interposed by the harness (fake_clock.hpp); steady clock untouched, wheel ticks of 1 h so no timer fires by itself",
    ]
    vlib.write_evidence(ctx, proof, cov, time.time() - t0, len(v.violations))
    return rc
