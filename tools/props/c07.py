"""C07 — TLS sessions authenticate the peer as configured and never downgrade.

prove:      coq/C07/Properties.v
correspond: harness/c07_impl.cpp: the real TcpEngine (through Transport and HttpClient) against raw OpenSSL peers over
            the matrix verify x trust anchor x server certificate x host form x protocol ceilings / floors x client
            certificate, with certificates generated at start-up through the OpenSSL API, a byte-capturing relay,
            plaintext / garbage peers, missing-context and fail-fast configuration cases; each cell's outcome is
            compared with the extracted decision model instantiated with the certificates' known properties.
"""
import itertools
import time

import vlib

PID = "C07"
HARNESS_OPTS = {"name": "c07_impl", "libs": "-lpthread -ldl -lssl -lcrypto"}
HARNESSES = [HARNESS_OPTS]
META = {
    "category": "proof",
    "technique": "Coq proof (decision functions of the engine's OpenSSL configuration and use, OpenSSL's contract as Section "
                 "variables) + exhaustive correspondence over the configuration matrix with real handshakes",
    "text": "Coq theorems over the engine's TLS decisions (which context initTls builds for a configuration, the TLS 1.2 floor, "
            "what a session or listener that asked for TLS runs over, which OpenSSL checks are armed) with OpenSSL's chain / "
            "validity / host-name / negotiation contract as Section variables, for every configuration and peer: no version below "
            "TLS 1.2; with verification on a client session exists only if the server certificate chains to a configured anchor, is "
            "within its validity and - for a connection made to a host name - is issued for that name; a server that verifies its "
            "peers admits only clients presenting a valid certificate; TLS requested never degrades to plaintext. An HttpClient session for a named https URL "
            "checks that name. The code as found is refuted on three of these. Tied to the code by running every matrix cell as a real handshake against raw OpenSSL "
            "peers (certificates generated through the OpenSSL API), with a relay checking that no application byte crosses in clear.",
    "design_ref": "DESIGN.md §7 C07",
    "note": "partial: X.509 path building, validity and name matching, and version negotiation are OpenSSL's (the Section's contract, "
            "exercised for real by every cell); the engine's configuration / decision logic is what is proved. HttpClient hands the "
            "engine a resolved ADDRESS together with the URL's host as TLS server name (since the repair of C07-F11b2; cells "
            "host=ipname exercise that path on the engine directly); HttpClient ignores TlsConfig.caFile / client certificate (fails closed). "
            "Trusted: Coq kernel; extraction + OCaml driver (instantiates the oracle from the generated certificates); "
            "harness/c07_impl.cpp; OpenSSL 3.0.",
}


def matrix(thorough):
    cases = []
    certs = ["valid", "self", "expired", "wrongname", "wrongca"]
    for verify, anchor, cert, host in itertools.product("01", ["A", "B", "none"], certs, ["name", "ip", "ipname"]):
        cases.append("CL verify=%s anchor=%s cert=%s host=%s pmin=10 pmax=13 cmin=0" % (verify, anchor, cert, host))
    # protocol ceilings / floors on both sides
    for pmax, cmin in itertools.product(["10", "11", "12", "13"], ["0", "10", "11", "12", "13"]):
        cases.append("CL verify=0 anchor=none cert=valid host=ip pmin=10 pmax=%s cmin=%s" % (pmax, cmin))
        cases.append("SV require=0 ccert=none pmin=10 pmax=%s cmin=%s" % (pmax, cmin))
    for pmin in ["12", "13"]:
        cases.append("CL verify=1 anchor=A cert=valid host=name pmin=%s pmax=13 cmin=0" % pmin)
    for require, ccert, pmax in itertools.product("01", ["none", "valid", "untrusted", "expired"], ["12", "13"]):
        cases.append("SV require=%s ccert=%s pmin=10 pmax=%s cmin=0" % (require, ccert, pmax))
    for verify, anchor, cert in itertools.product("01", ["A", "B"], certs):
        cases.append("HC verify=%s anchor=%s cert=%s" % (verify, anchor, cert))
    for require, ccert in itertools.product("01", ["none", "valid", "untrusted", "expired"]):
        cases.append("HS require=%s ccert=%s" % (require, ccert))
    cases += ["NC kind=client", "NC kind=listener", "NC kind=client-nomode", "NC kind=listener-nomode", "CF kind=noca", "CF kind=mismatch", "CF kind=expired", "CF kind=ok",
              "PP kind=plain", "PP kind=garbage"]
    return cases


def property_expect(line):
    """what the PROPERTY demands, stated independently of the model: an HttpClient that verifies its peer must refuse a
    certificate issued for another name (C07-F11b2, repaired)"""
    if line.startswith("HC ") and "verify=1" in line and "cert=wrongname" in line and "anchor=A" in line:
        return "ok=0"
    return None


def run(ctx):
    t0 = time.time()
    v = vlib.Verdict(ctx)
    proof = vlib.prove(ctx, "C07", extra_targets=["C07/Extract.vo"])
    if proof["broken"]:
        v.proof_broken(proof["broken"], proof["log_tail"])
    cov = {"evaluations": 0, "distinct_nontrivial": 0, "rule": "", "samples": []}
    model_exe = None
    try:
        model_exe = vlib.build_driver("c07")
    except Exception as e:
        v.harness_broken("model driver failed to build", str(e)[-2000:])
    impl_exe, blog = vlib.build_harness(**HARNESS_OPTS)
    if impl_exe is None:
        v.harness_broken("harness/c07_impl.cpp no longer compiles against /repo/include", blog)
    if model_exe and impl_exe:
        thorough = ctx["tier"] == "thorough"
        if ctx.get("replay"):
            lines = [l.strip() for l in open(ctx["replay"]) if l.strip() and not l.startswith("#")]
        else:
            lines = matrix(thorough)
            if thorough:
                lines = lines * 3
        li, lm, log = vlib.run_pair(ctx, impl_exe, model_exe, lines, "c07h", timeout=3000)
        nontrivial = 0
        outcomes = {}
        for line, ri, rm in zip(lines, li, lm):
            if ctx.get("replay"):
                print("case:  %s\nimpl:  %s\nmodel: %s" % (line, ri, rm))
            if ri.startswith("CRASH") or ri.startswith("EXC") or ri.endswith("FAIL"):
                v.property_failure("impl-crashes", "TLS scenario crashed / did not start (%s)" % ri[-200:], line, ri[-600:] + "\n" + log[1][-1500:])
                continue
            outcomes[line.split()[0] + ":" + ri.split()[0]] = outcomes.get(line.split()[0] + ":" + ri.split()[0], 0) + 1
            want = property_expect(line)
            if want is not None and ri != want:
                v.property_failure("httpclient-no-hostname-check", "HttpClient accepted a certificate issued for another name "
                                   "(it hands the engine a resolved address, so no host name is checked)", line, "impl: %s, property demands %s" % (ri, want))
            if "clear=1" in ri:
                v.property_failure("application-bytes-in-clear", "application bytes of a session that asked for TLS crossed the wire in clear text", line, ri)
            elif ri != rm:
                kind = line.split()[0]
                if kind == "CL" and "conn=1" in ri:
                    sig, what = "unauthenticated-server-accepted", "a TLS client session was established although the configuration's checks fail: %s (model %s)" % (ri, rm)
                    if "ver=1" in ri and ("ver=10" in ri or "ver=11" in ri):
                        sig, what = "tls-version-below-floor", "a session negotiated a protocol version below TLS 1.2: %s" % ri
                elif kind == "HS" and "served=1" in ri:
                    sig, what = "client-without-valid-certificate-admitted", "HttpServer (requireClientCert) served a client it should have rejected: %s (model %s)" % (ri, rm)
                elif kind == "SV" and "admitted=1" in ri:
                    sig, what = "client-without-valid-certificate-admitted", "the server admitted a client it should have rejected: %s (model %s)" % (ri, rm)
                elif kind == "NC":
                    sig, what = "tls-request-degraded-to-plaintext", "TLS was requested without a configured context and the request was not refused: %s" % ri
                elif kind == "HC" and "ok=1" in ri:
                    sig, what = "unauthenticated-server-accepted", "HttpClient accepted a server the configuration's checks reject: %s (model %s)" % (ri, rm)
                else:
                    sig, what = "tls-outcome-differs", "outcome differs from the decision model: impl %s, model %s" % (ri, rm)
                v.property_failure(sig, what, line, "impl:  %s\nmodel: %s" % (ri, rm))
            else:
                nontrivial += 1
        cov["evaluations"] = len(lines)
        cov["distinct_nontrivial"] = nontrivial
        cov["rule"] = ("the full matrix: client side verify {on,off} x anchor {right CA, wrong CA, none} x server certificate {valid, "
                       "self-signed, expired, wrong name, wrong CA} x host {name, address} (60 cells); protocol ceilings TLS1.0-1.3 x "
                       "configured minimum {unset,1.0,1.1,1.2,1.3} on both roles (40); peer minimum 1.2/1.3; server side require {on,off} x "
                       "client certificate {none, valid, untrusted, expired} x ceiling {1.2,1.3} (16); HttpClient verify x anchor x "
                       "certificate (20); HttpServer requireClientCert x client certificate (8); TLS requested without a context (TLS off; TLS 'enabled' but the role not selected; client and listener); fail-fast configurations (verify without CA, "
                       "key mismatch, expired server certificate); plaintext and garbage peers. Every cell is a real handshake; an "
                       "intercepting relay looks for the application payload in clear.")
        cov["samples"] = ["outcomes: %s" % sorted(outcomes.items())]
    rc = v.finish()
    ctx["assumptions"] = ["'localhost' resolves to 127.0.0.1 through /etc/hosts; OpenSSL 3.0 with security level lowered on the RAW PEERS only so that they may offer TLS 1.0/1.1"]
    vlib.write_evidence(ctx, proof, cov, time.time() - t0, len(v.violations))
    return rc
