"""C17 — the HTTP client transmits a non-idempotent request at most once.

prove:      coq/C17/Properties.v
correspond: harness/c17_impl.cpp (real HttpClient::performRequest/executeRequest over a scripted
            engine; attempt boundaries observed through the IORA_VERIF hook) vs. the extracted model;
            plus property oracles evaluated directly on the implementation's transport trace.
"""
import time

import vlib

PID = "C17"
HARNESS_OPTS = {"name": "c17_impl", "libs": "-lpthread -ldl -lssl -lcrypto"}
HARNESSES = [HARNESS_OPTS]
META = {
    "category": "proof",
    "technique": "Coq proof (induction over the retry loop and over request sequences) + differential correspondence",
    "text": "Coq theorems over an executable model of HttpClient's exchange pipeline (acquireConnection with cache and idle "
            "eviction, sync-mode switch, send, receive loop with the framer's verdicts, reuse decision, dropConnection) and "
            "retry loop: for EVERY list of per-attempt fault scripts and every retry budget, a non-idempotent request is "
            "handed to the transport in at most one attempt and every earlier attempt ended in the pre-send region; the "
            "number of attempts is at most max(budget,0)+1; an attempt that ends in a framing error is the last; over any "
            "sequence of requests a connection is never sent on after it was closed, and every attempt that fails or gets "
            "a non-reusable response closes its connection; a silent peer ends the attempt at the first receive timeout. "
            "Tied to the code by running generated request sequences with faults at every stage and response cuts at random "
            "byte offsets on the real client (scripted engine) and on the extracted model.",
    "design_ref": "DESIGN.md §7 C17",
    "note": "partial: concurrent callers sharing one client (the lease) are not exhibited by the model (one exchange at a "
            "time); the wall-clock bound is a test in the harness (tested, not proved). The framer's verdict per received "
            "chunk is an input of the model (frameResponse is the subject of C15); the generator computes it from the "
            "response template and the cut offsets, and a wrong verdict shows up as a disagreement. Trusted: Coq kernel; "
            "extraction + OCaml driver; harness/c17_impl.cpp with recording_engine.hpp (scripted engine, nanosleep "
            "interposed to skip back-off sleeps), hook IORA_VERIF_EVENT(\"http.client.attempt\") in executeRequest.",
}

# ---- additions of the translator / tie session (appended to the manifest texts)
META["text"] += " Every third case is delivered paced (the client sees exactly the scripted segmentation); oracle on the implementation's trace: a connection whose response was followed by surplus bytes or said Connection: close never carries another request."

IDEM = {"GET", "HEAD", "PUT", "DELETE", "OPTIONS", "TRACE"}


def hx(b):
    return bytes(b).hex() if b else "-"


def templates(rng, method):
    """returns (bytes, kind, header_len); kind: 'cl' keepalive, 'close', 'cd', 'bad', 'chunked', 'interim'"""
    body = bytes(rng.choice(b"abcdefgh") for _ in range(rng.choice([0, 1, 2, 5, 40])))
    r = rng.random()
    if method == "HEAD":
        h = b"HTTP/1.1 200 OK\r\nContent-Length: %d\r\n\r\n" % rng.choice([0, 5, 100])
        return h, "cl", len(h)
    if r < 0.35:
        h = b"HTTP/1.1 200 OK\r\nContent-Length: %d\r\n\r\n" % len(body)
        return h + body, "cl", len(h)
    if r < 0.5:
        h = b"HTTP/1.1 200 OK\r\nConnection: close\r\nContent-Length: %d\r\n\r\n" % len(body)
        return h + body, "close", len(h)
    if r < 0.62:
        h = b"HTTP/1.1 200 OK\r\nX-A: b\r\n\r\n"
        return h + body, "cd", len(h)
    if r < 0.74:
        h = b"HTTP/1.1 200 OK\r\nContent-Length: " + rng.choice([b"x", b"-1", b"1, 2", b"12a"]) + b"\r\n\r\n"
        return h + body, "bad", len(h)
    if r < 0.88:
        h = b"HTTP/1.1 200 OK\r\nTransfer-Encoding: chunked\r\n\r\n"
        chunks = b""
        if body:
            half = len(body) // 2
            for part in [body[:half], body[half:]]:
                if part:
                    chunks += b"%x\r\n" % len(part) + part + b"\r\n"
        chunks += b"0\r\n\r\n"
        return h + chunks, "cl", len(h)
    i = b"HTTP/1.1 100 Continue\r\n\r\n"
    h = b"HTTP/1.1 200 OK\r\nContent-Length: %d\r\n\r\n" % len(body)
    return i + h + body, "cl", len(i) + len(h)


def gen_rx(rng, method):
    """one receive script: list of rx tokens with verdict annotations"""
    resp, kind, hlen = templates(rng, method)
    total = len(resp)
    fault = rng.random()
    ncuts = rng.choice([0, 0, 1, 2, 3])
    cuts = sorted(set(rng.randrange(1, total) for _ in range(ncuts))) if total > 1 else []
    if fault < 0.55:
        end = total            # whole response
        tail = rng.choice(["", "", "", "c", "surplus"])
    elif fault < 0.8:
        end = rng.randrange(0, total)   # truncated at a random byte offset
        tail = rng.choice(["c", "c", "t"])
    elif fault < 0.9:
        end = rng.randrange(0, total)
        tail = "O"
    else:
        end = 0
        tail = rng.choice(["t", "c"])
    pieces = []
    prev = 0
    for c in [x for x in cuts if x < end] + [end]:
        if c > prev:
            pieces.append(resp[prev:c])
            prev = c
    if tail == "surplus" and pieces:
        pieces[-1] = pieces[-1] + b"EXTRA"
    toks = []
    got = 0
    done = False
    for pc in pieces:
        got += len(pc)
        if kind == "bad":
            v = "f" if got >= hlen else "m"
        elif kind == "cd":
            v = "m"
        else:
            if got >= total:
                v = "r" if (kind == "cl" and got == total) else "e"
            else:
                v = "m"
        toks.append("d%s/%s" % (hx(pc), v))
        if v in "ref":
            done = True
            break
    if not done:
        if tail == "c" or (tail in ("", "surplus") and kind == "cd"):
            toks.append("c/%d" % (1 if (kind == "cd" and got >= hlen) else 0))
        elif tail == "O":
            toks.append("O")
        else:
            toks.append("t")
    elif tail == "c":
        toks.append("c/0")     # the peer closes the idle connection afterwards (ignored by this exchange)
    return toks


def sim_attempt(cache, flags, rx):
    """generator-side mirror of one attempt: returns (outcome, cache_after)"""
    idle, connect, setmode, send, asyn = [c == "1" for c in flags]
    if cache and idle:
        cache = False
    if not cache:
        if not connect:
            return "NS", False
        cache = True
    if not setmode:
        return "NS", False
    if not send:
        return "OT", False
    for t in rx:
        item, _, ann = t.partition("/")
        if item[0] == "d":
            if ann == "m":
                continue
            if ann == "r":
                return "OK", asyn
            if ann == "e":
                return "OK", False
            return "FR", False
        if item[0] == "c":
            return ("OK" if ann == "1" else "OT"), False
        if item[0] == "O":
            return "FR", False
        return "OT", False
    return "OT", False


def gen_case(rng):
    reqs = []
    cache = False
    stale = False       # the cached connection was closed by the peer after the last response
    for _ in range(rng.randint(1, 4)):
        method = rng.choice(["GET", "GET", "POST", "POST", "POST", "PUT", "DELETE", "HEAD", "PATCH", "get", "OPTIONS"])
        retries = rng.choice([-1, 0, 0, 1, 2, 3])
        attempts = []
        live = True      # performRequest is still running (the mirror decides which scripts will be consumed)
        att = 0
        for _ in range(max(retries, 0) + 2):
            flags = "%d%d%d%d%d" % (rng.random() < 0.12, rng.random() > 0.25, rng.random() > 0.12,
                                    rng.random() > 0.12, rng.random() > 0.08)
            rx = gen_rx(rng, method)
            if live and cache and stale and flags[0] == "0":
                rx = ["c/0"]          # a stale cached connection: the tombstone answers PeerClosed at once
            attempts.append(flags + ":" + ",".join(rx))
            if live:
                out, cache2 = sim_attempt(cache, flags, rx)
                stale = cache2 and any(t.startswith("c") for t in rx)
                cache = cache2
                if out in ("OK", "FR"):
                    live = False
                elif not (method in IDEM or out == "NS") or att >= retries:
                    live = False
                att += 1
        reqs.append("%s:%d:%s" % (method, retries, "|".join(attempts)))
    return "Q " + ";".join(reqs)


def oracle(line, out):
    """the property, evaluated on the implementation's own trace"""
    reqs = line.split(" ")[1].split(";")
    outs = out.split(" ; ")
    if len(reqs) != len(outs):
        return None
    closed = set()
    tainted = {}      # connection ordinal -> why it must not carry another request
    for rq, o in zip(reqs, outs):
        method, retries = rq.split(":")[0], int(rq.split(":")[1])
        scripts = rq.split(":", 2)[2].split("|")
        toks = o.split(" ")
        outcome = toks[-1]
        attempts, cur = [], None
        for t in toks[:-1]:
            if t == "|":
                cur = []
                attempts.append(cur)
            elif cur is not None and t:
                cur.append(t)
        if "SLOW" in outcome:
            return ("attempt-exceeds-timeouts", "request took longer than its attempts' timeouts allow: %s" % outcome)
        if len(attempts) > max(retries, 0) + 1:
            return ("too-many-attempts", "%s with retry budget %d was attempted %d times" % (method, retries, len(attempts)))
        sent_in = [i for i, a in enumerate(attempts) if any(t[0] == "S" for t in a)]
        if method not in IDEM:
            if len(sent_in) > 1:
                return ("non-idempotent-sent-twice", "%s was handed to the transport in attempts %s" % (method, sent_in))
            if sent_in and sent_in[0] != len(attempts) - 1:
                return ("non-idempotent-retried-after-send", "%s was retried after attempt %d had reached the send" % (method, sent_in[0]))
        for i, a in enumerate(attempts):
            for t in a:
                if t[0] == "S" and t[1:-1] in closed:
                    return ("send-on-closed-connection", "request sent on connection %s after it was closed" % t[1:-1])
                if t[0] == "S" and t[-1] == "+" and t[1:-1] in tainted:
                    return ("tainted-connection-reused", "a request was sent on connection %s although %s"
                            % (t[1:-1], tainted[t[1:-1]]))
                if t[0] == "X":
                    closed.add(t[1:])
            # the peer's script for this attempt: a response followed by surplus bytes or announcing
            # "Connection: close" (verdict e) taints the connection it was received on
            if i < len(scripts) and any(t[0] == "S" and t[-1] == "+" for t in a):
                rx = scripts[i].split(":", 1)[1].split(",") if ":" in scripts[i] else []
                conn = [t[1:-1] for t in a if t[0] == "S" and t[-1] == "+"][-1]
                for tok in rx:
                    if tok.endswith("/e"):
                        tainted[conn] = "the response received on it in an earlier exchange was followed by surplus bytes or said Connection: close"
                        break
                    if tok.endswith("/r") or tok.endswith("/f"):
                        break
            last = i == len(attempts) - 1
            ok = last and outcome.startswith("=OK")
            used = [t[1:-1] for t in a if t[0] in "CS" and t[-1] == "+"]
            if not ok and used and ("X" + used[-1]) not in a:
                return ("failed-connection-kept", "attempt %d failed but its connection %s was not closed" % (i, used[-1]))
        if outcome.startswith("=FR") and False:
            pass
    return None


def run(ctx):
    t0 = time.time()
    v = vlib.Verdict(ctx)
    proof = vlib.prove(ctx, "C17", extra_targets=["C17/Extract.vo"])
    if proof["broken"]:
        v.proof_broken(proof["broken"], proof["log_tail"])
    cov = {"evaluations": 0, "distinct_nontrivial": 0, "rule": "", "samples": []}
    model_exe = None
    try:
        model_exe = vlib.build_driver("c17")
    except Exception as e:
        v.harness_broken("model driver failed to build", str(e)[-2000:])
    impl_exe, blog = vlib.build_harness(**HARNESS_OPTS)
    if impl_exe is None:
        v.harness_broken("harness/c17_impl.cpp no longer compiles against /repo/include", blog)
    if model_exe and impl_exe:
        rng = vlib.rng_for(ctx)
        thorough = ctx["tier"] == "thorough"
        if ctx.get("replay"):
            lines = [l.strip() for l in open(ctx["replay"]) if l.strip() and not l.startswith("#")]
            li, lm, _ = vlib.run_pair(ctx, impl_exe, model_exe, lines, "c17r")
            for a, b, c in zip(lines, li, lm):
                print("case:  %s\nimpl:  %s\nmodel: %s\noracle: %s" % (a[:3000], b[:3000], c[:3000], oracle(a, b)))
            cov["evaluations"] = len(lines)
        else:
            n = 600 if not thorough else 12000
            ok = b"HTTP/1.1 200 OK\r\nContent-Length: 2\r\n\r\nok".hex()
            corpus = [
                "Q POST:3:00111:|00111:|01111:c/0|01111:d%s/r" % ok,
                "Q GET:2:01111:t|01101:|01111:d%s/r" % ok,
                "Q POST:2:01011:|01111:d%s/r;GET:0:11111:d%s/r;POST:0:01110:d%s/r;GET:0:01111:d%s/r" % (ok, ok, ok, ok),
                "Q POST:2:01111:d%s/r,c/0;POST:2:01111:c/0|01111:d%s/r" % (ok, ok),   # stale cached connection: not retried
            ]
            def judge(line, ri, rm):
                if ri.startswith("CRASH") or ri.startswith("EXC"):
                    return "impl-crashes"
                bad = oracle(line, ri)
                if bad:
                    return bad[0]
                strip_ = lambda s_: " ; ".join(x.split("(SLOW")[0] for x in s_.split(" ; "))
                return "correspondence" if strip_(ri) != rm else None
            v.shrinker = lambda line: vlib.shrink_line(
                ctx, impl_exe, model_exe, line, lambda l: (l.split(" ")[0], l.split(" ", 1)[1].split(";")),
                lambda h, ops: h + " " + ";".join(ops), judge, tag="c17s")
            lines = corpus + [gen_case(rng) for _ in range(n)]
            # every third case with paced delivery: the client sees exactly the scripted segmentation
            lines = [("QP" + l[1:]) if (i % 3 == 2 and l.startswith("Q ")) else l for i, l in enumerate(lines)]
            li, lm, _ = vlib.run_pair(ctx, impl_exe, model_exe, lines, "c17h", timeout=1500)
            nontrivial = set()
            disagree = 0
            outcomes = {}
            nattempts = 0
            for line, ri, rm in zip(lines, li, lm):
                if ri.startswith("CRASH") or ri.startswith("EXC"):
                    v.property_failure("impl-crashes", "HttpClient crashed on a scripted exchange (%s)" % ri[:200], line, ri[:600])
                    continue
                for o in ri.split(" ; "):
                    oc = o.split(" ")[-1][:3]
                    outcomes[oc] = outcomes.get(oc, 0) + 1
                    nattempts += o.count("|")
                bad = oracle(line, ri)
                if bad:
                    v.property_failure(bad[0], bad[1], line, "impl:  %s\nmodel: %s" % (ri[:1500], rm[:1500]))
                strip = lambda s: " ; ".join(x.split("(SLOW")[0] for x in s.split(" ; "))
                if strip(ri) != rm:
                    disagree += 1
                    if not bad:
                        v.disagreement("C17 correspondence: HTTP client model and implementation differ on a scripted exchange", line, ri[:2000], rm[:2000])
                elif not bad:
                    nontrivial.add(line)
            cov = {
                "evaluations": len(lines),
                "distinct_nontrivial": len(nontrivial),
                "rule": "random sequences of 1..4 requests on one HttpClient (methods GET/POST/PUT/DELETE/HEAD/PATCH/OPTIONS/'get', "
                        "retry budgets -1..3); per attempt: cached connection idle or not, connect ok/refused, sync-mode switch "
                        "ok/fails, send accepted/refused, async-mode switch ok/fails, and a response script built from a template "
                        "(Content-Length, Connection: close, close-delimited, chunked, 100-continue + final, malformed "
                        "Content-Length) delivered whole, in chunks cut at random byte offsets, truncated at a random offset then "
                        "closed / silent / overflowing the sync buffer, with surplus bytes, or not at all. Compared: the transport "
                        "trace (connect, send, close per connection ordinal, attempt boundaries) and the outcome class of every "
                        "request, impl vs model; the property oracles run on the impl trace alone.",
                "samples": lines[4:7],
                "outcomes": outcomes,
                "attempts_observed": nattempts,
                "disagreements_model_vs_impl": disagree,
            }
    rc = v.finish()
    ctx["assumptions"] = ["one exchange at a time (no concurrent callers)",
                          "back-off sleeps are skipped by the harness; the time bound per request is a test with 1.5 s slack"]
    vlib.write_evidence(ctx, proof, cov, time.time() - t0, len(v.violations))
    return rc
