"""C13 — JSON texts and values round-trip and agree with RFC 8259.

prove:      coq/C13/Properties.v
correspond: harness/c13_impl.cpp (real iora::parsers::Json parse / serialize) vs. the extracted
            model, plus a grammar-based generator that knows the value each text encodes and
            Python's json module as a second reference decoder.
"""
import json
import math
import os
import struct
import time

import vlib

PID = "C13"
HARNESS_OPTS = {"name": "c13_impl", "libs": "-lpthread"}
HARNESSES = [HARNESS_OPTS]
META = {
    "category": "proof",
    "technique": "Coq proof (mutual induction on fuel for totality/placement, induction on strings and values) + differential correspondence",
    "text": "Coq theorems over an executable model of iora::parsers::JsonParser (recursive descent with limits and error "
            "position) and Json::_serialize/_escapeString: parsing is total with the error offset inside the input for "
            "arbitrary bytes; every byte string survives escape + parse; \\uXXXX and surrogate pairs decode to the UTF-8 of "
            "the code point for every scalar value; values round-trip through print/parse (see Properties.v for the exact "
            "statements). Number <-> double conversion (strtod, %.17g) is outside Coq and is tested, labelled as such. Model "
            "and code run on the same grammar-generated texts, programmatic values and mutated bytes every run.",
    "design_ref": "DESIGN.md §7 C13",
    "note": "Trusted: Coq kernel; extraction + OCaml driver; harness/c13_impl.cpp; Python generator and the float()/json "
            "oracles. Modelled not verified: std::string/string_view, std::isspace/isdigit in the C locale, std::from_chars, "
            "std::strtod and snprintf(%.17g) (a double is carried as its lexeme), unordered_map as a finite map.",
}

# ---- additions of the translator / tie session (appended to the manifest texts)
META["text"] += " The harness also parses every text as a view inside a larger buffer whose following bytes would continue the last token and flush against an inaccessible page (reads outside the input that ASan cannot see inside libc). GenTie.v: default limits = ParseLimits{} of the current headers."
DEF_LIM = "10000,10000,100,1000000"
WS = [b" ", b"\t", b"\n", b"\r"]


def hx(b):
    return bytes(b).hex() if b else "-"


# ------------------------------------------------------------------ values

def gen_string(rng, maxlen=12):
    out = []
    for _ in range(rng.choice([0, 1, 2, 5, maxlen])):
        r = rng.random()
        if r < 0.5:
            out.append(rng.randrange(0x20, 0x7F))
        elif r < 0.6:
            out.append(rng.choice([0x22, 0x5C, 0x2F, 8, 9, 10, 12, 13, 0, 1, 0x1F, 0x7F]))
        elif r < 0.8:
            out.append(rng.choice([0x80, 0xE9, 0x7FF, 0x800, 0x20AC, 0xD7FF, 0xE000, 0xFFFD, 0xFFFF]))
        else:
            out.append(rng.choice([0x10000, 0x1F600, 0x10FFFF, rng.randrange(0x10000, 0x110000)]))
    return out   # list of code points


def gen_number(rng):
    """('i', int) or ('d', lexeme)"""
    r = rng.random()
    if r < 0.45:
        v = rng.choice([0, 1, -1, 7, 42, 2 ** 31, -2 ** 31, 2 ** 53 + 1, 2 ** 63 - 1, -2 ** 63, rng.randrange(-10 ** 6, 10 ** 6)])
        return ("i", v)
    if r < 0.55:
        v = rng.choice([2 ** 63, -2 ** 63 - 1, 10 ** 19, 10 ** 30, -10 ** 25, 12345678901234567890])
        return ("d", str(v))      # out of int64 range -> double
    ip = rng.choice(["0", "1", "12", "123456789", "9007199254740993"])
    lex = ("-" if rng.random() < 0.3 else "") + ip
    if rng.random() < 0.7:
        lex += "." + rng.choice(["0", "5", "25", "000001", "141592653589793", "1" * 20])
    if rng.random() < 0.5 or "." not in lex:
        lex += rng.choice(["e", "E"]) + rng.choice(["", "+", "-"]) + rng.choice(["0", "1", "7", "10", "22", "300", "308", "324", "400"])
    return ("d", lex)


def gen_value(rng, depth=0, maxdepth=4):
    r = rng.random()
    if depth >= maxdepth or r < 0.45:
        k = rng.random()
        if k < 0.1:
            return None
        if k < 0.2:
            return rng.random() < 0.5
        if k < 0.6:
            return gen_number(rng)
        return ("s", gen_string(rng))
    if r < 0.75:
        return ("a", [gen_value(rng, depth + 1, maxdepth) for _ in range(rng.choice([0, 1, 2, 3, 5]))])
    n = rng.choice([0, 1, 2, 3])
    ms = [(gen_string(rng, 4), gen_value(rng, depth + 1, maxdepth)) for _ in range(n)]
    if ms and rng.random() < 0.2:
        ms.append((ms[0][0], gen_value(rng, depth + 1, maxdepth)))    # duplicate key: last wins
    return ("o", ms)


def utf8(cps):
    return "".join(chr(c) for c in cps).encode("utf-8", "surrogatepass")


def canon(v):
    """canonical dump of the value a text encodes (doubles as L<lexeme>)"""
    if v is None:
        return "n"
    if v is True:
        return "t"
    if v is False:
        return "f"
    t = v[0]
    if t == "i":
        return "i%d" % v[1]
    if t == "d":
        return "L" + hx(v[1].encode())
    if t == "s":
        return "s" + hx(utf8(v[1]))
    if t == "a":
        return "[" + ",".join(canon(x) for x in v[1]) + "]"
    d = {}
    for k, x in v[1]:
        d["k" + hx(utf8(k))] = canon(x)
    return "{" + ",".join("%s:%s" % (k, d[k]) for k in sorted(d)) + "}"


def ws(rng, heavy):
    if not heavy or rng.random() < 0.5:
        return b""
    return b"".join(rng.choice(WS) for _ in range(rng.randint(1, 3)))


def enc_string(rng, cps):
    out = bytearray(b'"')
    for c in cps:
        r = rng.random()
        short = {0x22: b'\\"', 0x5C: b"\\\\", 0x2F: b"\\/", 8: b"\\b", 12: b"\\f", 10: b"\\n", 13: b"\\r", 9: b"\\t"}
        if c in short and (r < 0.6 or c in (0x22, 0x5C)):
            out += short[c]
        elif c < 0x20 or r < 0.25:
            if c >= 0x10000:
                c2 = c - 0x10000
                hi, lo = 0xD800 + (c2 >> 10), 0xDC00 + (c2 & 0x3FF)
                fmt = rng.choice(["\\u%04x\\u%04x", "\\u%04X\\u%04X"])
                out += (fmt % (hi, lo)).encode()
            else:
                out += (rng.choice(["\\u%04x", "\\u%04X"]) % c).encode()
        else:
            out += chr(c).encode("utf-8")
    out += b'"'
    return bytes(out)


def enc_value(rng, v, heavy):
    if v is None:
        return b"null"
    if v is True:
        return b"true"
    if v is False:
        return b"false"
    t = v[0]
    if t == "i":
        return str(v[1]).encode()
    if t == "d":
        return v[1].encode()
    if t == "s":
        return enc_string(rng, v[1])
    if t == "a":
        return b"[" + ws(rng, heavy) + (b"," + ws(rng, heavy)).join(enc_value(rng, x, heavy) + ws(rng, heavy) for x in v[1]) + b"]"
    parts = [enc_string(rng, k) + ws(rng, heavy) + b":" + ws(rng, heavy) + enc_value(rng, x, heavy) + ws(rng, heavy) for k, x in v[1]]
    return b"{" + ws(rng, heavy) + (b"," + ws(rng, heavy)).join(parts) + b"}"


# ------------------------------------------------------- comparing canonical dumps

def parse_dump(s):
    pos = [0]

    def hexs():
        st = pos[0]
        while pos[0] < len(s) and s[pos[0]] in "0123456789abcdef-":
            pos[0] += 1
        return s[st:pos[0]]

    def value():
        c = s[pos[0]]
        pos[0] += 1
        if c in "ntf":
            return c
        if c == "i":
            st = pos[0]
            while pos[0] < len(s) and s[pos[0]] in "-0123456789":
                pos[0] += 1
            return ("i", int(s[st:pos[0]]))
        if c == "L":
            h = hexs()
            return ("d", float(bytes.fromhex(h).decode()))
        if c == "d":
            st = pos[0]
            while pos[0] < len(s) and s[pos[0]] not in ",]}":
                pos[0] += 1
            tok = s[st:pos[0]]
            if tok in ("inf", "-inf"):
                return ("d", float(tok))
            if "nan" in tok:
                return ("d", float("nan"))
            return ("d", float.fromhex(tok))
        if c == "s":
            return ("s", hexs())
        if c == "[":
            items = []
            if s[pos[0]] == "]":
                pos[0] += 1
                return ("a", items)
            while True:
                items.append(value())
                ch = s[pos[0]]
                pos[0] += 1
                if ch == "]":
                    return ("a", items)
        if c == "{":
            ms = []
            if s[pos[0]] == "}":
                pos[0] += 1
                return ("o", ms)
            while True:
                pos[0] += 1
                k = hexs()
                pos[0] += 1
                ms.append((k, value()))
                ch = s[pos[0]]
                pos[0] += 1
                if ch == "}":
                    return ("o", ms)
        raise ValueError("dump: " + s[:60])

    return value()


def same_tree(a, b):
    if isinstance(a, str) or isinstance(b, str):
        return a == b
    if a[0] != b[0]:
        return False
    if a[0] == "d":
        return struct.pack(">d", a[1]) == struct.pack(">d", b[1])
    if a[0] in ("i", "s"):
        return a[1] == b[1]
    if a[0] == "a":
        return len(a[1]) == len(b[1]) and all(same_tree(x, y) for x, y in zip(a[1], b[1]))
    return len(a[1]) == len(b[1]) and all(k1 == k2 and same_tree(x, y) for (k1, x), (k2, y) in zip(a[1], b[1]))


def same_result(x, y):
    """compare two result lines (OK <dump> | ERR <off>) up to the representation of doubles"""
    if x == y:
        return True
    if x.startswith("OK ") and y.startswith("OK "):
        try:
            return same_tree(parse_dump(x[3:]), parse_dump(y[3:]))
        except Exception:
            return False
    return False


def py_tree(o):
    """Python json object -> comparable tree"""
    if o is None:
        return "n"
    if o is True:
        return "t"
    if o is False:
        return "f"
    if isinstance(o, int):
        if -2 ** 63 <= o <= 2 ** 63 - 1:
            return ("i", o)
        return ("d", float(o) if abs(o) < 10 ** 308 else math.copysign(float("inf"), o))
    if isinstance(o, float):
        return ("d", o)
    if isinstance(o, str):
        return ("s", hx(o.encode("utf-8", "surrogatepass")))
    if isinstance(o, list):
        return ("a", [py_tree(x) for x in o])
    return ("o", sorted((hx(k.encode("utf-8", "surrogatepass")), py_tree(v)) for k, v in o.items()))


def py_reference(text):
    try:
        return py_tree(json.loads(text.decode("utf-8"), parse_constant=lambda c: (_ for _ in ()).throw(ValueError(c))))
    except Exception:
        return None


# ------------------------------------------------------------------------- cases

def build_cases(ctx):
    rng = vlib.rng_for(ctx)
    thorough = ctx["tier"] == "thorough"
    cases = []

    def add(line, **meta):
        cases.append((line, meta))

    cdir = os.path.join(vlib.VERIF, "corpus", PID)
    if os.path.isdir(cdir):
        for fn in sorted(os.listdir(cdir)):
            for line in open(os.path.join(cdir, fn)):
                line = line.strip()
                if line and not line.startswith("#"):
                    add(line, kind="corpus")

    # 1. grammar-generated valid texts with the value they encode
    ntext = 500 if not thorough else 15000
    for _ in range(ntext):
        v = gen_value(rng, 0, rng.choice([1, 2, 4, 6]))
        heavy = rng.random() < 0.5
        text = ws(rng, heavy) + enc_value(rng, v, heavy) + ws(rng, heavy)
        add("P %s %s" % (DEF_LIM, hx(text)), kind="text", expect="OK " + canon(v), text=text)
    # every escape form, every number form explicitly
    for t in [b'"\\u0041\\u00e9\\u20ac\\ud83d\\ude00\\/\\b\\f\\n\\r\\t\\"\\\\"', b'"\\uD83D\\uDE00"', b'"\\u0000"', b"0", b"-0", b"-0.0",
              b"1e0", b"1E+2", b"1e-2", b"0.1", b"1.7976931348623157e308", b"5e-324", b"2.2250738585072014e-308", b"1e400", b"-1e400",
              b"9223372036854775807", b"9223372036854775808", b"-9223372036854775808", b"-9223372036854775809", b"1e-7", b"123456789012345678901234567890",
              b"[]", b"{}", b"[ ]", b"{ }", b' [ 1 , 2 ] ', b'{"a":1,"a":2}', b'{"":{"":[]}}', b"true", b"false", b"null"]:
        ref = py_reference(t)
        add("P %s %s" % (DEF_LIM, hx(t)), kind="text-ref", text=t)
    # 2. limits +-1
    for d in (1, 2, 5):
        for k in (d - 1, d, d + 1, d + 2):
            t = b"[" * k + b"1" + b"]" * k
            add("P 10000,10000,%d,1000000 %s" % (d, hx(t)), kind="limit")
            t = b'{"a":' * k + b"1" + b"}" * k
            add("P 10000,10000,%d,1000000 %s" % (d, hx(t)), kind="limit")
    for n in (0, 1, 3):
        for k in (n - 1, n, n + 1, n + 2):
            if k < 0:
                continue
            add("P %d,10000,100,1000000 %s" % (n, hx(b"[" + b",".join(b"1" for _ in range(k)) + b"]")), kind="limit")
            add("P 10000,%d,100,1000000 %s" % (n, hx(b"{" + b",".join(b'"k%d":1' % i for i in range(k)) + b"}")), kind="limit")
            add("P 10000,10000,100,%d %s" % (n, hx(b'"' + b"x" * k + b'"')), kind="limit")
            add("P 10000,10000,100,%d %s" % (n, hx(b'"' + b"\\u00e9" * k + b'"')), kind="limit")
    # 3. mutated bytes
    nmut = 500 if not thorough else 15000
    for _ in range(nmut):
        v = gen_value(rng, 0, rng.choice([1, 2, 4]))
        w = bytearray(enc_value(rng, v, rng.random() < 0.3))
        for _ in range(rng.randint(1, 3)):
            if not w:
                break
            r = rng.random()
            i = rng.randrange(len(w))
            if r < 0.4:
                w[i] = rng.choice([0x22, 0x5C, 0x75, 0x7B, 0x7D, 0x5B, 0x5D, 0x2C, 0x3A, 0x2D, 0x2E, 0x65, 0x30, 0, 0x80, 0xFF, rng.getrandbits(8)])
            elif r < 0.6:
                del w[i]
            elif r < 0.8:
                w = w[:i]
            else:
                w[i:i] = rng.choice([b"\\u", b"\\ud800", b"\\", b",", b"[", b"{", b'"', b"-", b".", b"e", b"\x0b", b"\x0c"])
        add("P %s %s" % (DEF_LIM, hx(bytes(w))), kind="mut", text=bytes(w))
    for t in [b"{", b"{\"a\":1,", b"[", b"[1,", b'"', b'"\\', b'"\\u', b'"\\u12', b'"\\u123', b"-", b"1.", b"1e", b"1e+", b"tru", b"nul", b"\x0b1", b"01", b"1 2",
              b"[1 2]", b'{"a" 1}', b'{1:2}', b"[1,]", b"{,}", b'"\\x"', b"\xff", b"", b"   "]:
        add("P %s %s" % (DEF_LIM, hx(t)), kind="mut", text=t)

    # 4. programmatic values: serialize -> parse round trip, all option combinations
    nval = 250 if not thorough else 8000
    for _ in range(nval):
        v = gen_value(rng, 0, rng.choice([1, 2, 4]))
        v = dedup_keys(v)
        if has_nonfinite(v):
            continue
        pretty = rng.randint(0, 1)
        sort = rng.randint(0, 1)
        ind = rng.choice([b"  ", b"\t", b" ", b""])
        add("S %d %d %s %s" % (pretty, sort, hx(ind), canon(v)), kind="value", expect=canon(v), sort=sort,
            has_dbl=("L" in canon(v)))
    # boundary doubles (tested, not proved: %.17g then strtod must give the double back)
    for lex in ["1e-7", "5e-324", "2.2250738585072014e-308", "1.7976931348623157e308", "0.1", "0.30000000000000004", "1e22", "1e23",
                "9007199254740993.0", "4.35", "1e-320", "123456789.12345679", "-0.0", "1.0", "100000.0", "1e21", "1e-5", "3.141592653589793",
                "2.718281828459045", "6.02214076e23", "1.6e-19"] + ["%r" % (rng.random() * 10 ** rng.randint(-30, 30)) for _ in range(60)]:
        add("S 0 1 - [L%s]" % hx(lex.encode()), kind="value", expect="[L%s]" % hx(lex.encode()), sort=1, has_dbl=True)
    return cases


def has_nonfinite(v):
    if isinstance(v, tuple):
        if v[0] == "d":
            return not math.isfinite(float(v[1]))
        if v[0] == "a":
            return any(has_nonfinite(x) for x in v[1])
        if v[0] == "o":
            return any(has_nonfinite(x) for _, x in v[1])
    return False


def dedup_keys(v):
    if isinstance(v, tuple) and v[0] == "a":
        return ("a", [dedup_keys(x) for x in v[1]])
    if isinstance(v, tuple) and v[0] == "o":
        seen, out = set(), []
        for k, x in v[1]:
            kk = tuple(k)
            if kk in seen:
                continue
            seen.add(kk)
            out.append((k, dedup_keys(x)))
        return ("o", out)
    return v


def evaluate(ctx, v, cases, impl, model):
    stats = {"kinds": {}, "nontrivial": set(), "disagree": 0, "py_checked": 0}
    for (line, meta), ri, rm in zip(cases, impl, model):
        k = meta["kind"]
        stats["kinds"][k] = stats["kinds"].get(k, 0) + 1
        failed = False
        if ri.startswith("EXC") or ri.startswith("CRASH"):
            v.property_failure("impl-throws-or-crashes", "JSON code crashed, threw, hung or read out of bounds (%s)" % ri, line, ri)
            failed = True
        elif ri.startswith("OUTSIDE-READ"):
            v.property_failure("reads-outside-input", "the result of parsing depends on memory behind the end of the input "
                               "(the parser reads outside the input): " + ri[:200], line, ri[:600])
            failed = True
        elif k in ("text", "text-ref", "mut", "limit"):
            text = meta.get("text")
            if ri.startswith("ERR "):
                off = int(ri[4:])
                inlen = 0 if line.split(" ")[2] == "-" else len(line.split(" ")[2]) // 2
                if off > inlen:
                    v.property_failure("error-offset-outside-input", "reported error position lies outside the input", line, ri)
                    failed = True
            if k == "text" and not failed:
                if not same_result(ri, meta["expect"]):
                    v.property_failure("decode-exact", "a valid RFC 8259 text is not decoded to the value it encodes", line,
                                       "impl=%s\nexpected=%s" % (ri[:800], meta["expect"][:800]))
                    failed = True
                else:
                    stats["nontrivial"].add(line)
            # second reference decoder: Python's json (valid UTF-8 only; it rejects some things iora accepts, that is allowed)
            if text is not None and not failed and k in ("text", "text-ref"):
                ref = py_reference(text)
                if ref is not None:
                    stats["py_checked"] += 1
                    ok = ri.startswith("OK ")
                    try:
                        ok = ok and same_tree(parse_dump(ri[3:]), normalise_ref(ref))
                    except Exception:
                        ok = False
                    if not ok:
                        v.property_failure("decode-vs-python-json", "result differs from Python's json decoder", line,
                                           "impl=%s" % ri[:800])
                        failed = True
                    else:
                        stats["nontrivial"].add(line)
        elif k == "value":
            parts = ri.split(" | ", 1)
            if len(parts) != 2:
                v.property_failure("impl-output", "unparsable harness output", line, ri[:300])
                continue
            texthex, re_dump = parts
            ok = not re_dump.startswith("ERR")
            if ok:
                try:
                    ok = same_tree(parse_dump(re_dump), parse_dump(meta["expect"]))
                except Exception:
                    ok = False
            if not ok:
                v.property_failure("value-roundtrip", "serialising a value and parsing it back does not give an equal value", line,
                                   "impl=%s\nexpected=%s" % (ri[:800], meta["expect"][:400]))
                failed = True
            else:
                # the text must be valid RFC 8259 according to an independent decoder
                text = b"" if texthex == "-" else bytes.fromhex(texthex)
                ref = py_reference(text)
                try:
                    good = ref is not None and same_tree(normalise_ref(ref), parse_dump(meta["expect"]))
                except Exception:
                    good = False
                if not good:
                    v.property_failure("serialised-text-invalid", "serialised text is not valid RFC 8259 / decodes differently in Python",
                                       line, "text=%r" % text[:200])
                    failed = True
                else:
                    stats["nontrivial"].add(line)
        # correspondence (doubles are compared by value; serialised texts only when keys are sorted and no double occurs)
        if k == "value":
            pi, pm = ri.split(" | ", 1), rm.split(" | ", 1)
            same = len(pi) == 2 and len(pm) == 2 and same_result("OK " + pi[1], "OK " + pm[1])
            if same and meta.get("sort") and not meta.get("has_dbl"):
                same = pi[0] == pm[0]
        else:
            same = same_result(ri, rm)
        if not same:
            stats["disagree"] += 1
            if not failed:
                v.disagreement("C13 correspondence: model and implementation differ on a %s case" % k, line, ri, rm)
    return stats


def normalise_ref(t):
    if isinstance(t, tuple) and t[0] == "o":
        return ("o", [(k, normalise_ref(x)) for k, x in sorted(t[1])])
    if isinstance(t, tuple) and t[0] == "a":
        return ("a", [normalise_ref(x) for x in t[1]])
    return t


def run(ctx):
    t0 = time.time()
    v = vlib.Verdict(ctx)
    proof = vlib.prove(ctx, "C13", extra_targets=["C13/Extract.vo"])
    if proof["broken"]:
        v.proof_broken(proof["broken"], proof["log_tail"])
    cov = {"evaluations": 0, "distinct_nontrivial": 0, "rule": "", "samples": []}
    model_exe = None
    try:
        model_exe = vlib.build_driver("c13")
    except Exception as e:
        v.harness_broken("model driver failed to build", str(e)[-2000:])
    impl_exe, blog = vlib.build_harness(**HARNESS_OPTS)
    if impl_exe is None:
        v.harness_broken("harness/c13_impl.cpp no longer compiles against /repo/include", blog)
    if model_exe and impl_exe:
        if ctx.get("replay"):
            cases = [(l.strip(), {"kind": "corpus"}) for l in open(ctx["replay"]) if l.strip() and not l.startswith("#")]
        else:
            cases = build_cases(ctx)
        li, lm, logs = vlib.run_pair(ctx, impl_exe, model_exe, [c[0] for c in cases], "c13")
        stats = evaluate(ctx, v, cases, li, lm)
        if ctx.get("replay"):
            for (line, _), a, b in zip(cases, li, lm):
                print("case:  %s\nimpl:  %s\nmodel: %s" % (line[:300], a[:800], b[:800]))
        cov = {
            "evaluations": len(cases),
            "distinct_nontrivial": len(stats["nontrivial"]),
            "rule": "grammar-based texts (every escape form incl. \\uXXXX in both cases and surrogate pairs, every number form, "
                    "nesting, duplicate keys, RFC whitespace) whose encoded value the generator knows; explicit escape/number "
                    "tables; depth/array/member/string limits at -1/0/+1/+2; mutated and truncated bytes; programmatic values "
                    "serialised with all pretty/sortKeys/indent combinations and re-parsed; boundary doubles (tested). Python's "
                    "json module is a second reference decoder (%d texts). Non-trivial = decoded to the expected value / "
                    "round-tripped; distinct = distinct case lines." % stats["py_checked"],
            "samples": [c[0][:300] for c in cases[:2]] + [c[0][:300] for c in cases[-2:]],
            "case_kinds": stats["kinds"],
            "disagreements_model_vs_impl": stats["disagree"],
            "impl_rc": logs[0], "model_rc": logs[2],
        }
        if logs[0] != 0 and not any(x["sig"] == "impl-throws-or-crashes" for x in v.violations):
            v.property_failure("impl-throws-or-crashes", "harness exited abnormally (sanitizer report or hang)", "", logs[1])
    rc = v.finish()
    ctx["assumptions"] = [
        "doubles: the model carries the lexeme; equality of a lexeme with the implementation's double is decided by Python float() (IEEE-754 correctly rounded), outside Coq",
        "the %.17g / strtod round trip of finite doubles is tested on boundary values, not proved",
    ]
    vlib.write_evidence(ctx, proof, cov, time.time() - t0, len(v.violations))
    return rc
