"""C08 — timers never fire early, twice, or after a successful cancel.

prove:      coq/C08/Properties.v
correspond: harness/c08_impl.cpp (real TimingWheel advanced by hand, CLOCK_MONOTONIC frozen and moved
            by the case) vs. the extracted wheel model; property oracles on the implementation's output;
            harness/c08_svc.cpp exercises the real TimerService and the threaded wheel in real time.
"""
import time

import vlib

PID = "C08"
HARNESS_OPTS = {"name": "c08_impl", "libs": "-lpthread"}
SVC_OPTS = {"name": "c08_svc", "libs": "-lpthread"}
HARNESSES = [HARNESS_OPTS, SVC_OPTS]
META = {
    "category": "proof",
    "technique": "Coq proof (invariants of the wheel's bucket structure and of the service's record store) + differential correspondence + real-time conformance test",
    "text": "Coq theorems over an executable model of the hierarchical timing wheel with explicit time (schedule, cancel, "
            "reschedule, advance with tick-drift catch-up, level-0 collection, cascading with re-insertion): every id is in at "
            "most one bucket; an advance at time now fires only entries whose deadline is at most now + one tick, each at "
            "most once; after a successful cancel the id is nowhere in the wheel and is never fired again; cancel / "
            "reschedule fail exactly when the id is not pending; nothing is dropped: an id stays pending until it is fired "
            "or cancelled. The same for TimerService's record store (due test deadline <= now, cancel under the same lock, "
            "k-th periodic firing at t0 + k*interval). The wheel is tied to the code by driving the real TimingWheel tick by "
            "tick with a frozen clock (punctual, late and stalled ticks, delays on every level and beyond the range); the "
            "threaded services are exercised in real time (handlers timestamp themselves).",
    "design_ref": "DESIGN.md §7 C08",
    "note": "partial: the interleavings part (schedule/cancel racing the tick thread, drain/stop) is tested in real time, not "
            "proved; the model is sequential: every operation is one critical section of the wheel mutex, handlers run after "
            "it. The real-time harness can only under-approximate schedules. Trusted: Coq kernel; extraction + OCaml driver; "
            "harness/c08_impl.cpp (private access, no tick thread, frozen CLOCK_MONOTONIC), harness/c08_svc.cpp. The "
            "model's cascade iterates a detached copy of the bucket; the code iterates the live list, which differs only "
            "if a re-inserted entry lands in the bucket being cascaded - this needs the tick counter to run ahead of the "
            "clock and is excluded from the generated histories (DESIGN.md F25).",
}

# ---- additions of the translator / tie session
META["text"] += (" The wheel model's atomic schedule step is tied to the source: coq/Gen/WheelShape.v (TimingWheel::schedule's loads of the "
                 "accepting flag / lock / insertion order from clang's AST, regenerated every run) and C08/GenTie.v "
                 "wheel_generated_schedule_rechecks (the flag is read again under the wheel mutex before the entry is inserted).")

CONFIGS = [(10, 4, 2), (10, 8, 3), (10, 64, 2), (5, 16, 2), (1, 2, 3), (10, 2, 1)]


def gen_case(rng):
    td, tpw, lv = rng.choice(CONFIGS)
    rng_ticks = tpw ** lv
    ops = []
    now = 0
    ids = []
    nid = 1
    maxdl = 0
    for _ in range(rng.randint(4, 30)):
        r = rng.random()
        if r < 0.4:
            kind = rng.random()
            if kind < 0.15:
                d = rng.choice([0, -5, td - 1, 1])
            elif kind < 0.45:
                d = rng.randrange(td, td * tpw)
            elif kind < 0.6:
                d = rng.choice([td * tpw - 1, td * tpw, td * tpw + 1, td * tpw * tpw - 1, td * tpw * tpw, td * tpw * tpw + td])
            elif kind < 0.9:
                d = rng.randrange(td, td * rng_ticks + 1)
            else:
                d = td * rng_ticks * rng.choice([1, 2, 3]) + rng.randrange(0, td * 3)
            ops.append("s:%d" % d)
            ids.append(nid)
            nid += 1
            maxdl = max(maxdl, now + d)
        elif r < 0.5 and ids:
            ops.append("c:%d" % (rng.choice(ids) if rng.random() < 0.9 else nid + 3))
        elif r < 0.58 and ids:
            d = rng.choice([0, td, td * tpw, rng.randrange(1, td * rng_ticks + 1)])
            ops.append("r:%d:%d" % (rng.choice(ids), d))
            maxdl = max(maxdl, now + d)
        else:
            # the clock moves by at least one tick before every advance: punctual, late or stalled
            k = rng.random()
            if k < 0.6:
                now += td
            elif k < 0.8:
                now += td + rng.randrange(0, td)
            elif k < 0.95:
                now += td * rng.randint(2, 12) + rng.randrange(0, td)
            else:
                now += td * rng.randint(tpw, rng_ticks + 3)
            ops.append("t=%d" % now)
            ops.append("a")
    # run the wheel out: punctual ticks until every pending timer must have fired
    end = max(maxdl, now) + td * (rng_ticks + 2)
    if (end - now) // td > 6000:
        end = now + td * 6000
    while now < end:
        now += td
        ops.append("t=%d" % now)
        ops.append("a")
    return "H %d,%d,%d %s" % (td, tpw, lv, ";".join(ops))


def oracle(line, out):
    """the property on the implementation's own output"""
    cfg, opss = line.split(" ")[1], line.split(" ")[2]
    td = int(cfg.split(",")[0])
    ops = opss.split(";")
    toks = out.split(" ")
    now = 0
    deadline = {}          # id -> deadline of its current schedule
    pending = set()
    fired = set()
    cancelled = set()
    ti = 0
    for op in ops:
        if op.startswith("t="):
            now = int(op[2:])
            continue
        if ti >= len(toks):
            return ("missing-output", "the run produced fewer results than operations (hang / crash)")
        t = toks[ti]
        ti += 1
        p = op.split(":")
        if p[0] == "s":
            i = int(t[1:])
            if i == 0:
                return ("schedule-refused", "schedule on a running wheel was refused")
            deadline[i] = now + int(p[1])
            pending.add(i)
        elif p[0] == "c":
            i = int(p[1])
            ok = t == "c1"
            if ok and i not in pending:
                return ("cancel-true-for-non-pending", "cancel(%d) reported success but the timer was not pending" % i)
            if not ok and i in pending:
                return ("cancel-false-for-pending", "cancel(%d) reported failure although the timer is pending and has not fired" % i)
            if ok:
                pending.discard(i)
                cancelled.add(i)
        elif p[0] == "r":
            i = int(p[1])
            ok = t == "r1"
            if ok != (i in pending):
                return ("reschedule-result-wrong", "reschedule(%d) returned %s, pending=%s" % (i, ok, i in pending))
            if ok:
                deadline[i] = now + int(p[2])
        elif p[0] == "a":
            body = t[2:-1]
            for x in [int(y) for y in body.split(",") if y]:
                if x not in pending:
                    why = "after a successful cancel" if x in cancelled else ("a second time" if x in fired else "without being scheduled")
                    return ("fired-not-pending", "timer %d fired %s (advance at t=%d)" % (x, why, now))
                if deadline[x] > now + td:
                    return ("fired-early", "timer %d fired at t=%d, %d ms (more than one tick of %d ms) before its deadline %d"
                            % (x, now, deadline[x] - now, td, deadline[x]))
                pending.discard(x)
                fired.add(x)
    tpw, lv = int(cfg.split(",")[1]), int(cfg.split(",")[2])
    overdue = sorted(i for i in pending if deadline[i] + td * (tpw ** lv + 2) <= now)
    if overdue:
        return ("timer-lost", "timers %s never fired although the wheel was run past their deadlines plus its whole range" % overdue[:5])
    return None


def run(ctx):
    t0 = time.time()
    v = vlib.Verdict(ctx)
    proof = vlib.prove(ctx, "C08", extra_targets=["C08/Extract.vo"])
    if proof["broken"]:
        v.proof_broken(proof["broken"], proof["log_tail"])
    cov = {"evaluations": 0, "distinct_nontrivial": 0, "rule": "", "samples": []}
    model_exe = None
    try:
        model_exe = vlib.build_driver("c08")
    except Exception as e:
        v.harness_broken("model driver failed to build", str(e)[-2000:])
    impl_exe, blog = vlib.build_harness(**HARNESS_OPTS)
    if impl_exe is None:
        v.harness_broken("harness/c08_impl.cpp no longer compiles against /repo/include", blog)
    svc_exe, slog = vlib.build_harness(**SVC_OPTS)
    if svc_exe is None:
        v.harness_broken("harness/c08_svc.cpp no longer compiles against /repo/include", slog)
    if model_exe and impl_exe:
        rng = vlib.rng_for(ctx)
        thorough = ctx["tier"] == "thorough"
        if ctx.get("replay"):
            lines = [l.strip() for l in open(ctx["replay"]) if l.strip() and not l.startswith("#")]
            li, lm, _ = vlib.run_pair(ctx, impl_exe, model_exe, lines, "c08r")
            for a, b, c in zip(lines, li, lm):
                print("case:  %s\nimpl:  %s\nmodel: %s\noracle: %s" % (a[:1500], b[:1500], c[:1500], oracle(a, b)))
            cov["evaluations"] = len(lines)
        else:
            n = 300 if not thorough else 6000
            corpus = [
                "H 10,4,2 s:25;s:5;s:100;t=10;a;t=20;a;t=30;a;t=40;a;c:3;c:3;t=50;a",
                # F10a: a timer scheduled while the tick thread is stalled fired during the catch-up (fixed fda0e96)
                "H 10,64,2 s:35;t=100;s:50;a;t=110;a;t=120;a;t=130;a;t=140;a;t=150;a;t=160;a",
            ]
            lines = corpus + [gen_case(rng) for _ in range(n)]
            li, lm, _ = vlib.run_pair(ctx, impl_exe, model_exe, lines, "c08h", timeout=1500)
            nontrivial = set()
            disagree = 0
            fired_total = 0
            for line, ri, rm in zip(lines, li, lm):
                if ri.startswith("CRASH") or ri.startswith("EXC"):
                    v.property_failure("impl-crashes", "TimingWheel crashed / hung (%s)" % ri[:200], line, ri[:400])
                    continue
                fired_total += sum(len([y for y in t[2:-1].split(",") if y]) for t in ri.split(" ") if t.startswith("a["))
                bad = oracle(line, ri) if not corpus_expected(line) else oracle(line, ri)
                if bad:
                    v.property_failure(bad[0], bad[1], line, "impl:  %s\nmodel: %s" % (ri[:1200], rm[:1200]))
                if ri != rm:
                    disagree += 1
                    if not bad:
                        v.disagreement("C08 correspondence: timing wheel model and implementation differ on a history", line, ri[:2000], rm[:2000])
                elif not bad:
                    nontrivial.add(line)
            cov = {
                "evaluations": len(lines),
                "distinct_nontrivial": len(nontrivial),
                "rule": "random histories on a real TimingWheel advanced by hand (tick 1/5/10 ms, 2..64 slots, 1..3 levels): schedules "
                        "with delays <= 0, below one tick, on every level, at level boundaries -1/0/+1 and up to 3x beyond the "
                        "wheel's range; cancels (also of unknown ids, twice), reschedules; the frozen clock moves by exactly one tick, "
                        "one tick plus a fraction, 2..12 ticks (stalled tick thread) or more than a whole wheel revolution before "
                        "each advance; every case ends with punctual ticks past the last deadline plus the wheel's range. Compared: "
                        "returned ids / booleans and the fired ids per advance, in order.",
                "samples": lines[2:4],
                "timers_fired": fired_total,
                "disagreements_model_vs_impl": disagree,
            }
    if svc_exe:
        # real-time conformance of the threaded services (tested, not proved)
        rc, out = vlib.sh([svc_exe, "quick" if ctx["tier"] != "thorough" else "thorough"], timeout=900, env=vlib.ASAN_ENV)
        svc_lines = [l for l in out.split("\n") if l.startswith("SVC ")]
        cov["service_realtime"] = svc_lines[-12:]
        for l in svc_lines:
            if " VIOLATION " in l:
                v.property_failure("service-" + l.split(" ")[2], "real-time conformance of the threaded timer services: " + l, "svc", l)
        if rc != 0 and not any(" VIOLATION " in l for l in svc_lines):
            v.property_failure("impl-crashes", "the timer service harness crashed / was killed (rc=%s)" % rc, "svc", out[-1500:])
    rc = v.finish()
    ctx["assumptions"] = ["before every advance the clock has moved by at least one tick (the tick counter never runs ahead of the clock)",
                          "real-time part: scheduling latency of the sandbox up to 200 ms is tolerated for 'not lost', never for 'not early'"]
    vlib.write_evidence(ctx, proof, cov, time.time() - t0, len(v.violations))
    return rc


def corpus_expected(line):
    return False
