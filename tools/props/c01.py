"""C01 — TCP/TLS sessions deliver sent bytes exactly once and in order.

prove:      coq/C01/Properties.v
correspond: harness/c01_impl.cpp (real TcpEngine over loopback, raw TCP peer, the session's send()/recv()
            interposed on the I/O thread: short writes at scripted byte offsets, EAGAIN, hard errors,
            short reads) vs. the extracted model; plus multi-threaded framed-payload stress under real
            kernel back-pressure.
"""
import time

import vlib

PID = "C01"
HARNESS_OPTS = {"name": "c01_impl", "libs": "-lpthread -ldl -lssl -lcrypto"}
HARNESSES = [HARNESS_OPTS]
META = {
    "category": "proof",
    "technique": "Coq proof (stream invariant of the send path over all kernel answers, induction over operation sequences) + differential correspondence",
    "text": "Coq theorems over an executable model of TcpEngine's per-session send path (doSend with its direct write, the "
            "requeue of the unsent tail, writePending, the TLS-handshake branch that only queues, back-pressure) where the "
            "kernel's / OpenSSL's answer to EVERY write call is an input (full, short at any byte, would-block, error): for "
            "every sequence of sends, writable events, handshake completion and closes, under the default close-on-"
            "backpressure policy, the bytes of the accepted sends equal the bytes handed to the kernel followed by the "
            "queued buffers while the session is open, and the kernel holds a prefix after a close; nothing is written "
            "during the handshake; the drop-oldest policy is refuted (gap). The read loop hands over exactly the returned "
            "chunks. Tied to the code by scripted short writes / EAGAIN / errors / short reads on a real loopback session "
            "and by concurrent framed senders under real kernel back-pressure, on plain TCP and on TLS sessions in both roles.",
    "design_ref": "DESIGN.md §7 C01",
    "note": "partial: the scripted cut positions (short write at byte k, EAGAIN, error) are injected on plain TCP; TLS sessions (both "
            "roles, real OpenSSL peer, senders started before the handshake completes, peer streaming back) are exercised under real "
            "back-pressure only, where SSL_write/SSL_read decide the cuts - their stream semantics and WANT_READ/WANT_WRITE retry "
            "contract are trusted. The order in which concurrent senders are accepted is the order of the "
            "engine's command queue (a mutex-protected deque), modelled as the order of the operation list. Trusted: Coq "
            "kernel; extraction + OCaml driver; harness/c01_impl.cpp (send/recv interposition, barrier connections).",
}

# ---- additions of the translator / tie session (appended to the manifest texts)
META["text"] += " Theorem tcp_epollout_armed_iff_queued (C01/Interest.v): for every history the last epoll registration of an open session asks for EPOLLOUT exactly while bytes are queued (no lost re-arm, no spinning on an empty queue); the harness observes the real registration (epoll_ctl interposed) after every operation."


def hx(b):
    return bytes(b).hex() if b else "-"


def gen_case(rng):
    maxq = rng.choice([1, 2, 3, 8, 1024])
    cbp = 1 if rng.random() < 0.8 else 0
    kind = rng.choice("cs")
    ops = []
    cnt = [0]
    queued = [False]

    def payload():
        cnt[0] += 1
        r = rng.random()
        if r < 0.6:
            n = rng.randint(1, 12)
            return hx(bytes(((cnt[0] * 13 + i) & 0xFF) for i in range(n))), n
        n = rng.choice([100, 4096, 65536, 70001])
        return "@%d.%d" % (n, cnt[0]), n

    for _ in range(rng.randint(4, 18)):
        r = rng.random()
        if r < 0.5:
            pl, n = payload()
            a = rng.random()
            if a < 0.5:
                ans = "f"
            elif a < 0.75:
                ans = "p%d" % rng.choice([0, 1, n // 2, max(n - 1, 0)])
            elif a < 0.93:
                ans = "a"
            else:
                ans = "e"
            ops.append("s:%s:%s" % (pl, ans))
        elif r < 0.75:
            k = rng.randint(1, 5)
            script = []
            for _ in range(k):
                a = rng.random()
                script.append("f" if a < 0.55 else ("p%d" % rng.choice([0, 1, 2, 5, 50]) if a < 0.8 else ("a" if a < 0.96 else "e")))
            ops.append("w:%s" % ",".join(script))
        elif r < 0.9:
            pl, n = payload()
            lens = ",".join(str(rng.choice([1, 2, 7, 100, 5000])) for _ in range(rng.randint(0, 3)))
            ops.append("r:%s:%s" % (pl, lens))
        elif r < 0.95:
            ops.append("x")
        else:
            ops.append("k")
    ops.append("w:" + ",".join(["f"] * 40))
    return "T %d,%d,%s %s" % (maxq, cbp, kind, ";".join(ops))


def run(ctx):
    t0 = time.time()
    v = vlib.Verdict(ctx)
    proof = vlib.prove(ctx, "C01", extra_targets=["C01/Extract.vo"])
    if proof["broken"]:
        v.proof_broken(proof["broken"], proof["log_tail"])
    cov = {"evaluations": 0, "distinct_nontrivial": 0, "rule": "", "samples": []}
    model_exe = None
    try:
        model_exe = vlib.build_driver("c01")
    except Exception as e:
        v.harness_broken("model driver failed to build", str(e)[-2000:])
    impl_exe, blog = vlib.build_harness(**HARNESS_OPTS)
    if impl_exe is None:
        v.harness_broken("harness/c01_impl.cpp no longer compiles against /repo/include", blog)
    if model_exe and impl_exe:
        rng = vlib.rng_for(ctx)
        thorough = ctx["tier"] == "thorough"
        if ctx.get("replay"):
            lines = [l.strip() for l in open(ctx["replay"]) if l.strip() and not l.startswith("#")]
            li, lm, _ = vlib.run_pair(ctx, impl_exe, model_exe, lines, "c01r")
            for a, b, c in zip(lines, li, lm):
                print("case:  %s\nimpl:  %s\nmodel: %s" % (a[:1500], b[:1500], c[:1500]))
            cov["evaluations"] = len(lines)
        else:
            n = 150 if not thorough else 4000
            corpus = ["T 8,1,c s:0102030405:p2;s:0607:f;w:p1,f,f;s:@70000.3:f;r:aabbcc:1,1;r:@5000.9:100,1;x;s:09:f",
                      "T 2,1,s s:01:a;s:02:f;s:03:f;w:f,f;r:ffee;k;s:05:f"]
            def judge(line, ri, rm):
                if not line.startswith("T "):
                    return None
                if ri.startswith("CRASH") or ri.startswith("EXC") or "TIMEOUT" in ri or ri.endswith("FAIL"):
                    return "impl-crashes"
                ei, em = ri.rsplit(" E", 1)[-1] if " E" in ri else "", rm.rsplit(" E", 1)[-1] if " E" in rm else ""
                if any(a == "0" and b == "1" for a, b in zip(ei, em)) and ri.rsplit(" E", 1)[0] == rm.rsplit(" E", 1)[0]:
                    return "epollout-not-armed-with-queued-data"
                return "differs" if ri != rm else None
            v.shrinker = lambda line: vlib.shrink_line(
                ctx, impl_exe, model_exe, line, lambda l: (" ".join(l.split(" ")[:2]), l.split(" ", 2)[2].split(";")),
                lambda h, ops: h + " " + ";".join(ops), judge, tag="c01s") if line.startswith("T ") else (line, 0)
            lines = corpus + [gen_case(rng) for _ in range(n)]
            stress = ["S 4 %d 40000" % (150 if not thorough else 2000), "S 1 %d 200000" % (60 if not thorough else 600),
                      "S 8 %d 3000" % (300 if not thorough else 4000)]
            tls = ["L c 4 %d 30000" % (60 if not thorough else 600), "L s 4 %d 30000" % (60 if not thorough else 600),
                   "L c 1 %d 150000" % (20 if not thorough else 200), "L s 8 %d 2000" % (120 if not thorough else 1500)]
            lines += stress + tls
            li, lm, _ = vlib.run_pair(ctx, impl_exe, model_exe, lines, "c01h", timeout=1800)
            nontrivial = 0
            disagree = 0
            toks = {}
            for line, ri, rm in zip(lines, li, lm):
                if ri.startswith("CRASH") or ri.startswith("EXC") or "TIMEOUT" in ri or ri.endswith("FAIL"):
                    v.property_failure("impl-crashes", "TcpEngine crashed / hung (%s)" % ri[-200:], line, ri[-600:])
                    continue
                if line.startswith("L "):
                    if ri != "L ok":
                        v.property_failure("stream-corrupted-under-backpressure", "TLS session (engine as %s), concurrent framed senders started before "
                                           "the handshake completed, peer streaming back: %s" % ("client" if line.split()[1] == "c" else "server", ri), line, ri)
                    else:
                        nontrivial += 1
                    continue
                if line.startswith("S "):
                    if ri != "S ok":
                        v.property_failure("stream-corrupted-under-backpressure", "concurrent framed senders under kernel back-pressure: "
                                           "the peer's byte stream is %s" % ri, line, ri)
                    else:
                        nontrivial += 1
                    continue
                for t in ri.replace(" | ", " ").split(" "):
                    if t and t != ".":
                        toks[t[0]] = toks.get(t[0], 0) + 1
                # the EPOLLOUT bit of the last registration, per operation (E...): a '0' where the model (theorem
                # tcp_epollout_armed_iff_queued) has '1' means bytes are queued on an open session that never asks
                # for writability again
                ei, em = ri.rsplit(" E", 1)[-1] if " E" in ri else "", rm.rsplit(" E", 1)[-1] if " E" in rm else ""
                lost = [i for i, (a, b) in enumerate(zip(ei, em)) if a == "0" and b == "1"]
                if lost and ri.rsplit(" E", 1)[0] == rm.rsplit(" E", 1)[0]:
                    v.property_failure("epollout-not-armed-with-queued-data", "after operation %d bytes are queued on the open session but its "
                                       "last epoll registration does not ask for EPOLLOUT: they are never written (lost re-arm)" % lost[0],
                                       line, "impl:  %s\nmodel: %s" % (ri[:1500], rm[:1500]))
                    disagree += 1
                    continue
                if ri != rm:
                    disagree += 1
                    cbp = line.split(" ")[1].split(",")[1] == "1"
                    if cbp:
                        v.property_failure("peer-stream-differs", "the bytes the peer received (or the data callbacks) differ from the "
                                           "concatenation of the accepted sends: a byte was lost, duplicated, reordered or skipped",
                                           line, "impl:  %s\nmodel: %s" % (ri[:1500], rm[:1500]))
                    else:
                        v.disagreement("C01 correspondence: send-path model and implementation differ (drop-oldest policy case)", line, ri[:1500], rm[:1500])
                else:
                    nontrivial += 1
            cov = {
                "evaluations": len(lines),
                "distinct_nontrivial": nontrivial,
                "rule": "random histories on one real loopback TCP session (engine-initiated or accepted; maxWriteQueue 1/2/3/8/1024; "
                        "close-on-backpressure mostly on): sends of 1..12 bytes or 100/4096/65536/70001 bytes whose direct write is "
                        "answered full / short at 0, 1, n/2, n-1 / EAGAIN / error; writable events with scripts of 1..5 answers "
                        "(full, short, EAGAIN, error) after which the socket is blocked again; peer writes with scripted short "
                        "reads; application close; peer close. Compared per operation: the bytes newly seen by the peer, data "
                        "callbacks (concatenated) and the close event. Stress: 1/4/8 threads sending framed payloads up to "
                        "200 KB while the peer reads slowly (real kernel short writes and EAGAIN).",
                "samples": lines[2:4],
                "observed_tokens": toks,
                "disagreements_model_vs_impl": disagree,
            }
    rc = v.finish()
    ctx["assumptions"] = ["loopback TCP; payloads answered 'full' fit the socket buffer (<= 70 KB)"]
    vlib.write_evidence(ctx, proof, cov, time.time() - t0, len(v.violations))
    return rc
