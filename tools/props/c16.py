"""C16 — each HTTP request gets exactly one well-formed response, in order.

prove:      coq/C16/Properties.v
correspond: harness/c16_impl.cpp: (G) the real HttpServer over a scripted engine with gated handlers - the script
            decides in which order the pool's workers finish - vs. the extracted response / sequencing model;
            (R) the real server on loopback with a raw-socket client, pipelines with sleeping handlers, the byte
            stream split by an independent Content-Length framer and matched to the requests.
"""
import time

import vlib

PID = "C16"
HARNESS_OPTS = {"name": "c16_impl", "libs": "-lpthread -ldl -lssl -lcrypto"}
HARNESSES = [HARNESS_OPTS]
META = {
    "category": "proof",
    "technique": "Coq proof (response function of processHttpRequest; permutation / order invariants of the per-connection sequencing "
                 "over all pool schedules) + differential correspondence with scripted worker completion order + independent wire framer",
    "text": "Coq theorems over (a) the response function of processHttpRequest (every dispatch category, handler outcome - content through "
            "the API, status only, throw, suppression -, HEAD, parse errors, Connection: close / HTTP/1.0): Content-Length equals the "
            "body, HEAD answers carry none, a throwing handler yields 500, an unparsable request yields its error status and the close, "
            "close is honoured, only a handler that takes the connection over leaves a request unanswered; (b) the per-connection "
            "sequencing (extraction in arrival order on the I/O thread, any number of workers, one send per response) for EVERY pool "
            "schedule: each extracted request is answered exactly once, and with ONE worker per connection - what the server does since "
            "the repair of F6a - in arrival order; handing all pipelined requests to the pool at once (the code as found) is refuted. Tied to the code by scripts that decide the order in which real pool "
            "workers finish, and by real-socket pipelines judged by an independent framer.",
    "design_ref": "DESIGN.md §7 C16",
    "note": "the server as found sent pipelined responses in handler completion order (C16-F6a); since the repair the requests of one "
            "connection are handed to the pool one at a time, which makes the one-worker order theorem the one that applies; the check "
            "still looks for overtaking in every gated script and every real pipeline. 'bytes of different responses never interleave' rests on one "
            "sendAsync per response and C01 (a send's bytes are contiguous). Handlers that write Response::body directly (not through "
            "set_content) are outside clause 3. Trusted: Coq kernel; extraction + OCaml driver; harness/c16_impl.cpp (gates, wire summary, "
            "Content-Length framer).",
}

# ---- additions of the later session
META["text"] += (" Byte level (C16/Wire.v): HttpResponse::toWireFormat as [wire]; theorems http_response_first_blank_line (whatever the body "
                 "contains, the first blank line of a serialised response is the serialiser's own, given no CR in the status line and "
                 "the field lines) and http_response_content_length_consistent_on_the_wire (a peer framing by Content-Length = |body| - "
                 "the C15 client framer - is handed exactly the body, following bytes are surplus); tied by W cases: the real "
                 "toWireFormat against the extracted [wire] on generated responses (field order canonicalised).")

GATED = ["get", "head", "throw", "post", "dflt", "supp"]
IMMEDIATE = ["na", "opt", "star", "bad", "ver"]


def gen_script(rng):
    items = []
    waiting = []          # gated ids not yet opened, in request order
    nid = 0
    closed = False
    for _ in range(rng.randint(2, 7)):
        if closed:
            break
        r = rng.random()
        if r < 0.6 and len(waiting) < 6:
            # one read with 1..4 requests; at most one of them answers without a handler gate
            qs = []
            for _ in range(rng.randint(1, 4)):
                if len(waiting) >= 6:
                    break
                nid += 1
                if rng.random() < 0.25:
                    kind = rng.choice(IMMEDIATE)
                else:
                    kind = rng.choice(GATED)
                    waiting.append(str(nid))
                q = "Q%d:%s" % (nid, kind)
                if kind in ("bad", "ver"):
                    closed = True
                    qs.append(q)
                    break
                if rng.random() < 0.08:
                    q += ":c"
                qs.append(q)
            if qs:
                items.append("+".join(qs))
        elif waiting:
            i = waiting.pop(rng.randrange(len(waiting)) if rng.random() < 0.6 else 0)
            items.append("O" + i)
    rng.shuffle(waiting) if rng.random() < 0.5 else None
    for i in waiting:
        items.append("O" + i)
    return "G " + ";".join(items)


CORPUS = [
    "G Q1:get+Q2:get;O2;O1",                      # the second gate opens first: the responses must still leave in request order (F6a)
    "G Q1:get+Q2:na+Q3:opt+Q4:post+Q5:bad;O4;O1",
    "G Q1:get+Q2:head+Q3:throw+Q4:post;O1;O2;O3;O4",
    "G Q1:dflt;Q2:na;Q3:opt;Q4:star;O1;Q5:supp;O5;Q6:get:c;O6",
    "G Q1:get;O1;Q2:bad",
    "G Q1:post+Q2:ver;O1",
]


def in_order(tokens):
    ids = [int(t.split(":")[0]) for t in tokens if t != "X" and t.split(":")[0].isdigit()]
    return all(a < b for a, b in zip(ids, ids[1:]))


def run(ctx):
    t0 = time.time()
    v = vlib.Verdict(ctx)
    proof = vlib.prove(ctx, "C16", extra_targets=["C16/Extract.vo"])
    if proof["broken"]:
        v.proof_broken(proof["broken"], proof["log_tail"])
    cov = {"evaluations": 0, "distinct_nontrivial": 0, "rule": "", "samples": []}
    model_exe = None
    try:
        model_exe = vlib.build_driver("c16")
    except Exception as e:
        v.harness_broken("model driver failed to build", str(e)[-2000:])
    impl_exe, blog = vlib.build_harness(**HARNESS_OPTS)
    if impl_exe is None:
        v.harness_broken("harness/c16_impl.cpp no longer compiles against /repo/include", blog)
    if model_exe and impl_exe:
        rng = vlib.rng_for(ctx)
        thorough = ctx["tier"] == "thorough"
        if ctx.get("replay"):
            lines = [l.strip() for l in open(ctx["replay"]) if l.strip() and not l.startswith("#")]
            li, lm, _ = vlib.run_pair(ctx, impl_exe, model_exe, lines, "c16r")
            for a, b, c in zip(lines, li, lm):
                print("case:  %s\nimpl:  %s\nmodel: %s" % (a[:1500], b[:1500], c[:1500]))
            cov["evaluations"] = len(lines)
        else:
            n = 150 if not thorough else 4000
            lines = list(CORPUS) + [gen_script(rng) for _ in range(n)]
            base = rng.randint(1, 10 ** 6)
            lines += ["R %d %d %s" % (rng.choice([3, 6, 10, 16]), base + i, "seq" if i % 3 == 0 else "pipe") for i in range(12 if not thorough else 300)]
            # W: HttpResponse::toWireFormat against the byte-level wire model (C16/Wire.v); field lines in sorted order in
            # the case, the implementation's (unordered_map) order is canonicalised by sorting its field lines
            wcases = []
            for _ in range(60 if not thorough else 1500):
                nf = rng.randint(0, 5)
                names = rng.sample(["Content-Type", "X-A", "Server", "Cache-Control", "ETag", "X-Long-" + "h" * rng.randint(1, 30), "Vary", "Date"], nf)
                body = bytes(rng.choice(b"ab \r\n\r\n{}:") for _ in range(rng.choice([0, 1, 2, 7, 40, 300])))
                fl = [(nm.encode(), bytes(rng.choice(b"abc ;=/,") for _ in range(rng.randint(0, 12)))) for nm in names]
                if rng.random() < 0.8:
                    fl.append((b"Content-Length", str(len(body)).encode()))
                fl.sort(key=lambda kv: kv[0] + b": " + kv[1])
                reason = rng.choice([b"OK", b"Not Found", b"", b"Internal Server Error"])
                wcases.append("W %d %s %s %s" % (rng.choice([200, 204, 404, 500, 101]), reason.hex() or "-",
                                                 ",".join("%s=%s" % (k.hex(), v.hex() or "") for k, v in fl) or "-", body.hex() or "-"))
            wi, wm, _ = vlib.run_pair(ctx, impl_exe, model_exe, wcases, "c16w", timeout=600)
            wire_ok = 0
            for line, ri, rm in zip(wcases, wi, wm):
                if ri.startswith("CRASH") or ri.startswith("EXC"):
                    v.property_failure("impl-crashes", "HttpResponse::toWireFormat crashed (%s)" % ri[:200], line, ri[:400])
                    continue
                mw = rm.split(" ")[0]
                try:
                    raw = bytes.fromhex(ri)
                    head, sep, rest = raw.partition(b"\r\n\r\n")
                    hl = head.split(b"\r\n")
                    canon = b"\r\n".join([hl[0]] + sorted(hl[1:])) + sep + rest
                except ValueError:
                    canon = b"?"
                body_hex = line.split(" ")[4]
                want_body = "" if body_hex == "-" else body_hex
                if canon.hex() != mw:
                    v.disagreement("C16 correspondence: HttpResponse::toWireFormat differs from the wire model (field order canonicalised)", line, ri[:1500], rm[:1500])
                elif (" body=" + want_body) not in (rm + " ") and not rm.endswith(" body=" + want_body):
                    v.property_failure("response-malformed", "the bytes after the first blank line of the serialised response are not the body", line, rm[:600])
                else:
                    wire_ok += 1
            li, lm, _ = vlib.run_pair(ctx, impl_exe, model_exe, lines, "c16h", timeout=3000)
            nontrivial = overtaken = 0
            kinds = {}
            for line, ri, rm in zip(lines, li, lm):
                if line.startswith("G ") and "HUNG" in ri and not ri.startswith("CRASH"):
                    v.property_failure("not-one-response-per-request", "a complete request was fed and the script waited 5 s for its response in vain: "
                                       "it was never framed or never answered (%s)" % ri[-160:], line, "impl:  %s\nmodel: %s" % (ri, rm))
                    continue
                if ri.startswith("CRASH") or ri.startswith("EXC") or "HUNG" in ri or ri.endswith("FAIL"):
                    v.property_failure("impl-crashes", "HTTP server scenario crashed / hung (%s)" % ri[-200:], line, ri[-600:])
                    continue
                if line.startswith("R "):
                    body = ri.replace(" OVERTAKEN", "")
                    if body != "R ok":
                        sig = ("not-one-response-per-request" if ("responses=" in ri or "duplicate" in ri or "unknown" in ri) else
                               "response-malformed" if ("misframed" in ri or "truncated" in ri or "wrong-body" in ri or "garbage" in ri) else
                               "close-not-honoured" if "not-closed" in ri else "wrong-status")
                        v.property_failure(sig, "real server: %s" % ri[2:300], line, ri)
                    else:
                        nontrivial += 1
                    if "OVERTAKEN" in ri:
                        overtaken += 1
                        v.property_failure("pipelined-responses-overtake", "pipelined requests handled by different pool workers are answered in "
                                           "handler completion order, not in request order", line, ri)
                    continue
                toks_i = ri.split("|")[0].split()
                tail_i = ri.split("|")[1].split() if "|" in ri else []
                toks_m = rm.split()
                for t in toks_i:
                    k = t.split(":")[1] if ":" in t else t
                    kinds[k] = kinds.get(k, 0) + 1
                if toks_i != toks_m or tail_i:
                    what, sig = classify(toks_i + tail_i, toks_m)
                    v.property_failure(sig, what, line, "impl:  %s\nmodel: %s" % (ri, rm))
                    continue
                nontrivial += 1
                if not in_order(toks_i):
                    overtaken += 1
                    v.property_failure("pipelined-responses-overtake", "pipelined requests handled by different pool workers are answered in "
                                       "handler completion order, not in request order", line, "wire order: %s" % ri)
            cov["evaluations"] = len(lines) + len(wcases)
            cov["distinct_nontrivial"] = nontrivial + wire_ok
            cov["wire_cases_agreeing"] = wire_ok
            cov["rule"] = ("random scripts on the real HttpServer (scripted engine): reads with 1-4 pipelined requests of the kinds GET / HEAD-on-GET / "
                           "throwing handler / POST echo / default handler / suppressing handler (all gated) and 405 / auto-OPTIONS / OPTIONS * / "
                           "malformed request line / unsupported version (answered without a handler), Connection: close on some, gates opened in "
                           "random order (so pool workers finish out of arrival order); compared token by token with the extracted model: per "
                           "send the request id, status, body presence, close flag, Content-Length consistency, and the close commands. Real "
                           "server: pipelines of 3-16 requests with sleeping handlers over a raw socket, independent framer. Runs whose responses "
                           "overtook: %d." % overtaken)
            cov["samples"] = ["status tokens: %s" % sorted(kinds.items())]
    rc = v.finish()
    ctx["assumptions"] = ["loopback TCP for the real-socket pipelines"]
    vlib.write_evidence(ctx, proof, cov, time.time() - t0, len(v.violations))
    return rc


def classify(ti, tm):
    ids_i = [t.split(":")[0] for t in ti if t != "X"]
    ids_m = [t.split(":")[0] for t in tm if t != "X"]
    if sorted(ids_i) != sorted(ids_m):
        return ("requests answered %s, expected %s: a request got no response or more than one" % (ids_i, ids_m), "not-one-response-per-request")
    if any(t.endswith("!") for t in ti):
        return ("a response's Content-Length disagrees with the body that follows: %s" % [t for t in ti if t.endswith("!")], "response-malformed")
    if ti.count("X") != tm.count("X"):
        return ("close commands differ (impl %d, model %d): Connection: close / error path not honoured" % (ti.count("X"), tm.count("X")), "close-not-honoured")
    return ("responses differ from the model: impl %s, model %s" % (ti, tm), "response-differs")
