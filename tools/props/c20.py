"""C20 — static asset and template lookup never escapes its root directory.

prove:      coq/C20/Properties.v
correspond: harness/c20_impl.cpp (real iora::web::Assets on directory trees built by this module:
            nested directories, inside/outside symlinks to files and directories, chains, loops,
            dangling links, .gz siblings that are links, a secret outside the root) vs. the extracted
            model vs. the operating system's own resolution (os.path.realpath) as the oracle; plus a
            concurrent link-swapping race.
"""
import os
import shutil
import time

import vlib

PID = "C20"
HARNESS_OPTS = {"name": "c20_impl", "libs": "-lpthread -lssl -lcrypto"}
HARNESSES = [HARNESS_OPTS]
META = {
    "category": "proof",
    "technique": "Coq proof (realpath over an abstract file tree with symlinks, induction on resolution) + differential correspondence",
    "text": "Coq theorems over an executable model of the lookups (lexical rejection; weakly_canonical as realpath over a "
            "finite map from physical paths to file / directory / symbolic link; component-wise containment; "
            "is_regular_file; open with O_NOFOLLOW on the canonical path; the .gz sibling) with TWO file trees, the one "
            "seen while the name is checked and the one seen when the file is opened, which may differ in any "
            "non-directory entry: for every name and every tree, returned bytes (and gzip bytes) are the contents of a "
            "regular file at or below the root, reached through real directories only - also when the final component was "
            "replaced by a symbolic link in between; '..' segments, absolute names, NUL and backslash are refused before "
            "any file access. Tied to the code by running generated names (traversal spellings, mutations) against real "
            "trees in filesystem (cached / per-request), template and external-directory mode, comparing with the model "
            "and with the operating system's realpath, and by a concurrent link-swapping race.",
    "design_ref": "DESIGN.md §7 C20",
    "note": "partial for the schedules part: the race theorem covers a change of the FINAL component (any non-directory "
            "entry) between check and open; swapping an intermediate directory for a link during a lookup is outside the "
            "model (the code documents this residual itself) and outside the property statement. Trusted: Coq kernel; "
            "extraction + OCaml driver; harness/c20_impl.cpp; the Python tree builder and oracle; the OS (realpath, "
            "O_NOFOLLOW, rename). Modelled not verified: std::filesystem::weakly_canonical / lexically_relative (modelled as "
            "realpath + prefix test; a lookup whose path does not resolve completely is 'refused' without deciding 404 vs "
            "400), the response cache (keyed by name, consulted only after the checks), MIME and ETag computation.",
}


def hx(b):
    return bytes(b).hex() if b else "-"


class Tree:
    """a directory tree under T (real path); entries: path -> ('D',) | ('F', bytes) | ('L', 'a'|'r', target)"""

    def __init__(self, T):
        self.T = T
        self.e = {}

    def d(self, p):
        self.e[p] = ("D",)

    def f(self, p, content):
        self.e[p] = ("F", content)

    def l(self, p, absolute, target):
        self.e[p] = ("L", "a" if absolute else "r", target)

    def build(self):
        if os.path.exists(self.T):
            shutil.rmtree(self.T)
        os.makedirs(self.T)
        for p in sorted(self.e, key=lambda x: x.count("/")):
            v = self.e[p]
            full = os.path.join(self.T, p)
            if v[0] == "D":
                os.makedirs(full, exist_ok=True)
            elif v[0] == "F":
                with open(full, "wb") as fh:
                    fh.write(v[1])
            else:
                os.symlink((self.T + v[2]) if v[1] == "a" else v[2], full)

    def spec(self):
        out = []
        for p in sorted(self.e, key=lambda x: x.count("/")):
            v = self.e[p]
            if v[0] == "D":
                out.append("D=%s" % p)
            elif v[0] == "F":
                out.append("F=%s=%s" % (p, hx(v[1])))
            else:
                out.append("L=%s=%s=%s" % (p, v[1], v[2]))
        return ";".join(out)


def make_tree(rng, T):
    t = Tree(T)
    for d in ["root", "root/static", "root/templates", "out", "out/deep", "ext", "ext/sub",
              "root/static-evil", "root/templates-evil", "ext-evil"]:
        t.d(d)
    # siblings whose path has the root's path as a string prefix (not as a component prefix)
    t.f("root/static-evil/secret.txt", b"SIBLING-SECRET-S")
    t.f("root/templates-evil/secret.txt", b"SIBLING-SECRET-T")
    t.f("ext-evil/secret.txt", b"SIBLING-SECRET-X")
    t.f("out/secret.txt", b"TOP-SECRET-OUTSIDE")
    t.f("out/deep/other.css", b"OUTSIDE-CSS")
    t.f("out/secret.txt.gz", b"OUTSIDE-GZ")
    cnt = [0]

    def content(tag):
        cnt[0] += 1
        return ("%s-%d-" % (tag, cnt[0])).encode() + bytes(rng.randrange(32, 127) for _ in range(rng.randint(0, 12)))

    for base, tag in [("root/static", "S"), ("root/templates", "T"), ("ext", "X")]:
        t.d(base + "/css")
        t.d(base + "/img")
        t.d(base + "/img/deep")
        t.d(base + "/..x")                      # a directory whose name starts with two dots
        t.d(base + "/...")
        t.f(base + "/index.html", content(tag))
        t.f(base + "/css/app.css", content(tag))
        t.f(base + "/css/app.css.gz", content(tag + "gz"))
        t.f(base + "/img/deep/logo.png", content(tag))
        t.f(base + "/..x/f.txt", content(tag))
        t.f(base + "/.../g.txt", content(tag))
        t.f(base + "/with+plus~.txt", content(tag))
        t.f(base + "/swap.txt", b"INSIDE")
        t.f(base + "/raceleaf.txt", b"INSIDE")      # only the race touches this one
        t.f(base + "/gzlink.js", content(tag))
        depth = base.count("/") + 1
        up = "../" * depth
        # links: inside file, inside dir, outside file (relative and absolute), outside dir, chain, loop, dangling
        t.l(base + "/in_file.lnk", False, "css/app.css")
        t.l(base + "/in_dir", False, "img/deep")
        t.l(base + "/css/up_in.lnk", False, "../index.html")
        t.l(base + "/out_file_rel.lnk", False, up + "out/secret.txt")
        t.l(base + "/out_file_abs.lnk", True, "/out/secret.txt")
        t.l(base + "/out_dir", rng.random() < 0.5, "/out" if False else up + "out")
        t.l(base + "/out_dir_abs", True, "/out")
        t.l(base + "/chain1.lnk", False, "chain2.lnk")
        t.l(base + "/chain2.lnk", False, "in_file.lnk")
        t.l(base + "/chain_out1.lnk", False, "chain_out2.lnk")
        t.l(base + "/chain_out2.lnk", False, "out_file_rel.lnk")
        t.l(base + "/loop_a", False, "loop_b")
        t.l(base + "/loop_b", False, "loop_a")
        t.l(base + "/dangling.lnk", False, "nowhere/x")
        t.l(base + "/gzlink.js.gz", False, up + "out/secret.txt.gz")   # the gzip sibling is a link to the outside
        t.l(base + "/back_in", False, up + base)                           # leaves and re-enters the root
        t.l(base + "/img/self", False, ".")
        leafname = base.split("/")[-1]
        t.l(base + "/sib.lnk", False, "../%s-evil/secret.txt" % leafname)
        t.l(base + "/sibdir", False, "../%s-evil" % leafname)
    # fix the entry that was built with a throw-away expression
    for base in ["root/static", "root/templates", "ext"]:
        up = "../" * (base.count("/") + 1)
        t.l(base + "/out_dir", False, up + "out")
    return t


SEEDS = ["index.html", "css/app.css", "img/deep/logo.png", "..x/f.txt", ".../g.txt", "with+plus~.txt", "in_file.lnk",
         "in_dir/logo.png", "css/up_in.lnk", "out_file_rel.lnk", "out_file_abs.lnk", "out_dir/secret.txt",
         "out_dir_abs/secret.txt", "out_dir/deep/other.css", "chain1.lnk", "chain_out1.lnk", "loop_a", "dangling.lnk",
         "gzlink.js", "back_in/index.html", "img/self/deep/logo.png", "img/self/self/deep/logo.png", "swap.txt",
         "sib.lnk", "sibdir/secret.txt", "nonexistent.txt", "css", "css/", "", "img/deep", "out_dir", "back_in/out_file_rel.lnk", "in_dir/../../index.html"]


def gen_name(rng):
    s = rng.choice(SEEDS).encode()
    for _ in range(rng.choice([0, 0, 1, 1, 2, 3])):
        r = rng.random()
        parts = s.split(b"/")
        if r < 0.12:
            s = b"../" * rng.randint(1, 4) + s
        elif r < 0.2:
            i = rng.randrange(len(parts) + 1)
            parts.insert(i, rng.choice([b"..", b".", b"", b"...", b"..x", b". .", b".. "]))
            s = b"/".join(parts)
        elif r < 0.28:
            s = b"/" + s
        elif r < 0.36:
            s = s + rng.choice([b"/", b"//", b"/.", b"/..", b"/../index.html"])
        elif r < 0.44:
            s = s.replace(b"/", rng.choice([b"//", b"/./", b"\\", b"/../" + parts[0] + b"/"]), 1)
        elif r < 0.52:
            s = rng.choice([b"%2e%2e/", b"..%2f", b"%2e%2e%2f", b"..\\", b"....//"]) + s
        elif r < 0.58:
            i = rng.randrange(len(s) + 1)
            s = s[:i] + b"\x00" + s[i:]
        elif r < 0.64:
            s = rng.choice([b"out_dir/", b"out_dir_abs/", b"in_dir/", b"back_in/", b"img/self/", b"out_dir/../"]) + s
        elif r < 0.70:
            s = b"A" * rng.choice([255, 256, 300]) + b"/" + s
        elif r < 0.76:
            s = s.swapcase()
        elif r < 0.84:
            s = s + b"/../" + rng.choice(SEEDS).encode()
        elif r < 0.9:
            i = rng.randrange(len(s) + 1)
            s = s[:i] + bytes([rng.randrange(1, 256)]) + s[i:]
        else:
            s = b"css/../" + s
    return s


def lexical_reject(n):
    if not n:
        return False
    return n[0:1] == b"/" or b"\x00" in n or b"\\" in n or b".." in n.split(b"/")


def oracle(T, rootrel, name, tok):
    """safety: Found bytes must be a regular file's content whose real location is inside the root;
       liveness on clean names: an existing regular file inside the root must be found"""
    root = os.path.join(T, rootrel)
    if not tok.startswith("F:"):
        if not lexical_reject(name) and b"\x00" not in name:
            try:
                cand = os.path.join(root.encode(), name)
                real = os.path.realpath(cand)
                clean = all(seg not in (b"", b".") for seg in name.split(b"/"))
                if clean and os.path.isfile(real) and (real + b"/").startswith(os.path.realpath(root).encode() + b"/"):
                    return ("inside-file-refused", "an existing regular file inside the root is not served: %r" % name)
            except (OSError, ValueError):
                pass
        return None
    parts = tok.split(":")
    got = bytes.fromhex(parts[1]) if parts[1] != "-" else b""
    if lexical_reject(name):
        return ("lexically-forbidden-name-served", "a name with '..' / leading slash / NUL / backslash was served: %r" % name)
    cand = os.path.join(root.encode(), name)
    real = os.path.realpath(cand)
    rroot = os.path.realpath(root).encode()
    if not (real + b"/").startswith(rroot + b"/"):
        return ("served-from-outside-root", "%r resolves to %r, outside %r, and was served (%r)" % (name, real, rroot, got[:40]))
    if not os.path.isfile(real):
        return ("served-non-regular", "%r was served but %r is not a regular file" % (name, real))
    with open(real, "rb") as fh:
        want = fh.read()
    if got != want:
        return ("served-wrong-bytes", "%r served %r, the file holds %r" % (name, got[:40], want[:40]))
    if len(parts) > 2:
        gz = bytes.fromhex(parts[2]) if parts[2] != "-" else b""
        gzp = real + b".gz"
        if os.path.islink(gzp) or not os.path.isfile(gzp) or open(gzp, "rb").read() != gz:
            return ("gzip-variant-from-link-or-outside", "the gzip variant served for %r does not come from a regular sibling file" % name)
    return None


def run(ctx):
    t0 = time.time()
    v = vlib.Verdict(ctx)
    proof = vlib.prove(ctx, "C20", extra_targets=["C20/Extract.vo"])
    if proof["broken"]:
        v.proof_broken(proof["broken"], proof["log_tail"])
    cov = {"evaluations": 0, "distinct_nontrivial": 0, "rule": "", "samples": []}
    model_exe = None
    try:
        model_exe = vlib.build_driver("c20")
    except Exception as e:
        v.harness_broken("model driver failed to build", str(e)[-2000:])
    impl_exe, blog = vlib.build_harness(**HARNESS_OPTS)
    if impl_exe is None:
        v.harness_broken("harness/c20_impl.cpp no longer compiles against /repo/include", blog)
    if model_exe and impl_exe:
        rng = vlib.rng_for(ctx)
        thorough = ctx["tier"] == "thorough"
        T = os.path.realpath(os.path.join(ctx["workdir"], "c20tree"))
        tree = make_tree(rng, T)
        tree.build()
        spec = tree.spec()
        if ctx.get("replay"):
            raw = [l.strip() for l in open(ctx["replay"]) if l.strip() and not l.startswith("#")]
            lines = []
            for l in raw:          # replay lines carry only kind + names; the tree is rebuilt here
                p = l.split(" ")
                lines.append("A %s %s %s %s" % (T, spec, p[-2], p[-1]) if p[0] == "A" else "W %s %s" % (T, p[-1]))
            li, lm, _ = vlib.run_pair(ctx, impl_exe, model_exe, lines, "c20r")
            for a, b, c in zip(raw, li, lm):
                print("case:  %s\nimpl:  %s\nmodel: %s" % (a[:600], b[:3000], c[:3000]))
            cov["evaluations"] = len(lines)
        else:
            nbatches = 24 if not thorough else 400
            per = 60
            batches = []
            for i in range(nbatches):
                kind = "spst" [i % 4] if i % 8 != 7 else "x"
                names = [s.encode() for s in SEEDS] if i < 5 else []
                names += [gen_name(rng) for _ in range(per)]
                batches.append((kind, names))
            lines = ["A %s %s %s %s" % (T, spec, k, ",".join(hx(n) for n in ns)) for k, ns in batches]
            lines.append("W %s %d" % (T, 20000 if not thorough else 400000))
            li, lm, _ = vlib.run_pair(ctx, impl_exe, model_exe, lines, "c20h", timeout=1800)
            total = 0
            nontrivial = 0
            disagree = 0
            stat = {"F": 0, "N": 0, "R": 0}
            for (kind, names), ri, rm in zip(batches, li, lm):
                if ri.startswith("CRASH") or ri.startswith("EXC"):
                    v.property_failure("impl-crashes", "Assets crashed / threw on a lookup (%s)" % ri[:200], "A %s" % kind, ri[:600])
                    continue
                ti, tm = ri.split(" "), rm.split(" ")
                rootrel = {"t": "root/templates", "x": "ext"}.get(kind, "root/static")
                for n, a, b in zip(names, ti, tm):
                    total += 1
                    stat[a[0]] = stat.get(a[0], 0) + 1
                    case = "A %s %s" % (kind, hx(n))
                    bad = oracle(T, rootrel, n, a)
                    if bad:
                        v.property_failure(bad[0], bad[1], case, "impl=%s model=%s" % (a[:200], b[:200]))
                        continue
                    same = (a == b) or (b == "?" and a in ("N", "R")) or (kind == "t" and b == "N" and a == "N")
                    if not same:
                        disagree += 1
                        v.disagreement("C20 correspondence: asset lookup model and implementation differ on a name", case, a[:300], b[:300])
                    else:
                        nontrivial += 1
            race = li[len(batches)] if len(li) > len(batches) else "MISSING"
            if race != "W bad=0":
                v.property_failure("race-served-outside-content", "while the final component was being swapped between a file and a "
                                   "link to the secret, a lookup returned content that is not the inside file's: %s" % race,
                                   "W %d" % (20000 if not thorough else 400000), race)
            cov = {
                "evaluations": total + 1,
                "distinct_nontrivial": nontrivial,
                "rule": "names = 31 seeds (existing files, inside/outside links to files and directories, chains, loops, dangling, "
                        "directories, a link that leaves and re-enters the root, a .gz sibling that is a link to the outside) and "
                        "0..3 mutations each (../ prefixes, dot/dotdot/empty/'...' segments, leading slash, trailing slash, doubled "
                        "separators, backslashes, percent-encoded dots, NUL, 255/256/300-byte components, case swaps, random bytes, "
                        "routing through link directories) looked up in static cached, static per-request, template and "
                        "external-directory mode on a real tree; every result is compared with the model and checked against the "
                        "OS: served bytes must be those of a regular file whose realpath is inside the root; clean names of inside "
                        "files must be served. Plus a race: 20000 (thorough 400000) lookups while the leaf is swapped between a file "
                        "and a link to the secret.",
                "samples": [hx(n) for n in batches[5][1][:3]],
                "status_counts": stat,
                "race": race,
                "disagreements_model_vs_impl": disagree,
            }
        shutil.rmtree(T, ignore_errors=True)
    rc = v.finish()
    ctx["assumptions"] = ["directories are not replaced by links while a lookup runs (outside the property statement)"]
    vlib.write_evidence(ctx, proof, cov, time.time() - t0, len(v.violations))
    return rc
