"""C18 — WebSocket framing round-trips and reassembles under any segmentation.

prove:      coq/C18/Properties.v  (8 theorems)
correspond: harness/c18_impl.cpp (real WebSocketFrame / WebSocketServer / WebSocketClient)
            vs. the extracted model (ocaml/c18_driver.ml) on the same case lines,
            plus property predicates evaluated on the implementation's own outputs.
"""
import os
import time

import vlib

PID = "C18"
MASK_HDR_MAX = 14
HARNESSES = [{"name": "c18_impl"}]
META = {
    "category": "proof",
    "technique": "Coq proof (induction over frame lists / op histories) + differential correspondence with the C++",
    "text": "Nine Coq theorems over an executable model of WebSocketFrame::parse/serialize/checkHeader/isValidUtf8 and the "
            "server/client frame loop: round trip for every well-formed frame with any trailing bytes, parse bounds/progress, "
            "strict prefixes are incomplete, segmentation independence for every cut of every stream of well-formed frames "
            "within the size limit (server and client), reassembly with interleaved control frames, no data frame after a "
            "close frame (server and client, all histories of reads and application sends), bounded buffering (server and "
            "client, ALL byte streams and cuts: unparsed bytes < 14 + max(limit,125), fragments <= limit), hostile headers "
            "fail the connection at once. The last two were refuted on the code as found (C18-F1b1/F1b2/F1b3/F1c1/F1c2) and "
            "hold since the repairs. The model is tied to the code by running the extracted model and the real classes on "
            "the same generated cases every run.",
    "design_ref": "DESIGN.md §7 C18",
    "note": "Trusted: Coq kernel; extraction (ExtrOcamlBasic) + OCaml; harness/c18_impl.cpp (recording engine replaces the "
            "transport; private members reached with #define private public); generator tools/props/c18.py. Modelled not "
            "verified: std::vector/string semantics, the mutexes (_wsMutex/_dataMutex) as atomic sections, the HTTP upgrade "
            "handshake on the server side (HttpServer's request path, C15/C16), SHA-1/Base64 of the client handshake (the expected "
            "Sec-WebSocket-Accept value is a parameter of the handshake model), random mask key generation (any key).",
}

# ---- additions of the translator / tie session (appended to the manifest texts)
META["text"] += " GenTie.v: the upgrade-response cap of the model is the header's current value."


# ------------------------------------------------------------------ helpers

def hx(b):
    return b.hex() if b else "-"


def ser(fin, op, mask, key, payload):
    """independent Python serializer (RFC 6455), used by the generator and as an oracle"""
    b0 = (0x80 if fin else 0) | op
    n = len(payload)
    out = bytearray([b0])
    m = 0x80 if mask else 0
    if n <= 125:
        out.append(m | n)
    elif n <= 0xFFFF:
        out.append(m | 126)
        out += n.to_bytes(2, "big")
    else:
        out.append(m | 127)
        out += n.to_bytes(8, "big")
    if mask:
        out += key
        out += bytes(payload[i] ^ key[i % 4] for i in range(n))
    else:
        out += payload
    return bytes(out)


BOUNDARY_LENS = [0, 1, 2, 124, 125, 126, 127, 128, 65534, 65535, 65536, 65537]

UTF8_POOL = [
    b"", b"a", b"\x7f", b"\xc2\x80", b"\xdf\xbf", b"\xe0\xa0\x80", b"\xef\xbf\xbf", b"\xf0\x90\x80\x80",
    b"\xf4\x8f\xbf\xbf", "héllo wörld €".encode(), "日本語".encode(), "😀".encode(),
    # invalid
    b"\x80", b"\xc0\x80", b"\xc1\xbf", b"\xe0\x9f\xbf", b"\xed\xa0\x80", b"\xed\xbf\xbf", b"\xf0\x8f\xbf\xbf",
    b"\xf4\x90\x80\x80", b"\xf5\x80\x80\x80", b"\xf8\x88\x80\x80\x80", b"\xc2", b"\xe2\x82", b"\xf0\x9f\x98",
    b"\xe2\x28\xa1", b"\xf0\x28\x8c\xbc", b"a\xffb", b"\xfe", b"\xc2\xc2", b"\xe1\x80\xc0", b"\xf1\x80\x80\x7f",
]


def py_utf8_ok(b):
    try:
        b.decode("utf-8", "strict")
        return True
    except UnicodeDecodeError:
        return False


def rand_bytes(rng, n):
    return bytes(rng.getrandbits(8) for _ in range(n))


def rand_text(rng, n):
    """mostly-valid UTF-8 of about n bytes"""
    out = bytearray()
    cps = [0x41, 0x7F, 0x80, 0x7FF, 0x800, 0xFFFF, 0x10000, 0x10FFFF, 0xE9, 0x20AC, 0x1F600]
    while len(out) < n:
        cp = rng.choice(cps) if rng.random() < 0.5 else rng.randrange(0x20, 0x7F)
        out += chr(cp).encode("utf-8")
    return bytes(out)


# ------------------------------------------------------- message/stream generator

def gen_messages(rng, big=False):
    """a list of logical messages: ('T'|'B', payload)"""
    msgs = []
    for _ in range(rng.randint(1, 4)):
        kind = rng.choice("TB")
        r = rng.random()
        if big and r < 0.15:
            n = rng.choice([65535, 65536, 70000])
        elif r < 0.3:
            n = rng.choice([0, 1, 125, 126, 127])
        else:
            n = rng.randint(0, 300)
        if kind == "T":
            p = rand_text(rng, n) if rng.random() < 0.85 else rng.choice(UTF8_POOL[12:]) + rand_bytes(rng, 2)
        else:
            p = rand_bytes(rng, n)
        msgs.append((kind, p))
    return msgs


def frames_of(rng, msgs, masked, with_close):
    """fragment messages, interleave control frames; returns list of (fin, op, payload)"""
    frames = []
    for kind, p in msgs:
        op = 1 if kind == "T" else 2
        k = rng.choice([1, 1, 2, 3, 4])
        cuts = sorted(rng.randint(0, len(p)) for _ in range(k - 1))
        parts = [p[a:b] for a, b in zip([0] + cuts, cuts + [len(p)])]
        for i, part in enumerate(parts):
            frames.append((i == len(parts) - 1, op if i == 0 else 0, part))
            if rng.random() < 0.35:
                frames.append((True, rng.choice([9, 10]), rand_bytes(rng, rng.choice([0, 1, 5, 125]))))
    if with_close:
        code = rng.choice([1000, 1001, 1002, 3000, 4999])
        reason = rand_text(rng, rng.randint(0, 20))[:123]
        frames.append((True, 8, code.to_bytes(2, "big") + reason if rng.random() < 0.9 else b""))
    return frames


def stream_of(rng, frames, masked):
    out = bytearray()
    for fin, op, p in frames:
        out += ser(fin, op, masked, rand_bytes(rng, 4), p)
    return bytes(out)


def expected_events(role, maxsz, frames):
    """independent oracle for a VALID stream (reassembly, pongs, utf-8, close echo, size limit)"""
    evs = []
    frag, fragop = b"", 0
    alive = True
    close_sent = False      # server closeSent / client _closeSent
    echoed = False          # client _closeEchoed
    too_big = "s:18:" + hx((1009).to_bytes(2, "big") + b"Message Too Big")
    for fin, op, p in frames:
        if not alive:
            break
        if op not in (8, 9, 10) and len(p) > maxsz:
            # refused as soon as the header is known: the connection is failed, nothing more is read
            if not close_sent:
                evs.append(too_big)
            evs += ["e", "c:1009:" + hx(b"Message Too Big")] + (["k"] if role == "S" else [])
            alive = False
            break
        if op in (0, 1, 2):
            if op in (1, 2):
                frag, fragop = p, op
            else:
                frag += p
            if len(frag) > maxsz:
                evs += [too_big, "e"]
                close_sent = True
                frag, fragop = b"", 0
                continue
            if fin:
                if fragop == 1:
                    if role == "S" and not py_utf8_ok(frag):
                        evs.append("s:18:" + hx((1007).to_bytes(2, "big") + b"Invalid UTF-8"))
                        close_sent = True
                    else:
                        evs.append("t:" + hx(frag))
                elif fragop == 2:
                    evs.append("b:" + hx(frag))
                frag, fragop = b"", 0
        elif op == 9:
            evs.append("s:110:" + hx(p))
        elif op == 8:
            code, reason = (int.from_bytes(p[:2], "big"), p[2:]) if len(p) >= 2 else (1005, b"")
            if (role == "S" and not close_sent) or (role == "C" and not echoed):
                evs.append("s:18:" + hx(code.to_bytes(2, "big") + reason))
                close_sent = True
                echoed = True
            evs.append("c:%d:%s" % (code, hx(reason)))
            if role == "S":
                evs.append("k")
                alive = False
    return evs


def chunks_case(role, maxsz, chunks, extra_ops=()):
    ops = ["F:" + hx(c) for c in chunks] + list(extra_ops)
    return "R %s %d %s" % (role, maxsz, ";".join(ops) if ops else "-")


def split_at(b, cuts):
    cuts = sorted(set(c for c in cuts if 0 < c < len(b)))
    return [b[a:c] for a, c in zip([0] + cuts, cuts + [len(b)])]


# ------------------------------------------------------------------ case builders

def build_cases(ctx):
    rng = vlib.rng_for(ctx)
    thorough = ctx["tier"] == "thorough"
    cases = []   # (line, meta)

    def add(line, **meta):
        cases.append((line, meta))

    # corpus first
    cdir = os.path.join(vlib.VERIF, "corpus", PID)
    if os.path.isdir(cdir):
        for fn in sorted(os.listdir(cdir)):
            for line in open(os.path.join(cdir, fn)):
                line = line.strip()
                if line and not line.startswith("#"):
                    add(line, kind="corpus")

    # 1. round trips at every encoding boundary, all opcodes
    nrt = 120 if not thorough else 1500
    lens = list(BOUNDARY_LENS)
    for op in range(16):
        for mask in (0, 1):
            n = rng.choice([0, 1, 125]) if op >= 8 else rng.choice(lens)
            key = rand_bytes(rng, 4)
            fin = 1 if op >= 8 else rng.randint(0, 1)
            rest = rand_bytes(rng, rng.choice([0, 0, 1, 7]))
            add("RT %d %d %d %s %s %s" % (fin, op, mask, key.hex(), hx(rand_bytes(rng, n)), hx(rest)),
                kind="rt", fin=fin, op=op, mask=mask, n=n)
    for n in lens:
        for mask in (0, 1):
            key = rand_bytes(rng, 4)
            add("RT 1 2 %d %s %s %s" % (mask, key.hex(), hx(rand_bytes(rng, n)), hx(rand_bytes(rng, 3))),
                kind="rt", fin=1, op=2, mask=mask, n=n)
    for _ in range(nrt):
        op = rng.choice([0, 1, 2, 2, 2, 8, 9, 10, rng.randrange(16)])
        ctl = op in (8, 9, 10)
        n = rng.randint(0, 125) if ctl else rng.choice([rng.randint(0, 400), rng.choice(lens[:8])])
        fin = 1 if ctl else rng.randint(0, 1)
        mask = rng.randint(0, 1)
        add("RT %d %d %d %s %s %s" % (fin, op, mask, rand_bytes(rng, 4).hex(), hx(rand_bytes(rng, n)),
                                      hx(rand_bytes(rng, rng.choice([0, 2, 20])))),
            kind="rt", fin=fin, op=op, mask=mask, n=n)

    # 2. parse on mutated / truncated / hostile headers
    hostile = [
        bytes([0x82, 0x7F]) + b"\xff" * 8, bytes([0x82, 0x7F]) + b"\xff" * 8 + b"abcd",
        bytes([0x82, 0xFF]) + b"\xff" * 8 + b"abcd" + b"x" * 20,
        bytes([0x82, 0x7F]) + (2 ** 63).to_bytes(8, "big") + b"x" * 20,
        bytes([0x82, 0x7F]) + (2 ** 64 - 10).to_bytes(8, "big") + b"x" * 5,
        bytes([0x82, 0x7F]) + (2 ** 64 - 14).to_bytes(8, "big") + b"x" * 40,
        bytes([0x82, 0xFF]) + (2 ** 64 - 14).to_bytes(8, "big") + b"x" * 40,
        bytes([0x89, 0x7E, 0x00, 0x7E]) + b"x" * 126, bytes([0x09, 0x00]), bytes([0x88, 0x7E, 0, 1, 0]),
        bytes([0xC1, 0x01, 0x41]), bytes([0x91, 0x05]) + b"hello", bytes([0xF2, 0x80, 1, 2, 3, 4]),
        bytes([0x82, 0x7E, 0x00]), bytes([0x82, 0x7E]), bytes([0x82]), b"",
    ]
    for h in hostile:
        add("P " + hx(h), kind="parse-hostile")
    nmut = 200 if not thorough else 4000
    for _ in range(nmut):
        n = rng.choice([0, 3, 125, 126, 200])
        mask = rng.randint(0, 1)
        w = bytearray(ser(rng.randint(0, 1), rng.choice([0, 1, 2, 8, 9, 10]), mask, rand_bytes(rng, 4), rand_bytes(rng, n)))
        r = rng.random()
        if r < 0.4:
            w = w[:rng.randint(0, min(len(w), 16))]
        elif r < 0.8 and w:
            for _ in range(rng.randint(1, 3)):
                w[rng.randrange(min(len(w), 14))] = rng.getrandbits(8)
        else:
            w = bytearray(rand_bytes(rng, rng.randint(0, 20)))
        add("P " + hx(bytes(w)), kind="parse-mut")

    # 3. UTF-8
    for b in UTF8_POOL:
        add("U " + hx(b), kind="utf8", data=b)
    for _ in range(150 if not thorough else 3000):
        b = bytearray(rand_text(rng, rng.randint(1, 12)))
        if rng.random() < 0.6 and b:
            i = rng.randrange(len(b))
            r = rng.random()
            if r < 0.4:
                b[i] = rng.getrandbits(8)
            elif r < 0.7:
                del b[i]
            else:
                b = b[:i]
        add("U " + hx(bytes(b)), kind="utf8", data=bytes(b))

    # 4. close payloads
    for p in [b"", b"\x03", b"\x03\xe8", b"\x03\xe8bye", rand_bytes(rng, 10)]:
        add("C " + hx(p), kind="closepayload")

    # 5. valid streams x segmentations, both roles
    nstreams = 40 if not thorough else 600
    for si in range(nstreams):
        role = "S" if si % 2 == 0 else "C"
        big = thorough and rng.random() < 0.1
        msgs = gen_messages(rng, big=big)
        with_close = rng.random() < 0.5
        frames = frames_of(rng, msgs, role == "S", with_close)
        maxsz = rng.choice([16, 64, 300, 1 << 20])
        if big:
            maxsz = 1 << 20
        elif rng.random() < 0.35:
            # the limit sits exactly at (or one below) the largest frame payload / the largest message
            sizes = [len(p) for _, op, p in frames if op not in (8, 9, 10)] + [len(m[1]) for m in msgs]
            maxsz = max(0, max(sizes) - rng.choice([0, 0, 1]))
        stream = stream_of(rng, frames, masked=(role == "S"))
        exp = expected_events(role, maxsz, frames)
        gid = "s%d" % si
        add(chunks_case(role, maxsz, [stream]), kind="stream", group=gid, whole=True, expect=exp, role=role, maxsz=maxsz)
        ncut = 6 if not thorough else 20
        for _ in range(ncut):
            k = rng.choice([1, 2, 3, 8])
            cuts = [rng.randint(1, max(1, len(stream) - 1)) for _ in range(k)]
            if rng.random() < 0.3:  # cut inside a header
                cuts.append(rng.randint(1, min(len(stream), 14)))
            add(chunks_case(role, maxsz, split_at(stream, cuts)), kind="stream", group=gid, whole=False,
                expect=exp, role=role, maxsz=maxsz)
        lim = 64 if not thorough else 200
        if len(stream) <= lim:
            for c in range(1, len(stream)):
                add(chunks_case(role, maxsz, split_at(stream, [c])), kind="stream", group=gid, whole=False,
                    expect=exp, role=role, maxsz=maxsz)
        if len(stream) <= 24 or (thorough and len(stream) <= 60):
            add(chunks_case(role, maxsz, [stream[i:i + 1] for i in range(len(stream))]), kind="stream", group=gid,
                whole=False, expect=exp, role=role, maxsz=maxsz)

    # 6. histories with application sends racing the close handshake
    nh = 120 if not thorough else 3000
    for _ in range(nh):
        role = rng.choice("SC")
        maxsz = rng.choice([16, 64, 300])
        ops = []
        for _ in range(rng.randint(2, 9)):
            r = rng.random()
            if r < 0.45:
                frames = frames_of(rng, gen_messages(rng)[:1], role == "S", rng.random() < 0.3)
                st = stream_of(rng, frames, masked=(role == "S"))
                for c in split_at(st, [rng.randint(1, max(1, len(st) - 1))]):
                    ops.append("F:" + hx(c))
            elif r < 0.6:
                ops.append("T:" + hx(rand_text(rng, rng.randint(0, 10))))
            elif r < 0.7:
                ops.append("B:" + hx(rand_bytes(rng, rng.randint(0, 10))))
            elif r < 0.8:
                ops.append("G:" + hx(rand_bytes(rng, rng.randint(0, 4))))
            else:
                ops.append("X:%d:%s" % (rng.choice([1000, 1001, 4000]), hx(rand_text(rng, rng.randint(0, 6)))))
        add("R %s %d %s" % (role, maxsz, ";".join(ops)), kind="history", role=role, maxsz=maxsz)

    # 7. hostile streams: bounded buffering / no throw
    nb = 60 if not thorough else 1500
    for i in range(nb):
        role = rng.choice("SC")
        maxsz = rng.choice([16, 64, 300])
        r = rng.random()
        if r < 0.25:    # declared length beyond the maximum, then data
            declared = rng.choice([maxsz + 1, maxsz * 4, 70000, 2 ** 32, 2 ** 62, 2 ** 63, 2 ** 64 - 1])
            hdr = bytes([0x82, 0x80 | 127]) + declared.to_bytes(8, "big") + rand_bytes(rng, 4) \
                if declared > 65535 else bytes([0x82, 0x80 | 126]) + declared.to_bytes(2, "big") + rand_bytes(rng, 4)
            chunks = [hdr] + [rand_bytes(rng, rng.randint(20, 200)) for _ in range(rng.randint(1, 4))]
        elif r < 0.4:   # control-frame protocol error, then data
            hdr = rng.choice([bytes([0x89, 0x7E, 0, 200]), bytes([0x09, 0x85]) + rand_bytes(rng, 4),
                              bytes([0x88, 0x7F]) + (300).to_bytes(8, "big")])
            chunks = [hdr] + [rand_bytes(rng, rng.randint(20, 200)) for _ in range(rng.randint(1, 4))]
        elif r < 0.55:  # fragments within the limit that never end (no FIN): the fragment buffer must stay bounded
            n = rng.randint(3, 12)
            fr = [(False, 2 if i == 0 or rng.random() < 0.1 else 0, rand_bytes(rng, rng.randint(1, maxsz))) for i in range(n)]
            if rng.random() < 0.3:
                fr.append((True, 9, rand_bytes(rng, 3)))
            st = stream_of(rng, fr, masked=(role == "S"))
            chunks = split_at(st, [rng.randint(1, max(1, len(st) - 1)) for _ in range(rng.randint(0, 3))])
        else:           # mutated valid stream
            frames = frames_of(rng, gen_messages(rng), role == "S", rng.random() < 0.5)
            st = bytearray(stream_of(rng, frames, masked=(role == "S")))
            for _ in range(rng.randint(1, 4)):
                if st:
                    st[rng.randrange(len(st))] = rng.getrandbits(8)
            chunks = split_at(bytes(st), [rng.randint(1, max(1, len(st) - 1)) for _ in range(rng.randint(0, 3))])
        add(chunks_case(role, maxsz, chunks), kind="hostile", role=role, maxsz=maxsz)
    # 8. the client's HTTP upgrade response (not modelled in Coq; judged by upgrade_oracle): valid 101 responses cut
    #    anywhere, wrong status / wrong accept value, and header blocks that never end (must be refused at 64 KiB)
    ACCEPT = b"s3pPLMBiTxaQ9kYGzzhZRbK+xOo="
    for i in range(24 if not thorough else 300):
        r = rng.random()
        proto = rng.choice([b"", b"chat", b"v1.json"])
        extra = b"".join(b"X-%s: %s\r\n" % (rand_text(rng, 3), rand_text(rng, rng.randint(0, 30))) for _ in range(rng.randint(0, 3)))
        if r < 0.45:
            resp = b"HTTP/1.1 101 Switching Protocols\r\nUpgrade: websocket\r\nConnection: Upgrade\r\n" + extra + \
                   b"Sec-WebSocket-Accept: " + ACCEPT + b"\r\n" + (b"Sec-WebSocket-Protocol: " + proto + b"\r\n" if proto else b"") + b"\r\n"
        elif r < 0.6:
            resp = b"HTTP/1.1 " + rng.choice([b"200 OK", b"400 Bad Request", b"101x"]) + b"\r\n" + extra + b"\r\n"
        elif r < 0.75:
            resp = b"HTTP/1.1 101 Switching Protocols\r\n" + extra + b"Sec-WebSocket-Accept: " + rng.choice([b"AAAA", ACCEPT[:-1], b""]) + b"\r\n\r\n"
        else:
            resp = b"HTTP/1.1 101 Switching Protocols\r\n" + b"X-Pad: " + b"a" * rng.choice([70000, 140000])
        cuts = [rng.randint(1, max(1, len(resp) - 1)) for _ in range(rng.randint(0, 3))]
        chunks = split_at(resp, cuts)
        if len(resp) > 65536:
            chunks = [resp[j:j + 30000] for j in range(0, len(resp), 30000)] + [b"b" * 5000]
        add("RU 1024 " + ";".join("F:" + hx(c) for c in chunks), kind="upgrade", expect=upgrade_oracle(chunks))
    # ... and the whole life of a connection: accepted upgrade, then a frame stream, cut anywhere (model only)
    for i in range(10 if not thorough else 150):
        resp = b"HTTP/1.1 101 Switching Protocols\r\nSec-WebSocket-Accept: " + ACCEPT + b"\r\n\r\n"
        frames = frames_of(rng, gen_messages(rng), False, rng.random() < 0.5)
        st = resp + stream_of(rng, frames, masked=False)
        chunks = split_at(st, [rng.randint(1, max(1, len(st) - 1)) for _ in range(rng.randint(0, 4))])
        add("RU 64 " + ";".join("F:" + hx(c) for c in chunks), kind="upgrade-stream")
    return cases


def upgrade_oracle(chunks):
    """what WebSocketClient must do with its HTTP upgrade response: (events, bytes kept, alive)"""
    buf, evs = b"", []
    for c in chunks:
        buf += c
        end = buf.find(b"\r\n\r\n")
        if end < 0:
            if len(buf) > 65536:
                return ["e"], 0, "0"
            continue
        if not buf.startswith(b"HTTP/1.1 101"):
            return ["e"], 0, "0"
        hdr = buf[:end]
        val = b""
        p = hdr.find(b"Sec-WebSocket-Accept:")
        if p >= 0:
            val = hdr[p + 21:].split(b"\r\n", 1)[0].strip(b" \t")
        if val != b"s3pPLMBiTxaQ9kYGzzhZRbK+xOo=":
            return ["e"], 0, "0"
        proto = b""
        p = hdr.find(b"Sec-WebSocket-Protocol:")
        if p >= 0:
            proto = hdr[p + 23:].split(b"\r\n", 1)[0].strip(b" \t")
        return ["o:" + hx(proto)], 0, "1"
    return [], len(buf), "1"


# ---------------------------------------------------------------------- predicates

def parse_R(line):
    """'ev ev ... | buf=N head=H alive=A' -> (events, buf, head, alive)"""
    if " | " in line:
        evs, tail = line.rsplit(" | ", 1)
    elif line.startswith("| "):
        evs, tail = "", line[2:]
    else:
        return None
    kv = dict(x.split("=", 1) for x in tail.split())
    return [e for e in evs.split(" ") if e], int(kv.get("buf", 0)), kv.get("head", "-"), kv.get("alive", "0"), int(kv.get("frag", 0))


def ndac(events):
    seen = False
    for e in events:
        if e.startswith("s:"):
            op = e.split(":")[1][1:]
            if seen and op in ("0", "1", "2"):
                return False
            if op == "8":
                seen = True
    return True


def head_info(head_hex):
    """(is_control_protocol_error, declared_len or None) of the stuck buffer head"""
    if head_hex in ("-", ""):
        return False, None
    b = bytes.fromhex(head_hex)
    if len(b) < 2:
        return False, None
    op, fin = b[0] & 15, b[0] & 0x80
    l7 = b[1] & 0x7F
    if op in (8, 9, 10) and (l7 > 125 or not fin):
        return True, None
    if l7 == 126:
        return False, int.from_bytes(b[2:4], "big") if len(b) >= 4 else None
    if l7 == 127:
        return False, int.from_bytes(b[2:10], "big") if len(b) >= 10 else None
    return False, l7


def evaluate(ctx, v, cases, impl, model):
    stats = {"kinds": {}, "nontrivial": set(), "disagree": 0}
    groups = {}
    for (line, meta), ri, rm in zip(cases, impl, model):
        k = meta["kind"]
        stats["kinds"][k] = stats["kinds"].get(k, 0) + 1
        failed_here = False
        # ---- implementation must never throw / crash
        if ri.startswith("EXC") or ri.startswith("CRASH"):
            v.property_failure("impl-throws-or-crashes", "endpoint threw or crashed on input (%s)" % ri, line, ri)
            failed_here = True
        # ---- predicates on the implementation's own output
        if k == "rt" and not failed_here:
            w = line.split(" ")
            fin, op, mask, key, pl = w[1], w[2], w[3], w[4], w[5]
            n = 0 if pl == "-" else len(pl) // 2
            ctl = int(op) in (8, 9, 10)
            wf = (not ctl) or (fin == "1" and n <= 125)
            if wf:
                exp = "P %s %s %s %s %s" % (fin, op, mask, key if mask == "1" else "00000000", pl)
                parts = ri.split(" ")
                ok = ri.startswith(exp + " ") and len(parts) == 8 and parts[6] == parts[7]
                if not ok:
                    v.property_failure("roundtrip", "serialize/parse round trip fails (op=%s len=%d mask=%s)" % (op, n, mask),
                                       line, "impl=" + ri[:300])
                    failed_here = True
                else:
                    stats["nontrivial"].add(line)
        elif k == "utf8" and not failed_here:
            exp = "1" if py_utf8_ok(meta["data"]) else "0"
            if ri != exp:
                v.property_failure("utf8", "isValidUtf8 disagrees with a strict UTF-8 decoder on %s" % hx(meta["data"]),
                                   line, "impl=%s expected=%s" % (ri, exp))
                failed_here = True
            else:
                stats["nontrivial"].add(line)
        elif k in ("stream", "history", "hostile", "corpus") and line.startswith("R ") and not failed_here:
            pr = parse_R(ri)
            if pr is None:
                v.property_failure("impl-output", "unparsable harness output", line, ri)
                continue
            evs, buf, head, alive, frag = pr
            role = line.split(" ")[1]
            maxsz = int(line.split(" ")[2])
            if not ndac(evs):
                v.property_failure("%s-data-after-close" % ("server" if role == "S" else "client"),
                                   "a data frame was sent after a close frame", line, "events=" + " ".join(evs)[:400])
                failed_here = True
            ctl_err, declared = head_info(head)
            # theorem ws_buffers_bounded: fewer than one maximal header plus one acceptable payload wait in the buffer,
            # and the fragments collected for a message stay within the limit - in both roles
            if buf >= MASK_HDR_MAX + max(maxsz, 125):
                if role == "S":
                    sig = "server-buffers-after-protocol-error" if ctl_err else "server-buffers-oversize-declared-frame"
                    v.property_failure(sig, "server keeps %d bytes buffered with maxFrameSize=%d" % (buf, maxsz), line,
                                       "head=%s" % head)
                else:
                    v.property_failure("client-buffers-without-limit",
                                       "client keeps %d bytes buffered behind a header it can never complete / beyond its "
                                       "message size limit %d" % (buf, maxsz), line, "head=%s" % head)
                failed_here = True
            if frag > maxsz:
                v.property_failure("%s-fragment-buffer-unbounded" % ("server" if role == "S" else "client"),
                                   "%d bytes of fragments are kept for a message although the limit is %d (a peer that never "
                                   "sends FIN makes the buffer grow without bound)" % (frag, maxsz), line, ri[-200:])
                failed_here = True
            if k == "stream":
                g = groups.setdefault(meta["group"], {"whole": None, "lines": []})
                if meta["whole"]:
                    g["whole"] = (line, evs)
                g["lines"].append((line, evs))
                if evs != meta["expect"]:
                    v.property_failure("reassembly", "delivered events differ from the messages the stream encodes",
                                       line, "impl=%s\nexpected=%s" % (" ".join(evs)[:600], " ".join(meta["expect"])[:600]))
                    failed_here = True
                elif evs:
                    stats["nontrivial"].add(line)
            elif evs:
                stats["nontrivial"].add(line)
        elif k == "upgrade" and not failed_here:
            pr = parse_R(ri)
            evs_e, buf_e, alive_e = meta["expect"]
            if pr is None or (pr[0], pr[1], pr[3]) != (evs_e, buf_e, alive_e):
                sig = "client-upgrade-response-unbounded" if pr and pr[1] > 65536 else "client-upgrade-handshake"
                v.property_failure(sig, "WebSocketClient and the HTTP upgrade response: %s, expected events=%s buf=%d alive=%s "
                                   "(a header block that never ends must be refused at 64 KiB, a failed upgrade reads nothing more)"
                                   % (ri[-120:], evs_e, buf_e, alive_e), line[:400], ri[-300:])
                failed_here = True
            else:
                stats["nontrivial"].add(line)
        elif k in ("parse-hostile", "parse-mut", "closepayload") and not failed_here:
            if ri.startswith("P "):
                stats["nontrivial"].add(line)
                parts = ri.split(" ")
                consumed = int(parts[6])
                inlen = 0 if line.split(" ")[1] == "-" else len(line.split(" ")[1]) // 2
                if consumed > inlen:
                    v.property_failure("parse-overread", "parse reports consuming more than it was given", line, ri)
                    failed_here = True
        # ---- correspondence
        if ri != rm:
            stats["disagree"] += 1
            if not failed_here:
                v.disagreement("C18 correspondence: model and implementation differ on a %s case" % k, line, ri, rm)
    # segmentation independence on the implementation
    for gid, g in groups.items():
        if g["whole"] is None:
            continue
        wl, wev = g["whole"]
        for line, evs in g["lines"]:
            if evs != wev:
                v.property_failure("segmentation", "events depend on how the stream is cut into reads", line,
                                   "cut=%s\nwhole=%s" % (" ".join(evs)[:500], " ".join(wev)[:500]))
                break
    return stats


def witness_cases():
    """fixed witnesses of the findings C18-F1b1/F1b2/F1b3/F1c1/F1c2 (all repaired); always run"""
    big = bytes([0x82, 0xFF]) + (2 ** 62).to_bytes(8, "big") + b"\x01\x02\x03\x04"
    nofin = b"".join(ser(False, 2 if i == 0 else 0, True, b"\x01\x02\x03\x04", b"\x07" * 12) for i in range(8))
    nofin_c = b"".join(ser(False, 2 if i == 0 else 0, False, b"\x00\x00\x00\x00", b"\x07" * 12) for i in range(8))
    return [
        ("R S 16 F:%s" % hx(nofin), {"kind": "hostile", "role": "S", "maxsz": 16}),
        ("R C 16 F:%s" % hx(nofin_c), {"kind": "hostile", "role": "C", "maxsz": 16}),
        ("R C 16 F:%s;F:%s" % (hx(bytes([0x89, 0x7E, 0, 200])), hx(b"\x07" * 200)), {"kind": "hostile", "role": "C", "maxsz": 16}),
        ("R C 100 X:1000:-;T:6869;G:01", {"kind": "history", "role": "C", "maxsz": 100}),
        ("R C 100 X:1000:-;T:6869", {"kind": "history", "role": "C", "maxsz": 100}),
        ("R S 16 F:%s;F:%s" % (hx(big), hx(b"\x07" * 200)), {"kind": "hostile", "role": "S", "maxsz": 16}),
        ("R S 16 F:%s;F:%s" % (hx(bytes([0x89, 0xFE, 0, 200])), hx(b"\x07" * 200)), {"kind": "hostile", "role": "S", "maxsz": 16}),
        ("R C 16 F:%s;F:%s" % (hx(bytes([0x82, 0x7F]) + (2 ** 62).to_bytes(8, "big")), hx(b"\x07" * 200)),
         {"kind": "hostile", "role": "C", "maxsz": 16}),
    ]


def run(ctx):
    t0 = time.time()
    v = vlib.Verdict(ctx)
    proof = vlib.prove(ctx, "C18", extra_targets=["C18/Extract.vo"])
    if proof["broken"]:
        v.proof_broken(proof["broken"], proof["log_tail"])
    cov = {"evaluations": 0, "distinct_nontrivial": 0, "rule": "", "samples": []}
    model_exe = None
    try:
        model_exe = vlib.build_driver("c18")
    except Exception as e:  # extraction/driver failure is a broken tie
        v.harness_broken("model driver failed to build", str(e)[-2000:])
    impl_exe, blog = vlib.build_harness("c18_impl")
    if impl_exe is None:
        v.harness_broken("harness/c18_impl.cpp no longer compiles against /repo/include", blog)
    if model_exe and impl_exe:
        if ctx.get("replay"):
            cases = [(l.strip(), {"kind": "corpus"}) for l in open(ctx["replay"]) if l.strip() and not l.startswith("#")]
        else:
            cases = witness_cases() + build_cases(ctx)
        li, lm, logs = vlib.run_pair(ctx, impl_exe, model_exe, [c[0] for c in cases], "c18", timeout=3000)
        stats = evaluate(ctx, v, cases, li, lm)
        if ctx.get("replay"):
            for (line, _), a, b in zip(cases, li, lm):
                print("case:  %s\nimpl:  %s\nmodel: %s" % (line[:300], a[:600], b[:600]))
        cov = {
            "evaluations": len(cases),
            "distinct_nontrivial": len(stats["nontrivial"]),
            "rule": "seeded structure-aware generator (round trips at every length-encoding boundary and opcode; "
                    "hostile/mutated headers; UTF-8 boundary code points; protocol-aware message streams x random cuts "
                    "+ all single cuts of short streams + byte-at-a-time; histories with application sends racing close; "
                    "hostile streams). A case is non-trivial when the implementation parsed a frame / produced events and "
                    "the property predicate evaluated on it (round trip equal, expected deliveries equal) held; distinct = "
                    "distinct case lines.",
            "samples": [c[0][:300] for c in cases[:3]] + [c[0][:300] for c in cases[len(cases) // 2:len(cases) // 2 + 2]],
            "case_kinds": stats["kinds"],
            "disagreements_model_vs_impl": stats["disagree"],
            "impl_rc": logs[0], "model_rc": logs[2],
        }
        if logs[0] not in (0,) and not any(x["sig"] == "impl-throws-or-crashes" for x in v.violations):
            v.property_failure("impl-throws-or-crashes", "harness exited abnormally (sanitizer report?)", "", logs[1])
    rc = v.finish()
    ctx["assumptions"] = [
        "std::vector/std::string/std::unordered_map behave as sequences/maps; BufferView indexing is in-bounds (checked by ASan/UBSan in the harness run, a test)",
        "the transport below sendRaw()/closeSession() is replaced by a recording engine: ordering of sends is the call order",
        "threads: the model is sequential per connection (reads are delivered by one I/O thread; concurrent application sends are serialised by _wsMutex on the server)",
    ]
    vlib.write_evidence(ctx, proof, cov, time.time() - t0, len(v.violations))
    return rc
