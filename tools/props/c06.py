"""C06 — UDP keeps datagram boundaries and the peer-to-session mapping.

prove:      coq/C06/Properties.v
correspond: harness/c06_impl.cpp (real UdpEngine on loopback, raw UDP sockets as peers, scripted kernel
            answers for send/sendto, GC run on the I/O thread with the monotonic clock moved) vs. the
            extracted model; plus property oracles evaluated directly on the implementation's output.
"""
import os
import time

import vlib

PID = "C06"
HARNESS_OPTS = {"name": "c06_impl", "libs": "-lpthread -ldl"}
HARNESSES = [HARNESS_OPTS]
META = {
    "category": "proof",
    "technique": "Coq proof (invariants over the engine's bookkeeping, induction over histories) + differential correspondence",
    "text": "Coq theorems over an executable model of UdpEngine's I/O-thread bookkeeping (sessions, peer index, listener and "
            "client out-queues, scripted kernel answers, idle GC): every non-empty datagram read on a listener produces "
            "exactly one data event with the complete payload on a session whose peer is the sender (preceded by one accept "
            "iff the sender is not indexed); the peer index is well formed in every reachable state; an index entry survives "
            "every operation that does not close its own session (no new accept, not redirected by closing another session); "
            "every emitted datagram is byte-identical to one send command, addressed to that session's peer, and no send "
            "command is emitted twice (also through EAGAIN queues, queue overflow and hard errors). Tied to the code by "
            "running generated histories on the real engine over loopback and on the extracted model.",
    "design_ref": "DESIGN.md §7 C06",
    "note": "Trusted: Coq kernel; extraction + OCaml driver; harness/c06_impl.cpp (send/sendto interposition, barrier "
            "datagrams, private access); Python generator/oracles. Modelled not verified: the kernel's UDP stack (loopback "
            "delivery, recvfrom truncation to ioReadChunk), epoll readiness, getaddrinfo, the command queue between API "
            "threads and the I/O thread (commands are executed one at a time in order), std::unordered_map. The peer index "
            "is keyed by address only (not by listener): a peer talking to two listeners lands on one session - modelled as is.",
}


def hx(b):
    return bytes(b).hex() if b else "-"


def payload_bytes(spec):
    if spec.startswith("@"):
        ln, seed = spec[1:].split(".")
        ln, seed = int(ln), int(seed)
        base = (seed * 31) & 0xFFFFFFFF
        return bytes(((base + i * 7 + (i >> 8)) & 0xFF) for i in range(ln))
    return b"" if spec == "-" else bytes.fromhex(spec)


def digest(b):
    if len(b) <= 24:
        return hx(b)
    h = 2166136261
    for c in b:
        h = ((h ^ c) * 16777619) & 0xFFFFFFFF
    return "@%d.%d" % (len(b), h)


class Sim:
    """generator-side mirror of the engine's bookkeeping (keeps generated ops meaningful)"""

    def __init__(self, chunk, maxq, cbp, maxsess, idle, nl):
        self.chunk, self.maxq, self.cbp, self.maxsess, self.idle, self.nl = chunk, maxq, cbp, maxsess, idle, nl
        self.sess = {}      # sid -> [role, peer, last, lid]
        self.idx = {}
        self.lq = {l: [] for l in range(1, nl + 1)}
        self.cq = {}
        self.nxt = 1
        self.now = 0

    def close(self, sid):
        s = self.sess.pop(sid, None)
        if s is None:
            return
        if s[0] == "P" and self.idx.get(s[1]) == sid:
            del self.idx[s[1]]
        self.cq.pop(sid, None)

    def full(self):
        return self.maxsess != 0 and len(self.sess) >= self.maxsess

    def apply(self, op):
        p = op.split(":")
        k = p[0]
        if k.startswith("t="):
            self.now = int(k[2:])
        elif k == "r":
            lid, peer, pl = int(p[1]), int(p[2]), p[3]
            if pl == "-":
                return
            if peer in self.idx:
                self.sess[self.idx[peer]][2] = self.now
            elif not self.full():
                self.sess[self.nxt] = ["P", peer, self.now, lid]
                self.idx[peer] = self.nxt
                self.nxt += 1
        elif k == "q":
            sid = int(p[1])
            if sid in self.sess and p[3] != "-":
                self.sess[sid][2] = self.now
        elif k == "c":
            self.sess[self.nxt] = ["C", int(p[1]), self.now, 0]
            self.cq[self.nxt] = []
            self.nxt += 1
        elif k == "v":
            lid, peer = int(p[1]), int(p[2])
            sid = self.nxt
            self.nxt += 1
            if lid in self.lq and not self.full():
                self.sess[sid] = ["P", peer, self.now, lid]
                self.idx.setdefault(peer, sid)
        elif k == "s":
            sid, a = int(p[1]), p[3]
            if p[2] == "-" or sid not in self.sess:
                return
            s = self.sess[sid]
            q = self.cq[sid] if s[0] == "C" else self.lq[s[3]]
            if a == "o":
                s[2] = self.now
            elif a == "e":
                self.close(sid)
            else:
                q.append(p[2])
                if len(q) > self.maxq:
                    if self.cbp:
                        self.close(sid)
                    else:
                        q.pop(0)
        elif k in ("f", "g"):
            key = int(p[1])
            q = self.lq.get(key) if k == "f" else self.cq.get(key)
            if q is None:
                return
            for a in p[2]:
                if not q:
                    break
                if a == "o":
                    q.pop(0)
                elif a == "a":
                    break
                elif k == "f":
                    q.pop(0)
                else:
                    self.close(key)
                    break
        elif k == "x":
            self.close(int(p[1]))
        elif k == "G":
            if self.idle > 0:
                for sid in [s for s, v in self.sess.items() if self.now - v[2] > self.idle * 1000]:
                    self.close(sid)


SIZES = [1, 2, 3, 8, 24, 25, 512, 1472, 1473, 2047, 2048, 2049, 9000, 65506, 65507]


def gen_case(rng, nops, big):
    chunk = 65536 if rng.random() < 0.85 else 2048
    maxq = rng.choice([1, 2, 3, 1024])
    cbp = rng.choice([0, 1])
    maxsess = rng.choice([0, 0, 0, 2, 3])
    idle = 10
    nl = rng.choice([1, 1, 2])
    np_ = rng.choice([2, 3, 4])
    sim = Sim(chunk, maxq, cbp, maxsess, idle, nl)
    ops = []
    cnt = [0]

    def payload():
        cnt[0] += 1
        r = rng.random()
        if r < 0.6:
            return hx(bytes([cnt[0] & 0xFF, (cnt[0] >> 8) & 0xFF]) + bytes(rng.randrange(256) for _ in range(rng.randint(0, 6))))
        if r < 0.63:
            return "-"
        sizes = SIZES if big else SIZES[:11]
        return "@%d.%d" % (rng.choice(sizes), cnt[0])

    def emit(op):
        ops.append(op)
        sim.apply(op)

    for _ in range(nops):
        if rng.random() < 0.15:
            emit("t=%d" % (sim.now + rng.choice([3000, 3000, 6000, 12000])))
        r = rng.random()
        sids = sorted(sim.sess)
        if sids and rng.random() < 0.12:
            # burst: several sends into a blocked queue, then a scripted flush (EAGAIN / hard errors in the middle)
            sid = rng.choice(sids)
            for _ in range(rng.randint(2, 4)):
                if sid in sim.sess:
                    emit("s:%d:%s:%s" % (sid, payload(), "a"))
            other = rng.choice(sids)
            if other in sim.sess:
                emit("s:%d:%s:%s" % (other, payload(), rng.choice("oa")))
            if sid in sim.sess:
                sv = sim.sess[sid]
                script = "".join(rng.choice("ooe") for _ in range(rng.randint(1, 4))) + rng.choice(["", "a", "o"])
                emit(("g:%d:%s" % (sid, script)) if sv[0] == "C" else ("f:%d:%s" % (sv[3], script)))
            continue
        if r < 0.3 or not sids:
            emit("r:%d:%d:%s" % (rng.randint(1, nl), rng.randrange(np_), payload()))
        elif r < 0.5:
            sid = rng.choice(sids) if rng.random() < 0.93 else rng.randint(1, sim.nxt + 1)
            s = sim.sess.get(sid)
            blocked = s is not None and bool(sim.cq.get(sid) if s[0] == "C" else sim.lq.get(s[3]))
            a = rng.choice("oooae") if not blocked else rng.choice("ooaaae")
            emit("s:%d:%s:%s" % (sid, payload(), a))
        elif r < 0.58:
            emit("c:%d" % rng.randrange(np_))
        elif r < 0.68:
            emit("v:%d:%d" % (rng.randint(1, nl) if rng.random() < 0.95 else nl + 1, rng.randrange(np_)))
        elif r < 0.78:
            emit("x:%d" % (rng.choice(sids) if rng.random() < 0.9 else rng.randint(1, sim.nxt + 2)))
        elif r < 0.86:
            qs = [l for l, q in sim.lq.items() if q]
            cs = [s for s, q in sim.cq.items() if q]
            n = rng.randint(1, 4)
            script = "".join(rng.choice("oooe") for _ in range(n - 1)) + rng.choice("ooa")
            if cs and (not qs or rng.random() < 0.5):
                emit("g:%d:%s" % (rng.choice(cs), script))
            elif qs:
                emit("f:%d:%s" % (rng.choice(qs), script))
            else:
                emit("f:%d:%s" % (rng.randint(1, nl), script))
        elif r < 0.93:
            cl = [s for s, v in sim.sess.items() if v[0] == "C"]
            if cl:
                sid = rng.choice(cl)
                emit("q:%d:%d:%s" % (sid, sim.sess[sid][1], payload()))
            else:
                emit("c:%d" % rng.randrange(np_))
        else:
            emit("G")
    # flush everything that is still queued, then one datagram from every peer
    for l, q in list(sim.lq.items()):
        if q:
            emit("f:%d:%s" % (l, "o" * len(q)))
    for s, q in list(sim.cq.items()):
        if q:
            emit("g:%d:%s" % (s, "o" * len(q)))
    for pe in range(np_):
        emit("r:1:%d:%s" % (pe, payload()))
    # every third case puts peers 0 and 1 on 127.0.0.1:1PPPP / 127.0.0.11:PPPP: different addresses whose host and
    # port texts coincide when concatenated (the peer index must still tell them apart)
    collide = 1 if rng.random() < 0.34 else 0
    cfg = "%d,%d,%d,%d,%d,%d,%d,%d" % (chunk, maxq, cbp, maxsess, idle, nl, np_, collide)
    return cfg, ops


def property_oracle(cfg, ops, out_line):
    """checks the property on the implementation's own output; returns (sig, what) or None"""
    chunk, maxq, cbp, maxsess, idle, nl, np_ = [int(x) for x in cfg.split(",")][:7]
    groups = [g.split(" ") if g != "." else [] for g in out_line.split(" | ")]
    real_ops = [o for o in ops if not o.startswith("t=")]
    if len(groups) != len(real_ops):
        return None        # structural problem: left to the correspondence
    sess = {}               # sid -> peer
    openp = set()
    receiving = {}          # peer -> sid that received its datagrams and is still open
    sends = {}              # digest -> [sid, used]
    for op, toks in zip(real_ops, groups):
        p = op.split(":")
        k = p[0]
        if k == "s":
            sid = int(p[1])
            if p[2] != "-":
                sends[digest(payload_bytes(p[2]))] = [sid, sess.get(sid), 0]
        dcount = 0
        for t in toks:
            if t[0] == "A":
                sid, peer = t[1:].split("/")
                sid, peer = int(sid), int(peer)
                if peer in receiving and receiving[peer] in openp:
                    return ("reaccept-while-open", "peer %d was accepted again as session %d while session %d, which receives "
                            "its datagrams, is still open (op %s)" % (peer, sid, receiving[peer], op))
                sess[sid] = peer
                openp.add(sid)
            elif t[0] == "C":
                sid, peer = t[1:].split("/")
                sess[int(sid)] = int(peer)
                openp.add(int(sid))
            elif t[0] == "X":
                openp.discard(int(t[1:]))
            elif t[0] == "D":
                sid, dg = t[1:].split("/", 1)
                sid = int(sid)
                dcount += 1
                if k == "r":
                    peer = int(p[2])
                    want = digest(payload_bytes(p[3])[:chunk])
                    if sess.get(sid) != peer:
                        return ("delivered-on-wrong-session", "a datagram from peer %d was delivered on session %d which belongs to peer %s"
                                % (peer, sid, sess.get(sid)))
                    if dg != want:
                        return ("datagram-altered", "datagram delivered as %s, sent as %s (op %s)" % (dg, want, op[:80]))
                    if peer in receiving and receiving[peer] in openp and receiving[peer] != sid:
                        return ("redirected", "peer %d's datagram arrived on session %d although session %d, which received its "
                                "earlier datagrams, is still open" % (peer, sid, receiving[peer]))
                    receiving[peer] = sid
            elif t[0] == "W":
                dest, rest = t[1:].split("<")
                src, dg = rest.split("/", 1)
                if dg not in sends:
                    return ("emitted-foreign-datagram", "a peer received %s which no send command carried" % dg)
                ent = sends[dg]
                ent[2] += 1
                if ent[2] > 1:
                    return ("send-duplicated", "the datagram of one send command was emitted %d times" % ent[2])
                if ent[1] is not None and int(dest) != ent[1]:
                    return ("emitted-to-wrong-peer", "send on session %d (peer %s) was emitted to peer %s" % (ent[0], ent[1], dest))
        if k == "r" and p[3] != "-" and dcount > 1:
            return ("datagram-split-or-duplicated", "one datagram produced %d data events (op %s)" % (dcount, op[:80]))
    return None


def run(ctx):
    t0 = time.time()
    v = vlib.Verdict(ctx)
    proof = vlib.prove(ctx, "C06", extra_targets=["C06/Extract.vo"])
    if proof["broken"]:
        v.proof_broken(proof["broken"], proof["log_tail"])
    cov = {"evaluations": 0, "distinct_nontrivial": 0, "rule": "", "samples": []}
    model_exe = None
    try:
        model_exe = vlib.build_driver("c06")
    except Exception as e:
        v.harness_broken("model driver failed to build", str(e)[-2000:])
    impl_exe, blog = vlib.build_harness(**HARNESS_OPTS)
    if impl_exe is None:
        v.harness_broken("harness/c06_impl.cpp no longer compiles against /repo/include", blog)
    if model_exe and impl_exe:
        rng = vlib.rng_for(ctx)
        thorough = ctx["tier"] == "thorough"
        if ctx.get("replay"):
            lines = [l.strip() for l in open(ctx["replay"]) if l.strip() and not l.startswith("#")]
            li, lm, _ = vlib.run_pair(ctx, impl_exe, model_exe, lines, "c06r")
            for a, b, c in zip(lines, li, lm):
                print("case:  %s\nimpl:  %s\nmodel: %s" % (a[:2000], b[:3000], c[:3000]))
                pr = property_oracle(a.split(" ")[1], a.split(" ")[2].split(";"), b)
                print("oracle: %s" % (pr,))
            cov["evaluations"] = len(lines)
        else:
            n = 200 if not thorough else 5000
            corpus = [
                # F12: closing a via-listener session to peer 0 unmapped the accepted session of peer 0 (fixed 33f3236)
                ("65536,4,1,0,10,2,3", "r:1:0:6869;r:1:0:41;r:1:1:42;s:1:5a5a:o;c:2;s:3:0102:o;q:3:2:0909;v:1:0;x:4;r:1:0:43;x:1;r:1:0:44"),
                ("65536,2,0,0,10,1,2", "r:1:0:01;s:1:a1:a;s:1:a2:a;s:1:a3:a;f:1:oo;r:1:1:02;s:2:b1:o;f:1:o"),
                ("65536,4,1,0,10,1,2", "r:1:0:@65507.3;r:1:0:@1472.4;s:1:@65507.9:o;t=4000;r:1:1:01;t=12000;G;r:1:0:05"),
                ("65536,1,1,0,10,1,2", "r:1:0:01;r:1:1:02;s:1:a1:a;s:2:b1:a;r:1:0:03;f:1:oo;r:1:0:04"),
                ("65536,4,1,2,10,2,3", "r:1:0:01;r:2:1:02;r:1:2:03;v:1:2;x:1;r:2:2:04;r:1:0:05"),
            ]
            cases = [(c, o.split(";")) for c, o in corpus]
            for i in range(n):
                big = (i % 20 == 19)
                cases.append(gen_case(rng, rng.randint(4, 16), big))
            lines = ["U %s %s" % (c, ";".join(o)) for c, o in cases]
            li, lm, _ = vlib.run_pair(ctx, impl_exe, model_exe, lines, "c06h", timeout=1500)
            nontrivial = set()
            disagree = 0
            opcount = {}
            tok = {"A": 0, "C": 0, "D": 0, "X": 0, "W": 0, "E": 0}
            for (cfg, ops), line, ri, rm in zip(cases, lines, li, lm):
                for o in ops:
                    kk = "t=" if o.startswith("t=") else o.split(":")[0]
                    opcount[kk] = opcount.get(kk, 0) + 1
                if ri.startswith("CRASH") or ri.startswith("EXC") or "TIMEOUT" in ri or ri.endswith("FAIL"):
                    v.property_failure("impl-crashes", "UdpEngine crashed / hung on a history (%s)" % ri[-200:], line, ri[-800:])
                    continue
                for t in ri.replace(" | ", " ").split(" "):
                    if t and t[0] in tok:
                        tok[t[0]] += 1
                bad = property_oracle(cfg, ops, ri)
                if bad:
                    v.property_failure(bad[0], bad[1], line, "impl:  %s\nmodel: %s" % (ri[:1500], rm[:1500]))
                if ri != rm:
                    disagree += 1
                    if not bad:
                        v.disagreement("C06 correspondence: UDP model and implementation differ on a history", line, ri[:2000], rm[:2000])
                elif not bad:
                    nontrivial.add(line)
            # bursts behind a held I/O thread: every datagram one data event on one session, without further traffic
            # (sizes well inside the listener's socket buffer: a datagram the kernel drops because the buffer is full was never
            #  received; 1000 queued datagrams lost three quarters of them that way and raised a false alarm in the thorough tier)
            # more than two read budgets of any plausible size below ~64 (an edge-triggered listener gets one more readiness
            # report for the datagrams that arrived while its thread was held), the harness enlarges SO_RCVBUF to hold them
            bursts = ["B 200 1", "B 150 0", "B 65 1"] if not thorough else ["B 200 1", "B 150 0", "B 65 1", "B 300 1", "B 250 0"] * 3
            bi, bm, _ = vlib.run_pair(ctx, impl_exe, model_exe, bursts, "c06b", timeout=600)
            for line, ri, rm in zip(bursts, bi, bm):
                if ri != rm:
                    v.property_failure("burst-datagrams-not-delivered", "a burst of datagrams queued on one listener while the I/O thread was "
                                       "busy is not delivered completely, exactly once and on one session without further traffic: %s" % ri,
                                       line, ri)
                else:
                    nontrivial.add(line)
            cov = {
                "evaluations": len(lines) + len(bursts),
                "distinct_nontrivial": len(nontrivial),
                "rule": "random histories of 4..16 operations on a real UdpEngine over loopback: 1-2 listeners, 2-4 raw-socket peers, "
                        "datagrams peer->listener and peer->connected socket (sizes 1..9000, in every 20th case up to 65507; empty "
                        "datagrams; ioReadChunk 65536 or 2048), connect, connectViaListener (also to a missing listener), sends "
                        "with scripted kernel answers ok/EAGAIN/error, flushes with scripted answers, queue bounds 1/2/3/1024 with "
                        "and without closeOnBackpressure, maxSessions 0/2/3, closes (also of unknown ids), idle GC with the "
                        "monotonic clock moved by 3/6/12 s against a 10 s idle timeout; every case ends by flushing all queues and "
                        "one datagram from every peer. Compared per operation: callbacks (accept/connect/data/close/error with "
                        "session id and peer) and the datagrams the peers received (source socket, payload digest).",
                "samples": lines[5:8],
                "operations": opcount,
                "observed_tokens": tok,
                "disagreements_model_vs_impl": disagree,
            }
    rc = v.finish()
    ctx["assumptions"] = [
        "loopback UDP delivers every datagram of these sizes, in order per socket pair (no loss between harness peers and the engine)",
        "operations are serialised by barrier datagrams: each runs to completion on the I/O thread before the next is issued",
    ]
    vlib.write_evidence(ctx, proof, cov, time.time() - t0, len(v.violations))
    return rc
