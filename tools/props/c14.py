"""C14 — the XML parser accepts only balanced documents and reports them faithfully.

prove:      coq/C14/Properties.v
correspond: harness/c14_impl.cpp (real pull parser, runSax, DomBuilder, decodeEntities) vs. the
            extracted model, plus a tree generator with its own printer and expected tokens / DOM.
"""
import os
import time

import vlib

PID = "C14"
HARNESS_OPTS = {"name": "c14_impl", "libs": "-lpthread"}
HARNESSES = [HARNESS_OPTS]
META = {
    "category": "proof",
    "technique": "Coq proof (invariants over the token run, induction over trees) + differential correspondence",
    "text": "Coq theorems over an executable model of xml::Parser::next with all its readers and limits, decodeEntities/"
            "appendCharRef/encodeUtf8 and DomBuilder: for arbitrary bytes the run terminates, every "
            "reported slice lies inside the input, and an accepted document has balanced, properly nested tags within all "
            "configured limits; predefined entities and numeric references decode to the right UTF-8 and undefined entities "
            "are never expanded; see Properties.v for the exact statements. Model and code (pull, SAX and DOM) run on the "
            "same generated documents, mutations and option settings every run.",
    "design_ref": "DESIGN.md §7 C14",
    "note": "Trusted: Coq kernel; extraction + OCaml driver; harness/c14_impl.cpp; Python generator/oracle. Modelled not "
            "verified: std::string_view (find/compare/substr), line/column bookkeeping (not modelled), the arena allocator "
            "(unused by the parser), XmlDecl token kind (never produced by the code: '<?xml' is reported as a PI).",
}

# ---- additions of the translator / tie session (appended to the manifest texts)
META["text"] += " GenTie.v: default options = xml::Options{} of the current headers (regenerated every run)."
DEF = "256,256,1024,1048576,0"
NAME_START = b"abcxyzABCXYZ_:"
NAME_CHARS = NAME_START + b"0129-."


def hx(b):
    return bytes(b).hex() if b else "-"


def gen_name(rng, maxlen=8):
    n = bytes([rng.choice(b"abcxyzABCXYZ_")]) + bytes(rng.choice(NAME_CHARS.replace(b":", b"")) for _ in range(rng.randint(0, maxlen - 1)))
    if rng.random() < 0.2:
        n = bytes([rng.choice(b"nsp")]) + b":" + n
    return n


CPS = [0x41, 0x7A, 0x3C, 0x3E, 0x26, 0x22, 0x27, 0xE9, 0x7FF, 0x800, 0x20AC, 0xFFFD, 0x10000, 0x1F600, 0x10FFFF, 0x9, 0xA]


def gen_chars(rng, n, first_nonspace=False, forbid=b""):
    """list of (raw_bytes, decoded_bytes) pieces for text / attribute values"""
    pieces = []
    for i in range(n):
        r = rng.random()
        if r < 0.55:
            c = rng.choice(b"abc xyz-0123.,;:!?=+/()[]{}\t\n" if not (first_nonspace and i == 0) else b"abcxyz0123.,;:!?")
            ch = bytes([c])
            if c in forbid:
                continue
            pieces.append((ch, ch))
        elif r < 0.7:
            ent, dec = rng.choice([(b"&lt;", b"<"), (b"&gt;", b">"), (b"&amp;", b"&"), (b"&apos;", b"'"), (b"&quot;", b'"')])
            pieces.append((ent, dec))
        elif r < 0.85:
            cp = rng.choice(CPS + [rng.randrange(0x20, 0x7F), rng.randrange(0x80, 0xD800), rng.randrange(0xE000, 0x110000)])
            raw = (rng.choice(["&#%d;", "&#x%x;", "&#x%X;", "&#X%x;", "&#0%d;"]) % cp).encode()
            pieces.append((raw, chr(cp).encode("utf-8")))
        elif r < 0.95:
            cp = rng.choice([0xE9, 0x20AC, 0x1F600, 0x3BB])
            u = chr(cp).encode("utf-8")
            pieces.append((u, u))
        else:
            pieces.append((b">", b">"))
    return pieces


def strip_seq(b, seq, repl):
    """remove every occurrence of a terminator, also those a single replace pass re-creates (']]>>' -> ']]>')"""
    while seq in b:
        b = b.replace(seq, repl)
    return b


def gen_tree(rng, depth, maxdepth):
    """element: ('e', name, attrs[(name, raw, decoded, quote)], children, selfclose)"""
    name = gen_name(rng)
    attrs = []
    used = set()
    for _ in range(rng.choice([0, 0, 1, 2, 3])):
        an = gen_name(rng, 5)
        if an in used:
            continue
        used.add(an)
        q = rng.choice([b'"', b"'"])
        pcs = [p for p in gen_chars(rng, rng.randint(0, 6), forbid=b"<" + q) if q not in p[0] and b"<" not in p[0]]
        attrs.append((an, b"".join(p[0] for p in pcs), b"".join(p[1] for p in pcs), q))
    children = []
    if depth < maxdepth:
        last_text = False
        for _ in range(rng.choice([0, 1, 2, 3, 4])):
            r = rng.random()
            if r < 0.35:
                children.append(gen_tree(rng, depth + 1, maxdepth))
                last_text = False
            elif r < 0.6 and not last_text:
                # text may begin (and end) with white space; a text of white space only is formatting between markup,
                # which the parser skips by design (recorded as C14-F1b) - not generated here
                pcs = gen_chars(rng, rng.randint(1, 8), first_nonspace=rng.random() < 0.4, forbid=b"<")
                pcs = [p for p in pcs if b"<" not in p[0]]
                if not pcs or not b"".join(p[0] for p in pcs).strip(b" \t\r\n"):
                    continue
                children.append(("t", b"".join(p[0] for p in pcs), b"".join(p[1] for p in pcs)))
                last_text = True
            elif r < 0.72:
                children.append(("c", strip_seq(bytes(rng.choice(b"ab <>&]x") for _ in range(rng.randint(0, 6))), b"]]>", b"]]")))
                last_text = False
            elif r < 0.84:
                children.append(("k", strip_seq(bytes(rng.choice(b"ab <>&-x") for _ in range(rng.randint(0, 6))), b"-->", b"--")))
                last_text = False
            else:
                pc = strip_seq(bytes(rng.choice(b" ab=?'\"") for _ in range(rng.randint(0, 6))), b"?>", b"?")
                if pc and pc[:1] not in (b" ", b"?", b"=", b"'", b'"'):
                    pc = b" " + pc
                children.append(("p", gen_name(rng, 4).replace(b":", b"_"), pc))
                last_text = False
    return ("e", name, attrs, children, (not children) and rng.random() < 0.6)


def ws(rng):
    return rng.choice([b"", b"", b" ", b"\n", b"\r\n  ", b"\t"])


def xprint(rng, node, depth, toks, prev_text=False):
    """returns bytes; appends expected tokens (kind, name, text, attrs, depth)"""
    k = node[0]
    if k == "e":
        _, name, attrs, children, selfclose = node
        out = bytearray(b"<" + name)
        for an, raw, dec, q in attrs:
            out += rng.choice([b" ", b"  ", b"\n"]) + an + rng.choice([b"=", b" = ", b"= "]) + q + raw + q
        out += rng.choice([b"", b" "])
        araw = [(an, raw) for an, raw, _, _ in attrs]
        if selfclose:
            out += b"/>"
            toks.append(("M", name, b"", araw, depth + 1))
            return bytes(out)
        out += b">"
        toks.append(("S", name, b"", araw, depth + 1))
        pt = False
        for ch in children:
            if ch[0] != "t" and not pt:
                out += ws(rng)
            out += xprint(rng, ch, depth + 1, toks, pt)
            pt = ch[0] == "t"
        if not pt:
            out += ws(rng)
        out += b"</" + name + rng.choice([b"", b" ", b"\n"]) + b">"
        toks.append(("E", name, b"", [], depth + 1))
        return bytes(out)
    if k == "t":
        toks.append(("T", b"", node[1], [], depth))
        return node[1]
    if k == "c":
        toks.append(("C", b"", node[1], [], depth))
        return b"<![CDATA[" + node[1] + b"]]>"
    if k == "k":
        toks.append(("K", b"", node[1], [], depth))
        return b"<!--" + node[1] + b"-->"
    toks.append(("P", node[1], node[2], [], depth))
    return b"<?" + node[1] + node[2] + b"?>"


def dom_of(node):
    k = node[0]
    if k == "e":
        _, name, attrs, children, _ = node
        a = "&".join("%s=%s" % (hx(an), hx(dec)) for an, _, dec, _ in attrs) or "-"
        return "E(%s;%s;%s)" % (hx(name), a, "".join(dom_of(c) for c in children))
    if k == "t":
        return "T(%s)" % hx(node[2]) if node[2] else ""
    if k == "c":
        return "C(%s)" % hx(node[1])
    if k == "k":
        return "K(%s)" % hx(node[1])
    return "P(%s;%s)" % (hx(node[1]), hx(node[2]))


def tok_fmt(t):
    kind, name, text, attrs, depth = t
    a = "&".join("%s=%s" % (hx(n), hx(v)) for n, v in attrs) or "-"
    return "%s,%s,%s,%s,%d" % (kind, hx(name), hx(text), a, depth)


def strip_offsets(tokstr):
    if not tokstr:
        return []
    out = []
    for t in tokstr.split(";"):
        f = t.split(",")
        out.append(",".join(f[:5]))
    return out


def parse_line(r):
    """-> (head, tokens(list of str), dom(str), flags)"""
    parts = r.split(" | ")
    first = parts[0]
    head, _, toks = first.partition(" ")
    dom = parts[1][4:] if len(parts) > 1 and parts[1].startswith("DOM ") else ""
    return head, toks, dom, parts[2:]


def balanced(tokens):
    st = []
    for t in tokens:
        f = t.split(",")
        if f[0] == "S":
            st.append(f[1])
        elif f[0] == "E":
            if not st or st[-1] != f[1]:
                return False
            st.pop()
    return not st


def limits_hold(opts, tokens):
    d, a, n, tx, k = opts
    if k and len(tokens) > k:
        return False
    for t in tokens:
        f = t.split(",")
        name = 0 if f[1] == "-" else len(f[1]) // 2
        text = 0 if f[2] == "-" else len(f[2]) // 2
        nat = 0 if f[3] == "-" else len(f[3].split("&"))
        if int(f[4]) > d or name > n or nat > a:
            return False
        if f[0] == "T" and text > tx:
            return False
        if f[3] != "-":
            for av in f[3].split("&"):
                an, _, vv = av.partition("=")
                if (0 if an == "-" else len(an) // 2) > n or (0 if vv == "-" else len(vv) // 2) > tx:
                    return False
    return True


def build_cases(ctx):
    rng = vlib.rng_for(ctx)
    thorough = ctx["tier"] == "thorough"
    cases = []

    def add(line, **meta):
        cases.append((line, meta))

    cdir = os.path.join(vlib.VERIF, "corpus", PID)
    if os.path.isdir(cdir):
        for fn in sorted(os.listdir(cdir)):
            for line in open(os.path.join(cdir, fn)):
                line = line.strip()
                if line and not line.startswith("#"):
                    add(line, kind="corpus")

    ntree = 400 if not thorough else 12000
    docs = []
    for _ in range(ntree):
        tree = gen_tree(rng, 0, rng.choice([1, 2, 3, 5]))
        toks = []
        pre = b""
        exp_pre = []
        dom_pre = ""
        if rng.random() < 0.3:
            pre += b"<?xml version='1.0' encoding=\"UTF-8\"?>" + ws(rng)
            exp_pre.append(("P", b"xml", b" version='1.0' encoding=\"UTF-8\"", [], 0))
            dom_pre += "P(%s;%s)" % (hx(b"xml"), hx(b" version='1.0' encoding=\"UTF-8\""))
        if rng.random() < 0.3:
            dt = rng.choice([b" root", b" html PUBLIC \"-//W3C//DTD\" \"x.dtd\"", b" a [<!ENTITY x 'y'>]", b"\nr SYSTEM 'r.dtd' [ <!ELEMENT r ANY> ]"])
            pre += b"<!" + rng.choice([b"DOCTYPE", b"doctype", b"DocType"]) + dt + b">" + ws(rng)
            exp_pre.append(("D", b"", dt, [], 0))
        if rng.random() < 0.2:
            pre += b"<!-- lead -->" + ws(rng)
            exp_pre.append(("K", b"", b" lead ", [], 0))
            dom_pre += "K(%s)" % hx(b" lead ")
        body = xprint(rng, tree, 0, toks)
        text = pre + body + ws(rng)
        exp = [tok_fmt(t) for t in exp_pre + toks]
        add("X %s %s" % (DEF, hx(text)), kind="doc", expect=exp, dom=dom_pre + dom_of(tree), opts=(256, 256, 1024, 1048576, 0))
        docs.append(text)
        # same document under tight limits (model-vs-impl and limit predicate)
        if rng.random() < 0.5:
            o = (rng.choice([1, 2, 3, 256]), rng.choice([0, 1, 2, 256]), rng.choice([1, 3, 8, 1024]), rng.choice([1, 4, 16, 1 << 20]),
                 rng.choice([0, 1, 3, 10]))
            add("X %d,%d,%d,%d,%d %s" % (o + (hx(text),)), kind="limited", opts=o)
    # limits at exactly -1/0/+1
    for d in (1, 2, 4):
        for kk in (d - 1, d, d + 1):
            if kk < 1:
                continue
            t = b"".join(b"<e%d>" % i for i in range(kk)) + b"".join(b"</e%d>" % i for i in reversed(range(kk)))
            add("X %d,256,1024,1048576,0 %s" % (d, hx(t)), kind="limited", opts=(d, 256, 1024, 1048576, 0))
    for n in (1, 3):
        for kk in (n - 1, n, n + 1):
            if kk < 0:
                continue
            t = b"<e" + b"".join(b" a%d='v'" % i for i in range(kk)) + b"/>"
            add("X 256,%d,1024,1048576,0 %s" % (n, hx(t)), kind="limited", opts=(256, n, 1024, 1048576, 0))
            if kk >= 1:
                add("X 256,256,%d,1048576,0 %s" % (n, hx(b"<" + b"n" * kk + b"/>")), kind="limited", opts=(256, 256, n, 1048576, 0))
                add("X 256,256,1024,%d,0 %s" % (n, hx(b"<a>" + b"t" * kk + b"</a>")), kind="limited", opts=(256, 256, 1024, n, 0))
                add("X 256,256,1024,%d,0 %s" % (n, hx(b"<a v='" + b"t" * kk + b"'/>")), kind="limited", opts=(256, 256, 1024, n, 0))
                add("X 256,256,1024,1048576,%d %s" % (n, hx(b"<a/>" * kk)), kind="limited", opts=(256, 256, 1024, 1048576, n))
    # mutations / truncations
    nmut = 600 if not thorough else 20000
    for _ in range(nmut):
        w = bytearray(rng.choice(docs))
        r0 = rng.random()
        if r0 < 0.3:
            w = w[:rng.randint(0, len(w))]
        else:
            for _ in range(rng.randint(1, 3)):
                if not w:
                    break
                i = rng.randrange(len(w))
                r = rng.random()
                if r < 0.5:
                    w[i] = rng.choice(b"<>/!?-[]&;#'\"= \nax0") if rng.random() < 0.9 else rng.getrandbits(8)
                elif r < 0.7:
                    del w[i]
                else:
                    w[i:i] = rng.choice([b"<", b">", b"</", b"<!--", b"]]>", b"&", b"<![CDATA[", b"<?", b"<!DOCTYPE", b"'", b'"', b"<a>", b"</a>"])
        add("X %s %s" % (DEF, hx(bytes(w))), kind="mut", opts=(256, 256, 1024, 1048576, 0))
    for t in [b"<", b"<a", b"<a ", b"<a x", b"<a x=", b"<a x='", b"<a/", b"</", b"</a", b"<!", b"<!-", b"<!--", b"<!-- -", b"<![CDATA[", b"<![CDATA[]]",
              b"<!DOCTYPE", b"<!DOCTYPE a", b"<!DOCTYPE a [", b"<!DOCTYPEx>", b"<?", b"<?a", b"<?a ?", b"<a></b>", b"</a>", b"<a><b></a></b>", b"<a></a></a>",
              b"<a><a></a>", b"<1/>", b"<a 1='x'/>", b"<a x=y/>", b"<a x='1' x='2'/>", b"", b" \n", b"x", b"<a>&bogus;</a>", b"<a>&#xD800;</a>", b"<a>&#;</a>"]:
        add("X %s %s" % (DEF, hx(t)), kind="mut", opts=(256, 256, 1024, 1048576, 0))

    # entities
    ents = [(b"&lt;&gt;&amp;&apos;&quot;", b"<>&'\""), (b"a&amp;b", b"a&b")]
    for cp in CPS + [0, 1, 0x7F, 0x80, 0xD7FF, 0xE000]:
        for fmt in ("&#%d;", "&#x%x;", "&#x%X;"):
            ents.append(((fmt % cp).encode(), chr(cp).encode("utf-8")))
    for raw, dec in ents:
        add("N " + hx(raw), kind="ent", expect=hx(dec))
    for raw in [b"&foo;", b"&nbsp;", b"&LT;", b"&Amp;", b"&#xD800;", b"&#xDFFF;", b"&#x110000;", b"&#1114112;", b"&#x12345678;", b"&#xg;", b"&#12a;",
                b"&amp", b"&", b"&;", b"&#;", b"& lt;", b"&xxe;", b"&%pe;"]:
        add("N " + hx(raw), kind="ent-bad")
    for _ in range(100 if not thorough else 3000):
        pcs = gen_chars(rng, rng.randint(0, 10))
        add("N " + hx(b"".join(p[0] for p in pcs)), kind="ent", expect=hx(b"".join(p[1] for p in pcs)))
    return cases


def witness_cases():
    return [
        ("X %s %s" % (DEF, hx(b"<a> hi</a>")), {"kind": "doc", "expect": ["S,61,-,-,1", "T,-,%s,-,1" % hx(b" hi"), "E,61,-,-,1"],
                                                 "dom": "E(61;-;T(%s))" % hx(b" hi"), "opts": (256, 256, 1024, 1048576, 0), "ws": True}),
        ("X %s %s" % (DEF, hx(b"<a>\n  x &amp; y  <b/> tail</a>")),
         {"kind": "doc", "expect": ["S,61,-,-,1", "T,-,%s,-,1" % hx(b"\n  x &amp; y  "), "M,62,-,-,2", "T,-,%s,-,1" % hx(b" tail"), "E,61,-,-,1"],
          "dom": "E(61;-;T(%s)E(62;-;)T(%s))" % (hx(b"\n  x & y  "), hx(b" tail")), "opts": (256, 256, 1024, 1048576, 0), "ws": True}),
        ("X %s %s" % (DEF, hx(b"<a> </a>")), {"kind": "doc", "expect": ["S,61,-,-,1", "T,-,%s,-,1" % hx(b" "), "E,61,-,-,1"],
                                              "dom": "E(61;-;T(%s))" % hx(b" "), "opts": (256, 256, 1024, 1048576, 0), "wsonly": True}),
        ("N " + hx(b"&#4294967361;"), {"kind": "ent-bad", "wrap": True}),
        ("N " + hx(b"&#x;"), {"kind": "ent-bad", "wrap": True}),
    ]


def evaluate(ctx, v, cases, impl, model):
    stats = {"kinds": {}, "nontrivial": set(), "disagree": 0}
    for (line, meta), ri, rm in zip(cases, impl, model):
        k = meta["kind"]
        stats["kinds"][k] = stats["kinds"].get(k, 0) + 1
        failed = False
        if ri.startswith("EXC") or ri.startswith("CRASH"):
            v.property_failure("impl-throws-or-crashes", "XML code crashed, threw, hung or read out of bounds (%s)" % ri, line, ri)
            failed = True
        elif line.startswith("X "):
            head, toks, dom, flags = parse_line(ri)
            inlen = 0 if line.split(" ")[2] == "-" else len(line.split(" ")[2]) // 2
            tl = strip_offsets(toks)
            if "SLICE-OUTSIDE-INPUT" in flags:
                v.property_failure("slice-outside-input", "a reported slice lies outside the input buffer", line, ri[:300])
                failed = True
            if "SAX-DIFFERS" in flags:
                v.property_failure("sax-differs", "SAX reports different tokens than the pull interface", line, ri[:300])
                failed = True
            if head.startswith("ERR:") and int(head[4:]) > inlen:
                v.property_failure("error-offset-outside-input", "error offset beyond the input", line, head)
                failed = True
            if head == "OK":
                if not balanced(tl):
                    v.property_failure("accepted-unbalanced", "an accepted document has unbalanced / mis-nested tags", line, ri[:400])
                    failed = True
                if not limits_hold(meta.get("opts", (256, 256, 1024, 1048576, 0)), toks.split(";") if toks else []):
                    v.property_failure("accepted-beyond-limits", "an accepted document exceeds a configured limit", line, ri[:400])
                    failed = True
            if head != "OK" and toks and not failed:
                # every token handed out before the error must respect the limits as well
                try:
                    lo = tuple(int(x) for x in line.split(" ")[1].split(","))
                except ValueError:
                    lo = None
                if lo and len(lo) == 5 and not limits_hold((lo[0], lo[1], lo[2], lo[3], 0), toks.split(";")):
                    v.property_failure("accepted-beyond-limits", "a token reported before the error exceeds a configured limit "
                                       "(depth / attributes / name / text)", line, ri[:400])
                    failed = True
            if k == "doc" and not failed:
                if head != "OK" or tl != meta["expect"] or dom != meta["dom"]:
                    sig = "xml-leading-whitespace-dropped" if meta.get("ws") else \
                          "xml-whitespace-only-text-dropped" if meta.get("wsonly") else "report-faithful"
                    v.property_failure(sig, "pull/SAX/DOM do not report the document as it was built", line,
                                       "impl=%s\nexpected=%s | DOM %s" % (ri[:900], ";".join(meta["expect"])[:600], meta["dom"][:300]))
                    failed = True
                else:
                    stats["nontrivial"].add(line)
            elif head == "OK" and toks:
                stats["nontrivial"].add(line)
        elif k == "ent":
            if ri != meta["expect"]:
                v.property_failure("entity-decoding", "entity / character reference decodes to the wrong bytes", line,
                                   "impl=%s expected=%s" % (ri, meta["expect"]))
                failed = True
            else:
                stats["nontrivial"].add(line)
        elif k == "ent-bad":
            if ri != "ERR":
                sig = "charref-wraps-or-empty" if meta.get("wrap") else "undefined-entity-expanded"
                v.property_failure(sig, "an undefined / external / invalid entity reference is expanded", line, ri)
                failed = True
            else:
                stats["nontrivial"].add(line)
        if ri != rm:
            stats["disagree"] += 1
            if not failed:
                v.disagreement("C14 correspondence: model and implementation differ on a %s case" % k, line, ri, rm)
    return stats


def run(ctx):
    t0 = time.time()
    v = vlib.Verdict(ctx)
    proof = vlib.prove(ctx, "C14", extra_targets=["C14/Extract.vo"])
    if proof["broken"]:
        v.proof_broken(proof["broken"], proof["log_tail"])
    cov = {"evaluations": 0, "distinct_nontrivial": 0, "rule": "", "samples": []}
    model_exe = None
    try:
        model_exe = vlib.build_driver("c14")
    except Exception as e:
        v.harness_broken("model driver failed to build", str(e)[-2000:])
    impl_exe, blog = vlib.build_harness(**HARNESS_OPTS)
    if impl_exe is None:
        v.harness_broken("harness/c14_impl.cpp no longer compiles against /repo/include", blog)
    if model_exe and impl_exe:
        if ctx.get("replay"):
            cases = [(l.strip(), {"kind": "corpus"}) for l in open(ctx["replay"]) if l.strip() and not l.startswith("#")]
        else:
            cases = witness_cases() + build_cases(ctx)
        li, lm, logs = vlib.run_pair(ctx, impl_exe, model_exe, [c[0] for c in cases], "c14")
        stats = evaluate(ctx, v, cases, li, lm)
        if ctx.get("replay"):
            for (line, _), a, b in zip(cases, li, lm):
                print("case:  %s\nimpl:  %s\nmodel: %s" % (line[:300], a[:800], b[:800]))
        cov = {
            "evaluations": len(cases),
            "distinct_nontrivial": len(stats["nontrivial"]),
            "rule": "random trees (names with prefixes, both quote styles, entities and decimal/hex character references in text "
                    "and attribute values, CDATA / comment / PI / XML declaration / DOCTYPE with internal subset, white space "
                    "between markup) printed by an independent Python printer with the expected pull tokens and DOM; the same "
                    "documents under tight option sets; every limit at -1/0/+1; byte mutations and truncations; entity tables "
                    "incl. undefined/external/invalid references. The harness runs pull, SAX and DOM on each input. Non-trivial "
                    "= accepted with the expected report / decoded to the expected bytes / rejected as required.",
            "samples": [c[0][:300] for c in cases[:2]] + [c[0][:300] for c in cases[len(cases) // 2:len(cases) // 2 + 2]],
            "case_kinds": stats["kinds"],
            "disagreements_model_vs_impl": stats["disagree"],
            "impl_rc": logs[0], "model_rc": logs[2],
        }
        if logs[0] != 0 and not any(x["sig"] == "impl-throws-or-crashes" for x in v.violations):
            v.property_failure("impl-throws-or-crashes", "harness exited abnormally (sanitizer report or hang)", "", logs[1])
    rc = v.finish()
    ctx["assumptions"] = ["line/column numbers are not modelled or compared (offsets are)"]
    vlib.write_evidence(ctx, proof, cov, time.time() - t0, len(v.violations))
    return rc
