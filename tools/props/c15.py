"""C15 — HTTP/1.1 message framing is exact, segmentation-independent and bounded.

prove:      coq/C15/Properties.v
correspond: harness/c15_impl.cpp (real HttpClient::frameResponse & friends + the receive
            loop's cap check; real HttpServer::handleIncomingData observed through the
            IORA_VERIF httpRequestFramed hook) vs. the extracted model, plus an independent
            Python encoder / expected-result oracle.
"""
import os
import time

import vlib

PID = "C15"
HARNESSES = [{"name": "c15_impl"}]
META = {
    "category": "proof",
    "technique": "Coq proof (string-search resumption lemma, induction over chunk lists) + differential correspondence",
    "text": "Coq theorems over an executable model of the client's response framing (header-terminator scan with saved "
            "cursor, status line / field parsing, RFC 9112 §6.3 framing decision, Content-Length lists, chunked decoder "
            "with extensions and trailers, cap) and of the server's request framing (header scan, strict length "
            "information, the same chunk scan run from the start of the body): "
            "resumed header scans equal scans from offset 0 for every reachable state; chunked decoding is exact for every "
            "chunk pattern and resumable at every cut; Content-Length framing is exact; invalid/ conflicting/ overflowing "
            "lengths are rejected by the client; the decoders terminate. Server (since the repairs of C15-F5b/d/e/g/h/i): "
            "accepted length information is sound (every Content-Length field a valid number equal to the length used; "
            "chunked iff Transfer-Encoding present, then no Content-Length and chunked final), chunked bodies with any "
            "trailer section are framed and decoded exactly, the scan is total, and the requests framed / closes issued are "
            "independent of how ANY byte stream within the buffer cap is cut into reads; the statements refuted on the code as "
            "found are now theorems with the old witnesses rejected. Model and code "
            "are run on the same generated streams and segmentations every run, including the body each handler receives.",
    "design_ref": "DESIGN.md §7 C15",
    "note": "Trusted: Coq kernel; extraction + OCaml driver; harness/c15_impl.cpp (replicates the 3-line receive loop "
            "around frameResponse; private members via #define private public; IORA_VERIF hook for framed requests); "
            "Python generator/oracle. Modelled not verified: std::string::find/substr, std::from_chars, "
            "std::map with the case-insensitive comparator, HttpRequest::fromWireFormat's own validation (Host, request "
            "line: a request it refuses never reaches a handler, so handler bodies are compared on valid streams only), "
            "the worker pool.",
}

# ---- additions of the translator / tie session (appended to the manifest texts)
META["text"] += " GenTie.v: the three server caps of the model are the current values of HttpServer::SessionInfo and are ordered as the boundedness theorems need (regenerated every run)."


def hx(b):
    return bytes(b).hex() if b else "-"


def rand_bytes(rng, n):
    return bytes(rng.getrandbits(8) for _ in range(n))


def rand_token(rng, n):
    al = b"abcdefghijklmnopqrstuvwxyzABCDEFGHIJKLMNOPQRSTUVWXYZ0123456789-"
    return bytes(rng.choice(al) for _ in range(n))


def split_at(b, cuts):
    cuts = sorted(set(c for c in cuts if 0 < c < len(b)))
    return [b[a:c] for a, c in zip([0] + cuts, cuts + [len(b)])]


def hex_size(rng, n):
    s = ("%x" % n)
    r = rng.random()
    if r < 0.3:
        s = s.upper()
    if rng.random() < 0.3:
        s = "0" * rng.randint(1, 6) + s
    return s.encode()


def chunk_ext(rng):
    r = rng.random()
    if r < 0.6:
        return b""
    if r < 0.8:
        return b";" + rand_token(rng, rng.randint(0, 6))
    return rng.choice([b" ", b"\t ", b"  "]) + b";" + rand_token(rng, 3) + b"=" + rand_token(rng, 2)


def enc_chunked(rng, body, trailers=True):
    out = bytearray()
    pos = 0
    while pos < len(body):
        n = rng.choice([1, 2, 5, 16, 100, len(body) - pos])
        n = max(1, min(n, len(body) - pos))
        out += hex_size(rng, n) + chunk_ext(rng) + b"\r\n" + body[pos:pos + n] + b"\r\n"
        pos += n
    out += (b"0" * rng.randint(1, 3)) + chunk_ext(rng) + b"\r\n"
    ntr = rng.choice([0, 0, 1, 2]) if trailers else 0
    for _ in range(ntr):
        out += b"X-" + rand_token(rng, 3) + b": " + rand_token(rng, 4) + b"\r\n"
    out += b"\r\n"
    return bytes(out), ntr


# ------------------------------------------------------------------- client side

def gen_response(rng, cap):
    """returns (method, wire, expected_line_or_None) for one final response (possibly preceded by 1xx)"""
    method = rng.choice([b"GET", b"GET", b"POST", b"HEAD"])
    status = rng.choice([200, 200, 201, 404, 500, 204, 304, 301])
    version = rng.choice([b"1.1", b"1.1", b"1.0"])
    text = rng.choice([b"OK", b"Not Found", b"", b"Very  Long Reason"])
    hdrs = []
    for _ in range(rng.randint(0, 3)):
        hdrs.append((b"X-" + rand_token(rng, rng.randint(1, 5)), rand_token(rng, rng.randint(0, 8))))
    if rng.random() < 0.3:
        hdrs.append((rng.choice([b"Connection", b"connection"]), rng.choice([b"close", b"keep-alive"])))
    body = rand_bytes(rng, rng.choice([0, 1, 5, 50, 300, rng.randint(0, 300), rng.randint(0, 40)]))
    mode = rng.choice(["cl", "cl", "chunked", "chunked", "close", "none"])
    nobody = method == b"HEAD" or status in (204, 304)
    wire_body = b""
    if mode == "cl":
        v = str(len(body)).encode()
        if rng.random() < 0.2:
            v = v + b", " + v
        if rng.random() < 0.15:
            v = b"000" + v
        hdrs.append((rng.choice([b"Content-Length", b"content-length", b"CONTENT-LENGTH"]), v))
        wire_body = body if not nobody else b""
    elif mode == "chunked":
        hdrs.append((rng.choice([b"Transfer-Encoding", b"transfer-encoding"]),
                     rng.choice([b"chunked", b"Chunked", b"gzip, chunked", b" chunked "])))
        wire_body, _ = enc_chunked(rng, body) if not nobody else (b"", 0)
    elif mode == "close":
        wire_body = body if not nobody else b""
    else:
        body = b""
    rng.shuffle(hdrs)
    head = b"HTTP/" + version + b" " + str(status).encode() + (b" " + text if text or rng.random() < 0.5 else b"") + b"\r\n"
    if not text and not head.endswith(b" \r\n"):
        pass
    for k, v in hdrs:
        head += k + rng.choice([b": ", b":", b":  "]) + v + rng.choice([b"", b" "]) + b"\r\n"
    head += b"\r\n"
    interim = b""
    for _ in range(rng.choice([0, 0, 0, 1, 2])):
        interim += b"HTTP/1.1 " + rng.choice([b"100 Continue", b"103 Early Hints"]) + b"\r\nX-I: 1\r\n\r\n"
    surplus = rng.choice([b"", b"", b"", b"HTTP/1.1 200 OK\r\n", b"\r\n", b"Z"])
    wire = interim + head + wire_body
    # expected
    hmap = {}
    for k, v in hdrs:
        hmap[k.lower()] = v.strip(b" \t")
    status_text = text
    hs = ",".join(sorted(hx(k) + "=" + hx(v) for k, v in hmap.items())) or "-"
    if nobody or mode == "none" and False:
        exp_body, evict, needs_close = b"", None, False
    if nobody:
        exp = ("DONE", status, version, status_text, hs, b"", None)
        close_delim = False
    elif mode in ("cl", "chunked"):
        exp = ("DONE", status, version, status_text, hs, body, None)
        close_delim = False
    else:
        exp = ("DONE", status, version, status_text, hs, body, True)
        close_delim = True
    return method, wire, surplus, exp, close_delim


def fmt_expected(exp, evict):
    _, status, version, text, hs, body, _ = exp
    return "DONE %d %s %s %s %s evict=%d" % (status, hx(version), hx(text), hs, hx(body), 1 if evict else 0)


def client_case(method, cap, chunks, close):
    evs = ["D:" + hx(c) for c in chunks if c] + (["X"] if close else [])
    return "CL %s %d %s" % (hx(method), cap, ";".join(evs) if evs else "X")


BAD_LENGTH_RESPONSES = [
    b"HTTP/1.1 200 OK\r\nContent-Length: 5, 6\r\n\r\nhello!",
    b"HTTP/1.1 200 OK\r\nContent-Length: 5\r\nContent-Length: 6\r\n\r\nhello!",
    b"HTTP/1.1 200 OK\r\nContent-Length: abc\r\n\r\nhello",
    b"HTTP/1.1 200 OK\r\nContent-Length: 5abc\r\n\r\nhello",
    b"HTTP/1.1 200 OK\r\nContent-Length: +5\r\n\r\nhello",
    b"HTTP/1.1 200 OK\r\nContent-Length: -5\r\n\r\nhello",
    b"HTTP/1.1 200 OK\r\nContent-Length: \r\n\r\nhello",
    b"HTTP/1.1 200 OK\r\nContent-Length: 5,\r\n\r\nhello",
    b"HTTP/1.1 200 OK\r\nContent-Length: 18446744073709551616\r\n\r\nhello",
    b"HTTP/1.1 200 OK\r\nContent-Length: 99999999999999999999999\r\n\r\nhello",
    b"HTTP/1.1 200 OK\r\nContent-Length: 0x5\r\n\r\nhello",
    b"HTTP/1.1 200 OK\r\nContent-Length: 5\r\nTransfer-Encoding: chunked\r\n\r\n5\r\nhello\r\n0\r\n\r\n",
    b"HTTP/1.1 200 OK\r\nTransfer-Encoding: chunked\r\n\r\n10000000000000000\r\nhello\r\n0\r\n\r\n",
    b"HTTP/1.1 200 OK\r\nTransfer-Encoding: chunked\r\n\r\nFFFFFFFFFFFFFFFF\r\nhello\r\n0\r\n\r\n",
    b"HTTP/1.1 200 OK\r\nTransfer-Encoding: chunked\r\n\r\nFFFFFFFFFFFFFFEC\r\n",
    b"HTTP/1.1 200 OK\r\nTransfer-Encoding: chunked\r\n\r\n5 \r\nhello\r\n0\r\n\r\n",
    b"HTTP/1.1 200 OK\r\nTransfer-Encoding: chunked\r\n\r\n5x\r\nhello\r\n0\r\n\r\n",
    b"HTTP/1.1 200 OK\r\nTransfer-Encoding: chunked\r\n\r\n\r\nhello\r\n0\r\n\r\n",
    b"HTTP/1.1 200 OK\r\nTransfer-Encoding: chunked\r\n\r\n5\nhello\r\n0\r\n\r\n",
    b"HTTP/1.1 200 OK\r\nTransfer-Encoding: chunked\r\n\r\n5\r\nhelloXX0\r\n\r\n",
    b"HTTP/1.1 200 OK\r\nTransfer-Encoding: chunked\r\n\r\n-5\r\nhello\r\n0\r\n\r\n",
    b"HTTP/2 200 OK\r\n\r\n", b"HTTP/1.1 2000 OK\r\n\r\n", b"HTTP/1.1 abc OK\r\n\r\n", b"ICY 200 OK\r\n\r\n",
    b"HTTP/1.1 200 OK\r\n folded: x\r\n\r\n", b"HTTP/1.1 200 OK\r\nNoColonHere\r\n\r\n",
]


# ------------------------------------------------------------------- server side

def gen_request(rng, idx, allow_trailers=False):
    method = rng.choice([b"GET", b"POST", b"PUT", b"DELETE"])
    target = b"/" + rand_token(rng, rng.randint(0, 6))
    hdrs = [(b"Host", b"h"), (b"X-Id", str(idx).encode())]
    for _ in range(rng.randint(0, 2)):
        hdrs.append((b"X-" + rand_token(rng, 3), rand_token(rng, rng.randint(0, 6))))
    body = rand_bytes(rng, rng.choice([0, 0, 1, 7, 60, 400, rng.randint(0, 300), rng.randint(0, 70)])) if method in (b"POST", b"PUT") else b""
    mode = "none"
    wire_body = b""
    ntr = 0
    if body or rng.random() < 0.2:
        if rng.random() < 0.6:
            mode = "cl"
            hdrs.append((rng.choice([b"Content-Length", b"content-length"]), str(len(body)).encode()))
            wire_body = body
        else:
            mode = "chunked"
            hdrs.append((b"Transfer-Encoding", b"chunked"))
            wire_body, ntr = enc_chunked(rng, body, trailers=allow_trailers)
    rng.shuffle(hdrs)
    wire = method + b" " + target + b" HTTP/1.1\r\n" + b"".join(k + b": " + v + b"\r\n" for k, v in hdrs) + b"\r\n" + wire_body
    return wire, body, mode, ntr


SERVER_BAD = [
    (b"POST / HTTP/1.1\r\nHost: a\r\nContent-Length: 5abc\r\n\r\nhelloXYZ", "server-lenient-content-length"),
    (b"POST / HTTP/1.1\r\nHost: a\r\nContent-Length: +5\r\n\r\nhello", "server-lenient-content-length"),
    (b"POST / HTTP/1.1\r\nHost: a\r\nContent-Length: 5\r\nContent-Length: 6\r\n\r\nhello!", "server-lenient-content-length"),
    (b"POST / HTTP/1.1\r\nHost: a\r\nTransfer-Encoding: xchunkedy\r\n\r\n0\r\n\r\n", "server-te-substring"),
    (b"POST / HTTP/1.1\r\nHost: a\r\nContent-Length: 3\r\nTransfer-Encoding: chunked\r\n\r\n0\r\n\r\n", "server-cl-and-te-accepted"),
    (b"POST / HTTP/1.1\r\nHost: a\r\nTransfer-Encoding: chunked\r\n\r\n0x5\r\nhello\r\n0\r\n\r\n", "server-lenient-chunk-size"),
    (b"POST / HTTP/1.1\r\nHost: a\r\nTransfer-Encoding: chunked\r\n\r\n+5\r\nhello\r\n0\r\n\r\n", "server-lenient-chunk-size"),
    (b"POST / HTTP/1.1\r\nHost: a\r\nTransfer-Encoding: chunked\r\n\r\n5 \r\nhello\r\n0\r\n\r\n", "server-lenient-chunk-size"),
    (b"POST / HTTP/1.1\r\nHost: a\r\nTransfer-Encoding: chunked\r\n\r\n5\r\nhelloXX0\r\n\r\n", "server-lenient-chunk-size"),
    (b"POST / HTTP/1.1\r\nHost: a\r\nTransfer-Encoding: chunked, gzip\r\n\r\n0\r\n\r\n", "server-te-substring"),
    (b"POST / HTTP/1.1\r\nHost: a\r\nContent-Length: 5, 6\r\n\r\nhello!", "server-lenient-content-length"),
    (b"POST / HTTP/1.1\r\nHost: a\r\nContent-Length: \r\n\r\n", "server-lenient-content-length"),
    (b"POST / HTTP/1.1\r\nHost: a\r\nContent-Length: -0\r\n\r\n", "server-lenient-content-length"),
]
SERVER_HOSTILE = [
    b"POST / HTTP/1.1\r\nHost: a\r\nTransfer-Encoding: chunked\r\n\r\nFFFFFFFFFFFFFFEC\r\n",
    b"POST / HTTP/1.1\r\nHost: a\r\nTransfer-Encoding: chunked\r\n\r\nFFFFFFFFFFFFFFFF\r\nabc",
    b"POST / HTTP/1.1\r\nHost: a\r\nTransfer-Encoding: chunked\r\n\r\nFFFFFFFFFFFFFFFE\r\n",
    b"POST / HTTP/1.1\r\nHost: a\r\nTransfer-Encoding: chunked\r\n\r\n10000000000000000\r\n",
    b"POST / HTTP/1.1\r\nHost: a\r\nContent-Length: 99999999999999999999\r\n\r\n",
    b"POST / HTTP/1.1\r\nHost: a\r\nContent-Length: -1\r\n\r\n",
    b"POST / HTTP/1.1\r\nHost: a\r\nContent-Length: 10485761\r\n\r\n",
    b"POST / HTTP/1.1\r\nHost: a\r\nContent-Length: \r\n\r\n",
    b"\r\n\r\n", b"\r\n\r\n\r\n\r\nGET / HTTP/1.1\r\nHost: a\r\n\r\n",
]


def build_cases(ctx):
    rng = vlib.rng_for(ctx)
    thorough = ctx["tier"] == "thorough"
    cases = []

    def add(line, **meta):
        cases.append((line, meta))

    cdir = os.path.join(vlib.VERIF, "corpus", PID)
    if os.path.isdir(cdir):
        for fn in sorted(os.listdir(cdir)):
            for line in open(os.path.join(cdir, fn)):
                line = line.strip()
                if line and not line.startswith("#"):
                    add(line, kind="corpus")

    # ---- client: valid responses x segmentations
    nresp = 60 if not thorough else 1200
    for ri in range(nresp):
        cap = rng.choice([4096, 100000])
        method, wire, surplus, exp, close_delim = gen_response(rng, cap)
        gid = "c%d" % ri
        if close_delim:
            full = wire
            expected = fmt_expected(exp, True)
            close = True
        else:
            full = wire + surplus
            expected = fmt_expected(exp, bool(surplus))
            close = False
        if len(full) > cap:
            continue
        add(client_case(method, cap, [full], close), kind="cl-valid", group=gid, expect=expected, whole=True)
        lim = 120 if not thorough else 400
        if len(full) <= lim:
            for c in range(1, len(full)):
                add(client_case(method, cap, split_at(full, [c]), close), kind="cl-valid", group=gid, expect=expected)
        for _ in range(5 if not thorough else 15):
            cuts = [rng.randint(1, max(1, len(full) - 1)) for _ in range(rng.choice([1, 2, 3, 6]))]
            add(client_case(method, cap, split_at(full, cuts), close), kind="cl-valid", group=gid, expect=expected)
        if len(full) <= (60 if not thorough else 200):
            add(client_case(method, cap, [full[i:i + 1] for i in range(len(full))], close), kind="cl-valid", group=gid,
                expect=expected)
        # prefixes must never complete early (no surplus appended): NEED / TRUNC
        if not close_delim and exp[5] and len(wire) < 400:
            for _ in range(3):
                k = rng.randint(1, len(wire) - 1)
                add(client_case(method, cap, [wire[:k]], False), kind="cl-prefix", full=wire)

    # ---- client: invalid length information must be rejected
    for w in BAD_LENGTH_RESPONSES:
        add(client_case(b"GET", 100000, [w], False), kind="cl-bad")
        add(client_case(b"GET", 100000, split_at(w, [rng.randint(1, len(w) - 1)]), False), kind="cl-bad")
    # cap: a Content-Length / chunk beyond the cap is an error; buffering never exceeds the cap
    for cap in (16, 64, 200):
        add(client_case(b"GET", cap, [b"HTTP/1.1 200 OK\r\nContent-Length: %d\r\n\r\n" % (cap + 1)], False), kind="cl-bad")
        add(client_case(b"GET", cap, [b"HTTP/1.1 200 OK\r\nTransfer-Encoding: chunked\r\n\r\n%x\r\n" % (cap + 1)], False), kind="cl-bad")
        add(client_case(b"GET", cap, [b"H" * (cap + 1)], False), kind="cl-bad")
        add(client_case(b"GET", cap, [b"H" * cap, b"H"], False), kind="cl-bad")
    # ---- client: mutated streams
    nmut = 150 if not thorough else 4000
    for _ in range(nmut):
        cap = rng.choice([256, 4096])
        method, wire, surplus, exp, close_delim = gen_response(rng, cap)
        w = bytearray(wire + surplus)
        for _ in range(rng.randint(1, 4)):
            if not w:
                break
            r = rng.random()
            i = rng.randrange(len(w))
            if r < 0.4:
                w[i] = rng.choice([13, 10, 32, 58, 59, 48, 70, 0, 255, rng.getrandbits(8)])
            elif r < 0.6:
                del w[i]
            elif r < 0.8:
                w[i:i] = rng.choice([b"\r\n", b"\n", b"\r", b" ", b"0", b"f" * 16])
            else:
                w = w[:i]
        chunks = split_at(bytes(w), [rng.randint(1, max(1, len(w) - 1)) for _ in range(rng.randint(0, 3))])
        add(client_case(method, cap, chunks, rng.random() < 0.3), kind="cl-mut")

    # ---- unit: Content-Length lists / Transfer-Encoding lists
    for v in [b"5", b"5,5", b" 5 , 5 ", b"5,6", b"", b",", b"5,", b"05", b"5 5", b"18446744073709551615",
              b"18446744073709551616", b"1e3", b"\t7\t"]:
        add("PCL " + hx(v), kind="unit")
    for v in [b"chunked", b"Chunked", b"gzip, chunked", b"chunked, gzip", b"xchunked", b"chunked,", b" , chunked ,  ", b""]:
        add("TE " + hx(v), kind="unit")

    # ---- server: valid pipelines x segmentations
    npipe = 40 if not thorough else 800
    for pi in range(npipe):
        reqs = [gen_request(rng, i + 1) for i in range(rng.randint(1, 4))]
        stream = b"".join(r[0] for r in reqs)
        expected = " ".join("Q:" + hx(r[0]) for r in reqs) + " buf=0 H=" + ",".join(hx(r[1]) for r in reqs)
        gid = "s%d" % pi
        add("SV " + hx(stream), kind="sv-valid", group=gid, expect=expected,
            bodies=[(i + 1, r[1], r[2]) for i, r in enumerate(reqs)])
        if len(stream) <= (150 if not thorough else 500):
            for c in range(1, len(stream), 1 if len(stream) < 100 else 3):
                add("SV " + ";".join(hx(x) for x in split_at(stream, [c])), kind="sv-valid", group=gid, expect=expected)
        for _ in range(4 if not thorough else 12):
            cuts = [rng.randint(1, max(1, len(stream) - 1)) for _ in range(rng.choice([1, 2, 4]))]
            add("SV " + ";".join(hx(x) for x in split_at(stream, cuts)), kind="sv-valid", group=gid, expect=expected)
    # trailers (known finding) -- a chunked request with a trailer section then another request
    for _ in range(6):
        r1 = gen_request(rng, 1, allow_trailers=True)
        while r1[3] == 0:
            r1 = gen_request(rng, 1, allow_trailers=True)
        r2 = gen_request(rng, 2)
        add("SV " + hx(r1[0] + r2[0]), kind="sv-trailers",
            expect="Q:%s Q:%s buf=0 H=%s,%s" % (hx(r1[0]), hx(r2[0]), hx(r1[1]), hx(r2[1])))
    for w, sig in SERVER_BAD:
        add("SV " + hx(w), kind="sv-bad", sig=sig)
    for w in SERVER_HOSTILE:
        add("SV " + hx(w), kind="sv-hostile")
        add("SV " + ";".join(hx(x) for x in split_at(w, [rng.randint(1, len(w) - 1)])), kind="sv-hostile")
    nm = 80 if not thorough else 2500
    for _ in range(nm):
        reqs = [gen_request(rng, i + 1) for i in range(rng.randint(1, 3))]
        w = bytearray(b"".join(r[0] for r in reqs))
        for _ in range(rng.randint(1, 4)):
            if not w:
                break
            r = rng.random()
            i = rng.randrange(len(w))
            if r < 0.5:
                w[i] = rng.choice([13, 10, 32, 58, 48, 70, 45, 43, 120, 0, 255, rng.getrandbits(8)])
            elif r < 0.7:
                del w[i]
            else:
                w[i:i] = rng.choice([b"\r\n", b"\n", b" ", b"0", b"F" * 16, b"\r\n\r\n"])
        chunks = split_at(bytes(w), [rng.randint(1, max(1, len(w) - 1)) for _ in range(rng.randint(0, 3))])
        add("SV " + ";".join(hx(x) for x in chunks), kind="sv-mut")
    return cases


def witness_cases():
    out = []
    for w, sig in SERVER_BAD:
        out.append(("SV " + hx(w), {"kind": "sv-bad", "sig": sig}))
    tr = b"POST / HTTP/1.1\r\nHost: a\r\nTransfer-Encoding: chunked\r\n\r\n1\r\nx\r\n0\r\nT: v\r\n\r\nGET / HTTP/1.1\r\nHost: a\r\n\r\n"
    exp = "Q:%s Q:%s buf=0 H=%s,-" % (hx(tr[:tr.index(b"GET")]), hx(tr[tr.index(b"GET"):]), hx(b"x"))
    out.append(("SV " + hx(tr), {"kind": "sv-trailers", "expect": exp}))
    return out


def evaluate(ctx, v, cases, impl, model):
    stats = {"kinds": {}, "nontrivial": set(), "disagree": 0}
    groups = {}
    for (line, meta), ri, rm in zip(cases, impl, model):
        k = meta["kind"]
        stats["kinds"][k] = stats["kinds"].get(k, 0) + 1
        failed = False
        if ri.startswith("EXC") or ri.startswith("CRASH"):
            what = "HTTP framing code threw out of the I/O path, crashed or hung (%s)" % ri
            v.property_failure("impl-throws-or-crashes", what, line, ri)
            failed = True
        elif k == "cl-valid":
            # whether surplus bytes are noticed depends on whether they arrived in the read that
            # completed the message: the evict flag is compared only for the unsegmented stream
            same = (ri == meta["expect"]) if meta.get("whole") else (ri.rsplit(" evict=", 1)[0] == meta["expect"].rsplit(" evict=", 1)[0])
            if not same:
                v.property_failure("client-framing-exact", "client does not hand the application exactly the encoded response "
                                   "(or the result depends on the segmentation)", line,
                                   "impl=%s\nexpected=%s" % (ri[:800], meta["expect"][:800]))
                failed = True
            else:
                stats["nontrivial"].add(line)
        elif k == "cl-prefix":
            if ri.startswith("DONE"):
                v.property_failure("client-completes-early", "a strict prefix of a response is reported complete", line, ri)
                failed = True
        elif k == "cl-bad":
            if ri != "ERR":
                v.property_failure("client-invalid-length-accepted", "invalid / conflicting / oversize length information is "
                                   "not rejected by the client", line, ri)
                failed = True
            else:
                stats["nontrivial"].add(line)
        elif k == "sv-valid":
            if ri != meta["expect"] and strip_h(ri) == strip_h(meta["expect"]):
                v.property_failure("server-body-not-decoded", "the body handed to the handler is not the encoded body (a chunked "
                                   "request body reaches the application as raw chunk syntax)", line,
                                   "handed=%s\nencoded=%s" % (ri.rsplit(" H=", 1)[-1][:600], meta["expect"].rsplit(" H=", 1)[-1][:600]))
                failed = True
            elif ri != meta["expect"]:
                v.property_failure("server-framing-exact", "server does not frame exactly the encoded requests "
                                   "(or the result depends on the segmentation)", line,
                                   "impl=%s\nexpected=%s" % (ri[:800], meta["expect"][:800]))
                failed = True
            else:
                stats["nontrivial"].add(line)
        elif k == "sv-trailers":
            if ri != meta["expect"]:
                v.property_failure("server-trailers-misframed", "a chunked request with a trailer section is cut before its "
                                   "final CRLF", line, "impl=%s\nexpected=%s" % (ri[:600], meta["expect"][:600]))
                failed = True
        elif k == "sv-bad":
            if "Q:" in ri:
                v.property_failure(meta["sig"], "server frames a request whose length information is invalid", line, ri[:400])
                failed = True
        elif k in ("unit", "cl-mut", "sv-mut", "sv-hostile", "corpus"):
            if ri.startswith("DONE") or "Q:" in ri or ri.isdigit():
                stats["nontrivial"].add(line)
        # the handler is not reached by a request that HttpRequest::fromWireFormat refuses (no Host, bad request line ...),
        # which the framing model does not decide: outside the valid streams only the framing part is compared
        ci, cm = (ri, rm) if k in ("sv-valid", "sv-trailers") or not line.startswith("SV ") else (strip_h(ri), strip_h(rm))
        if ci != cm:
            stats["disagree"] += 1
            if not failed:
                v.disagreement("C15 correspondence: model and implementation differ on a %s case" % k, line, ri, rm)
    return stats


def strip_h(r):
    return r.rsplit(" H=", 1)[0]


def run(ctx):
    t0 = time.time()
    v = vlib.Verdict(ctx)
    proof = vlib.prove(ctx, "C15", extra_targets=["C15/Extract.vo"])
    if proof["broken"]:
        v.proof_broken(proof["broken"], proof["log_tail"])
    cov = {"evaluations": 0, "distinct_nontrivial": 0, "rule": "", "samples": []}
    model_exe = None
    try:
        model_exe = vlib.build_driver("c15")
    except Exception as e:
        v.harness_broken("model driver failed to build", str(e)[-2000:])
    impl_exe, blog = vlib.build_harness("c15_impl")
    if impl_exe is None:
        v.harness_broken("harness/c15_impl.cpp no longer compiles against /repo/include", blog)
    if model_exe and impl_exe:
        if ctx.get("replay"):
            cases = [(l.strip(), {"kind": "corpus"}) for l in open(ctx["replay"]) if l.strip() and not l.startswith("#")]
        else:
            cases = witness_cases() + build_cases(ctx)
        li, lm, logs = vlib.run_pair(ctx, impl_exe, model_exe, [c[0] for c in cases], "c15")
        stats = evaluate(ctx, v, cases, li, lm)
        if ctx.get("replay"):
            for (line, _), a, b in zip(cases, li, lm):
                print("case:  %s\nimpl:  %s\nmodel: %s" % (line[:300], a[:800], b[:800]))
        cov = {
            "evaluations": len(cases),
            "distinct_nontrivial": len(stats["nontrivial"]),
            "rule": "seeded generator: responses (status/version/reason, header sets with case variants, Content-Length incl. "
                    "lists and leading zeros, chunked with every size spelling, extensions, BWS, trailers, close-delimited, "
                    "HEAD/204/304, interim 1xx, surplus bytes) and request pipelines (1-4 requests, Content-Length and chunked), "
                    "each under the whole stream, ALL single cuts (short streams), random multi-cuts and byte-at-a-time; "
                    "expected results from an independent Python encoder; invalid-length tables; mutated streams; cap "
                    "boundaries. Non-trivial = a message was framed and equals the expectation / an invalid length was "
                    "rejected; distinct = distinct case lines.",
            "samples": [c[0][:300] for c in cases[:2]] + [c[0][:300] for c in cases[len(cases) // 2:len(cases) // 2 + 2]],
            "case_kinds": stats["kinds"],
            "disagreements_model_vs_impl": stats["disagree"],
            "impl_rc": logs[0], "model_rc": logs[2],
        }
        if logs[0] != 0 and not any(x["sig"] == "impl-throws-or-crashes" for x in v.violations):
            v.property_failure("impl-throws-or-crashes", "harness exited abnormally (sanitizer report or hang)", "", logs[1])
    rc = v.finish()
    ctx["assumptions"] = [
        "the harness replicates the three statements of the receive loop around frameResponse (append, cap check, call) and the PeerClosed branch",
        "requests are observed at the framing layer (IORA_VERIF hook) before they are dispatched to the worker pool",
    ]
    vlib.write_evidence(ctx, proof, cov, time.time() - t0, len(v.violations))
    return rc
