"""C03 — synchronous receive is a lossless ordered stream that drains before EOF.

prove:      coq/C03/Properties.v
correspond: harness/c03_impl.cpp (real Transport over a scripted engine; events are also injected from
            inside the data callback while a Sync->Async flush is delivering a batch) vs. the extracted
            model vs. a Python re-statement of the stream semantics.
"""
import time

import vlib

PID = "C03"
HARNESS_OPTS = {"name": "c03_impl", "libs": "-lpthread"}
HARNESSES = [HARNESS_OPTS]
META = {
    "category": "proof",
    "technique": "Coq proof (stream invariant over all interleavings of locked steps) + differential correspondence",
    "text": "Coq theorems over an executable model of the per-session sync-receive machinery (onData/onClose handlers, "
            "receiveSync, setReadMode with its multi-step flush, tombstone GC), one step per acquisition of syncMutex so "
            "that every interleaving of the I/O thread with a receiving / flushing application thread is a step sequence: "
            "for EVERY such sequence the bytes accepted from the peer equal the bytes handed to the application (receiveSync "
            "results and data callbacks, in order) followed by the flusher's batch and the buffer - each byte once, in "
            "order, for any buffer lengths; PeerClosed is returned only with everything delivered; a byte is dropped only in "
            "Disabled mode or at/after a reported overflow; after an overflow the reader gets the bytes buffered before it "
            "and then BufferOverflow forever; a reader arriving after the close never times out while the tombstone exists. "
            "Tied to the code by running generated histories (chunkings, buffer lengths, mode switches, nested events "
            "inside flush callbacks, closes, GCs) on the real Transport and on the extracted model.",
    "design_ref": "DESIGN.md §7 C03",
    "note": "partial: real thread schedules are not exhibited; the model's steps are the code's critical sections (each under "
            "one syncMutex acquisition) and a parked receiveSync is represented by its completion step, which is sound for "
            "condition-variable waits that re-check the predicate under the lock; the harness realises the interleavings "
            "with a flush through re-entrant injection from the flush callback. Not modelled: teardown (shuttingDown), the "
            "single-waiter rejection of a second concurrent receiveSync, timeouts other than 0. Trusted: Coq kernel; "
            "extraction + OCaml driver; harness/c03_impl.cpp with harness/recording_engine.hpp; Python oracle.",
}


def hx(b):
    return bytes(b).hex() if b else "-"


class Spec:
    """the stream semantics restated (independent of the Coq model's structure)"""

    def __init__(self, maxbuf):
        self.maxbuf = maxbuf
        self.mode = "a"
        self.pending = bytearray()   # accepted, not yet handed over
        self.have_buf = False
        self.overflow = False
        self.closed = False
        self.flushing = False
        self.out = []

    def cb(self, b):
        self.out.append("C:" + hx(b))

    def data(self, b):
        if self.mode == "s":
            if not self.have_buf or self.overflow:
                return
            if len(self.pending) + len(b) > self.maxbuf:
                self.overflow = True
                return
            self.pending += b
        elif self.mode == "a":
            self.cb(b)

    def close(self):
        self.closed = True
        self.have_buf = True
        self.mode = "a"

    def recv(self, n):
        if self.flushing:
            self.out.append("N")
            return
        self.have_buf = True
        if self.pending:
            k = min(n, len(self.pending))
            self.out.append("R:" + hx(self.pending[:k]))
            del self.pending[:k]
        elif self.overflow:
            self.out.append("O")
        elif self.closed:
            self.out.append("X")
            self.have_buf = False
            self.closed = False
            self.overflow = False
            self.mode = "a"
        else:
            self.out.append("T")

    def gc(self):
        if self.have_buf and self.closed and not self.pending and not self.flushing:
            self.have_buf = False
            self.closed = False
            self.overflow = False

    def setmode(self, m, nested, run):
        if m != "a":
            self.mode = m
            if m == "s":
                self.have_buf = True
            return
        if self.mode == "a":
            return
        if not self.have_buf:
            self.mode = "a"
            return
        self.flushing = True
        k = 0
        while self.pending:
            batch = bytes(self.pending)
            self.pending.clear()
            self.cb(batch)
            if k < len(nested):
                for ev in nested[k]:
                    run(ev)
            k += 1
        self.mode = "a"
        self.flushing = False


def split_top(s, sep):
    parts, cur, depth = [], "", 0
    for ch in s:
        if ch == "[":
            depth += 1
        if ch == "]":
            depth -= 1
        if ch == sep and depth == 0:
            parts.append(cur)
            cur = ""
        else:
            cur += ch
    parts.append(cur)
    return parts


def spec_outputs(maxbuf, evs):
    sp = Spec(maxbuf)

    def run(ev):
        if not ev:
            return
        p = ev.split(":")
        if p[0] == "d":
            sp.data(bytes.fromhex(p[1]) if p[1] != "-" else b"")
        elif p[0] == "c":
            sp.close()
        elif p[0] == "g":
            sp.gc()
        elif p[0] == "r":
            sp.recv(int(p[1]))
        elif p[0] == "m":
            nested = []
            if "[" in ev:
                body = ev[ev.index("[") + 1:ev.rindex("]")]
                nested = [g.split(",") for g in body.split("|")]
            sp.setmode(p[1][0], nested, run)

    for ev in split_top(evs, ";"):
        run(ev)
    return sp.out


def merge_cb(tokens):
    """adjacent callback deliveries are one stretch of the stream"""
    out = []
    for t in tokens:
        if t.startswith("C:") and out and out[-1].startswith("C:"):
            a = "" if out[-1][2:] == "-" else out[-1][2:]
            b = "" if t[2:] == "-" else t[2:]
            out[-1] = "C:" + ((a + b) or "-")
        else:
            out.append(t)
    return out


def gen_case(rng):
    maxbuf = rng.choice([4, 8, 8, 16, 1 << 20])
    cnt = [0]
    closed = [False]

    def chunk():
        n = rng.choice([1, 1, 2, 3, 5, 6, 9])
        b = bytes(((cnt[0] + i) & 0xFF) for i in range(n))
        cnt[0] += n
        return hx(b)

    def simple(nested=False):
        r = rng.random()
        if r < 0.42 and not closed[0]:
            return "d:" + chunk()
        if r < 0.70:
            return "r:%d" % rng.choice([1, 1, 2, 3, 4, 100])
        if r < 0.80:
            return "m:" + rng.choice("sssd")
        if r < 0.86 and not closed[0]:
            closed[0] = True
            return "c"
        if r < 0.92:
            return "g"
        return "d:" + chunk() if not closed[0] else "r:2"

    evs = []
    if rng.random() < 0.85:
        evs.append("m:s")
    for _ in range(rng.randint(3, 18)):
        r = rng.random()
        if r < 0.14:
            groups = []
            for _ in range(rng.randint(0, 3)):
                groups.append(",".join(simple(True) for _ in range(rng.randint(0, 3))))
            evs.append("m:a[%s]" % "|".join(groups) if groups else "m:a")
        else:
            evs.append(simple())
    evs += ["r:100", "r:100", "c" if not closed[0] else "g", "r:100", "r:100"]
    return "T %d %s" % (maxbuf, ";".join(evs))


def run(ctx):
    t0 = time.time()
    v = vlib.Verdict(ctx)
    proof = vlib.prove(ctx, "C03", extra_targets=["C03/Extract.vo"])
    if proof["broken"]:
        v.proof_broken(proof["broken"], proof["log_tail"])
    cov = {"evaluations": 0, "distinct_nontrivial": 0, "rule": "", "samples": []}
    model_exe = None
    try:
        model_exe = vlib.build_driver("c03")
    except Exception as e:
        v.harness_broken("model driver failed to build", str(e)[-2000:])
    impl_exe, blog = vlib.build_harness(**HARNESS_OPTS)
    if impl_exe is None:
        v.harness_broken("harness/c03_impl.cpp no longer compiles against /repo/include", blog)
    if model_exe and impl_exe:
        rng = vlib.rng_for(ctx)
        thorough = ctx["tier"] == "thorough"
        if ctx.get("replay"):
            lines = [l.strip() for l in open(ctx["replay"]) if l.strip() and not l.startswith("#")]
            li, lm, _ = vlib.run_pair(ctx, impl_exe, model_exe, lines, "c03r")
            for a, b, c in zip(lines, li, lm):
                print("case:  %s\nimpl:  %s\nmodel: %s\nspec:  %s" % (a, b, c, " ".join(spec_outputs(int(a.split(" ")[1]), a.split(" ")[2]))))
            cov["evaluations"] = len(lines)
        else:
            n = 1500 if not thorough else 40000
            corpus = [
                "T 8 m:s;d:0102;d:030405;r:2;r:10;r:1;c;r:1;r:1",
                "T 8 m:s;d:01020304;d:0506070809;d:0a;r:3;r:10;r:10;c;r:10",          # F14 (fixed 402e2fd)
                "T 8 m:s;d:0102;m:d;d:03;m:a;d:04;m:s;d:05;r:10",                     # F24 (fixed a25dd9c)
                "T 8 m:s;d:0102;m:a[d:03,r:1|d:04,c];d:05",
                "T 8 d:01;m:s;d:02;c;g;r:5;r:5;g;r:5",
                "T 8 m:s;c;g;r:1",
                "T 4 m:s;d:01020304;d:05;r:1;d:06;r:10;r:10;m:a;d:07",
            ]
            lines = corpus + [gen_case(rng) for _ in range(n)]
            li, lm, _ = vlib.run_pair(ctx, impl_exe, model_exe, lines, "c03h", timeout=1200)
            nontrivial = set()
            disagree = 0
            toks = {}
            for line, ri, rm in zip(lines, li, lm):
                if ri.startswith("CRASH") or ri.startswith("EXC"):
                    v.property_failure("impl-crashes", "Transport crashed / threw on a history (%s)" % ri[:200], line, ri[:600])
                    continue
                ti = [] if ri == "." else ri.split(" ")
                for t in ti:
                    toks[t[0]] = toks.get(t[0], 0) + 1
                sp = spec_outputs(int(line.split(" ")[1]), line.split(" ")[2])
                bad = False
                if merge_cb(ti) != merge_cb(sp):
                    a, b = merge_cb(ti), merge_cb(sp)
                    idx = next((i for i, (x, y) in enumerate(zip(a, b)) if x != y), min(len(a), len(b)))
                    v.property_failure("stream-differs-from-spec", "the application sees %s where the stream semantics give %s "
                                       "(lost / duplicated / reordered byte, EOF before drain, overflow not sticky, delivery "
                                       "while disabled)" % (a[idx] if idx < len(a) else "<nothing>", b[idx] if idx < len(b) else "<nothing>"),
                                       line, "impl: %s\nspec: %s" % (ri[:1500], " ".join(sp)[:1500]))
                    bad = True
                if ri != rm:
                    disagree += 1
                    if not bad:
                        v.disagreement("C03 correspondence: sync-receive model and implementation differ on a history", line, ri[:2000], rm[:2000])
                elif not bad:
                    nontrivial.add(line)
            cov = {
                "evaluations": len(lines),
                "distinct_nontrivial": len(nontrivial),
                "rule": "random histories of 8..25 events on one session of a real Transport (scripted engine): data chunks of 1..9 "
                        "consecutive byte values (order/duplication visible), receiveSync with buffer lengths 1/2/3/4/100 and "
                        "timeout 0, switches to Sync/Disabled, switches to Async with 0..3 nested scripts executed inside the "
                        "1st/2nd/3rd flush callback (data, receives, mode switches, close, GC), one close, tombstone GCs; "
                        "maxSyncReceiveBuffer 4/8/16/1M. Compared: the whole token stream impl vs model, and impl vs a Python "
                        "re-statement of the stream semantics (adjacent callback deliveries merged).",
                "samples": lines[7:10],
                "observed_tokens": toks,
                "disagreements_model_vs_impl": disagree,
            }
    rc = v.finish()
    ctx["assumptions"] = ["the engine delivers no data after its close event (engine contract)",
                          "receiveSync is called with timeout 0: a parked receive is represented by the call made when it would wake"]
    vlib.write_evidence(ctx, proof, cov, time.time() - t0, len(v.violations))
    return rc
