"""C11 — persistent stores recover every acknowledged write after a crash.

prove:      coq/C11/Properties.v
correspond: harness/c11_impl.cpp (real KVStore / JsonFileStore on scratch directories) vs. the
            extracted storage model; crash images are prefixes of the real log at every byte
            offset (plus the compaction window snapshot-new + log-old), each reopened by a
            fresh KVStore, continued with an acknowledged write, closed and reopened again.
"""
import os
import time

import vlib

PID = "C11"
HARNESS_OPTS = {"name": "c11_impl", "libs": "-lpthread -ldl"}
HARNESSES = [HARNESS_OPTS]
META = {
    "category": "proof",
    "technique": "Coq proof (framing lemmas over byte prefixes, replay idempotence) + crash-image correspondence",
    "text": "Coq theorems over an executable model of KVStore's on-disk formats and load(): a log made of whole records "
            "replays to exactly the fold of those records; ANY byte prefix of such a log (a crash at any offset inside any "
            "write) replays to the records completely contained in it and is cut exactly there, so later acknowledged "
            "appends are framed correctly (the defect fixed in eba9317); replay is idempotent, hence the compaction window "
            "(new snapshot + old log) recovers the same map; JsonFileStore's flush (tmp + rename, fix 33cb475) leaves the "
            "old or the new contents at every crash point. The checksum is a parameter of the theorems. Tied to the code by "
            "reopening real stores on images cut at every byte offset of real logs and comparing with the model's load.",
    "design_ref": "DESIGN.md §7 C11",
    "note": "Trusted: Coq kernel; extraction + OCaml driver; harness/c11_impl.cpp (crash images are built by truncating "
            "copies of the real files: process-crash model, bytes that reached the OS survive, rename is atomic); Python "
            "oracle. Modelled not verified: std::ofstream buffering (one flush per record), std::filesystem::rename/"
            "resize_file, unordered_map iteration order inside batch/clear (any order), fsync is not modelled.",
}

# ---- additions of the translator / tie session (appended to the manifest texts)
META["text"] += " JsonFileStore: every flush runs under a crash recorder (write / writev / rename interposed): the directory as a process killed before each effect and in the middle of each write would leave it is reopened by a fresh JsonFileStore and must show the last completed flush or the flush in progress; the order of the durable effects is compared with the model's jflush_steps. GenTie.v: the KV limits, magic, version and plausibility window of the model against the headers' current values (coq/Gen/Constants.v, regenerated every run)."


def hx(b):
    return bytes(b).hex() if b else "-"


KEYS = [b"a", b"b", b"ab", b"abc", b"k\x00z", b"\xff\xfe", b"key-with-long-name-0123456789"]


def rec_size(op, k, v=b""):
    return 4 + 1 + 4 + len(k) + (8 if op in "EX" else 0) + (4 + len(v) if op in "SE" else 0) + 4


class Ref:
    """reference map with absolute expiry + physical presence (what is in _kv)"""

    def __init__(self):
        self.m = {}      # key -> (value, expiry or None)

    def copy(self):
        r = Ref()
        r.m = dict(self.m)
        return r

    def visible(self, now):
        return {k: ve for k, ve in self.m.items() if ve[1] is None or ve[1] > now}

    def dump(self, now):
        items = sorted("%s=%s@%s" % (hx(k), hx(v), "-" if e is None else e) for k, (v, e) in self.visible(now).items())
        return ",".join(items) or "-"


def gen_crash_history(rng):
    """ops at t=1000 with far-future expiries only; returns (ops text list, [(bytes, touched, apply_fn)])"""
    ops, steps = [], []
    ref = Ref()
    val = 0
    for _ in range(rng.randint(2, 9)):
        r = rng.random()
        k = rng.choice(KEYS)
        val += 1
        v = bytes([val]) * rng.choice([0, 1, 3, 40])
        if r < 0.35:
            ops.append("S:%s:%s" % (hx(k), hx(v)))
            steps.append((rec_size("S", k, v), [k], ("set", k, v, None)))
            ref.m[k] = (v, None)
        elif r < 0.5:
            ttl = rng.choice([100, 3600])
            ops.append("E:%s:%s:%d" % (hx(k), hx(v), ttl))
            steps.append((rec_size("E", k, v), [k], ("set", k, v, 1000 + ttl * 1000)))
            ref.m[k] = (v, 1000 + ttl * 1000)
        elif r < 0.65:
            ops.append("R:%s" % hx(k))
            if k in ref.m:
                steps.append((rec_size("D", k), [k], ("del", k)))
                del ref.m[k]
        elif r < 0.75:
            ms = rng.choice([50000, 9999999])
            ops.append("X:%s:%d" % (hx(k), ms))
            if k in ref.m:
                steps.append((rec_size("X", k), [k], ("exp", k, ms)))
                ref.m[k] = (ref.m[k][0], ms)
        elif r < 0.82:
            ops.append("P:%s" % hx(k))
            if k in ref.m and ref.m[k][1] is not None:
                steps.append((rec_size("X", k), [k], ("exp", k, None)))
                ref.m[k] = (ref.m[k][0], None)
        elif r < 0.92:
            ks = rng.sample(KEYS, rng.randint(1, 3))
            items = [(kk, bytes([val, i])) for i, kk in enumerate(ks)]
            ops.append("B:%s" % ",".join("%s=%s" % (hx(a), hx(b)) for a, b in items))
            steps.append((sum(rec_size("S", a, b) for a, b in items), [a for a, _ in items], ("batch", items)))
            for a, b in items:
                ref.m[a] = (b, None)
        else:
            ops.append("C")
            if ref.m:
                steps.append((sum(rec_size("D", a) for a in ref.m), list(ref.m), ("clear",)))
                ref.m = {}
    return ops, steps


def apply_step(ref, st, only=None):
    kind = st[0]
    if kind == "set":
        ref.m[st[1]] = (st[2], st[3])
    elif kind == "del":
        ref.m.pop(st[1], None)
    elif kind == "exp":
        if st[1] in ref.m:
            ref.m[st[1]] = (ref.m[st[1]][0], st[2])
    elif kind == "batch":
        for a, b in st[1]:
            if only is None or a in only:
                ref.m[a] = (b, None)
    elif kind == "clear":
        for a in list(ref.m):
            if only is None or a in only:
                del ref.m[a]


def admissible(steps, cut, now, dumped):
    """is `dumped` (k=v@e list) an admissible recovery for a log cut at byte `cut`?"""
    ref = Ref()
    pos = 0
    for size, touched, st in steps:
        if pos + size <= cut:
            apply_step(ref, st)
            pos += size
            continue
        if cut == pos:
            return dumped == ref.dump(now)
        # op in flight: each touched key old or new
        got = parse_dump(dumped)
        if got is None:
            return False
        new = ref.copy()
        apply_step(new, st)
        oldv, newv = ref.visible(now), new.visible(now)
        for k in set(oldv) | set(newv) | set(got):
            g = got.get(k)
            if k in touched:
                if g != oldv.get(k) and g != newv.get(k):
                    return False
            elif g != oldv.get(k):
                return False
        # single-record operations are all-or-nothing and a torn record is never applied
        if len(touched) == 1 and dumped != ref.dump(now):
            return False
        return True
    return dumped == ref.dump(now)


def parse_dump(d):
    if d in ("-", ""):
        return {}
    out = {}
    try:
        for it in d.split(","):
            k, rest = it.split("=", 1)
            v, e = rest.split("@")
            out[bytes.fromhex(k) if k != "-" else b""] = (bytes.fromhex(v) if v != "-" else b"", None if e == "-" else int(e))
    except ValueError:
        return None
    return out


def with_zz(d):
    m = parse_dump(d)
    if m is None:
        return None
    m[b"zz"] = (b"1", None)
    return ",".join(sorted("%s=%s@%s" % (hx(k), hx(v), "-" if e is None else e) for k, (v, e) in m.items()))


def split_files(line):
    """'reads | files=snap/log' -> (reads, snap bytes, log bytes)"""
    if " | files=" not in line:
        return line, None, None
    reads, files = line.rsplit(" | files=", 1)
    s, l = files.split("/")
    return reads, (b"" if s == "-" else bytes.fromhex(s)), (b"" if l == "-" else bytes.fromhex(l))


def json_cases(rng, n):
    out = []
    for _ in range(n):
        ops = []
        for _ in range(rng.randint(2, 10)):
            r = rng.random()
            k = rng.choice([b"a", b"b", b"key"])
            if r < 0.4:
                ops.append("s:%s:%s" % (hx(k), hx(bytes(rng.choice(b"abc xyz\"\\\n") for _ in range(rng.randint(0, 6))))))
            elif r < 0.5:
                ops.append("r:%s" % hx(k))
            elif r < 0.7:
                ops.append("f")
            elif r < 0.8:
                ops.append("o")
            else:
                ops.append("g:%s" % hx(k))
        ops += ["f", "g:61", "o", "g:61", "g:62"]
        out.append("J " + ";".join(ops))
    return out


def run(ctx):
    t0 = time.time()
    v = vlib.Verdict(ctx)
    proof = vlib.prove(ctx, "C11", extra_targets=["C11/Extract.vo"])
    if proof["broken"]:
        v.proof_broken(proof["broken"], proof["log_tail"])
    cov = {"evaluations": 0, "distinct_nontrivial": 0, "rule": "", "samples": []}
    model_exe = None
    try:
        model_exe = vlib.build_driver("c11")
    except Exception as e:
        v.harness_broken("model driver failed to build", str(e)[-2000:])
    impl_exe, blog = vlib.build_harness(**HARNESS_OPTS)
    if impl_exe is None:
        v.harness_broken("harness/c11_impl.cpp no longer compiles against /repo/include", blog)
    if model_exe and impl_exe:
        os.environ["VERIF_TMP"] = ctx["workdir"]
        rng = vlib.rng_for(ctx)
        thorough = ctx["tier"] == "thorough"
        nontrivial = set()
        kinds = {}
        disagree = 0
        if ctx.get("replay"):
            lines = [l.strip() for l in open(ctx["replay"]) if l.strip() and not l.startswith("#")]
            li, lm, logs = vlib.run_pair(ctx, impl_exe, model_exe, lines, "c11r")
            for a, b, c in zip(lines, li, lm):
                print("case:  %s\nimpl:  %s\nmodel: %s" % (a[:300], b[:1500], c[:1500]))
            total = len(lines)
        else:
            # ---- phase 1: histories on real stores; their real logs are the crash material
            nh = 40 if not thorough else 600
            hist = []
            for _ in range(nh):
                ops, steps = gen_crash_history(rng)
                hist.append(("H 1000 " + ";".join(ops + ["d"]), steps, "plain"))
            # compaction windows: history, KW (snapshot-new + log-old), then more ops
            for _ in range(10 if not thorough else 150):
                ops, steps = gen_crash_history(rng)
                hist.append(("H 1000 " + ";".join(ops + ["d", "KW", "d"]), steps, "window"))
            # a stale <store>.tmp left by a process killed inside an earlier compaction (in full, torn, or junk): the
            # next compaction must not build on it, and the state must survive that compaction, a clean close and a reopen
            for i in range(12 if not thorough else 150):
                o1, _ = gen_crash_history(rng)
                o2, _ = gen_crash_history(rng)
                o3, _ = gen_crash_history(rng)
                w = ["W:full", "W:half", "W:junk:%s" % hx(bytes(rng.randrange(256) for _ in range(rng.randint(1, 40))))][i % 3]
                ops = o1 + ["K"] + o2 + [w] + o3 + ["d", "K", "d", "O", "d", "S:7a7a:31", "O", "d"]
                hist.append(("H 1000 " + ";".join(ops), None, "staletmp"))
            li, lm, logs = vlib.run_pair(ctx, impl_exe, model_exe, [h[0] for h in hist], "c11h")
            cut_cases = []
            for (line, steps, kind), ri, rm in zip(hist, li, lm):
                kinds["history"] = kinds.get("history", 0) + 1
                if ri.startswith("EXC") or ri.startswith("CRASH"):
                    v.property_failure("impl-throws-or-crashes", "KVStore crashed / threw unexpectedly (%s)" % ri[:200], line, ri[:600])
                    continue
                reads_i, snap_i, log_i = split_files(ri)
                reads_m, _, _ = split_files(rm)
                if kind == "staletmp":
                    kinds["staletmp"] = kinds.get("staletmp", 0) + 1
                    toks = reads_i.split(" ")
                    ds = [t[2:] for t in toks if t.startswith("d:")]
                    if "EXC" in toks or "OPENFAIL" in toks or len(ds) != 4:
                        v.property_failure("reopen-fails", "with a stale .tmp left by a killed compaction the store throws on compaction / reopen",
                                           line, reads_i[:600])
                        continue
                    if not (ds[0] == ds[1] == ds[2]) or ds[3] != with_zz(ds[0]):
                        v.property_failure("crash-continuation", "after a compaction that found a stale .tmp (left by a process killed inside an "
                                           "earlier compaction) acknowledged writes are lost / old values reappear at the next reopen",
                                           line, "before compaction=%s\nafter compaction=%s\nafter reopen=%s\nafter set(zz)+reopen=%s" % tuple(d[:300] for d in ds))
                        continue
                    if reads_i != reads_m:
                        disagree += 1
                        v.disagreement("C11 correspondence: model and implementation differ on a stale-tmp history", line, reads_i, reads_m)
                    else:
                        nontrivial.add(line)
                    continue
                if strip_win(reads_i) != strip_win(reads_m):
                    disagree += 1
                    v.disagreement("C11 correspondence: model and implementation differ on a history", line, reads_i, reads_m)
                    continue
                if kind == "plain":
                    total_bytes = sum(s[0] for s in steps)
                    if log_i is None or len(log_i) != total_bytes:
                        v.disagreement("C11 correspondence: log size differs from the record format (%s vs %d)" %
                                       (None if log_i is None else len(log_i), total_bytes), line, ri[:400], "")
                        continue
                    n = len(log_i)
                    if n <= (400 if not thorough else 3000):
                        cuts = list(range(0, n + 1))
                    else:
                        cuts = sorted(set([0, n] + [rng.randrange(0, n) for _ in range(200)] + boundaries(steps)))
                    cut_cases.append(("L 1000 - %s %s" % (hx(log_i), ",".join(map(str, cuts))), steps, cuts, "cuts", line))
                else:
                    # window: new snapshot + old log; expected = the state before compaction
                    for tok in reads_i.split(" "):
                        if tok.startswith("win="):
                            s, l = tok[4:].split("/")
                            snap = bytes.fromhex(s) if s != "-" else b""
                            oldlog = bytes.fromhex(l) if l != "-" else b""
                            dumps = [t for t in reads_i.split(" ") if t.startswith("d:")]
                            cut_cases.append(("L 1000 %s %s %d" % (hx(snap), hx(oldlog), len(oldlog)), dumps[0][2:] if dumps else "-",
                                              [len(oldlog)], "window", line))
            # ---- phase 2: reopen every crash image with the real store and with the model
            li2, lm2, logs2 = vlib.run_pair(ctx, impl_exe, model_exe, [c[0] for c in cut_cases], "c11l", timeout=900)
            for (cline, info, cuts, kind, hline), ri, rm in zip(cut_cases, li2, lm2):
                kinds[kind] = kinds.get(kind, 0) + 1
                if ri.startswith("EXC") or ri.startswith("CRASH"):
                    v.property_failure("impl-throws-or-crashes", "KVStore crashed while reopening a crash image (%s)" % ri[:200], cline, ri[:600])
                    continue
                bad = False
                for item in ri.split(";"):
                    c, _, dd = item.partition(":")
                    d1, _, d2 = dd.partition("|")
                    if "OPENFAIL" in dd:
                        v.property_failure("reopen-fails", "reopening after a crash at log offset %s fails" % c, cline + "\n# history: " + hline, item[:300])
                        bad = True
                        break
                    if kind == "cuts":
                        ok1 = admissible(info, int(c), 1000, d1)
                    else:
                        ok1 = d1 == info
                    if not ok1:
                        v.property_failure("crash-recovery-state", "after a crash at log offset %s the store shows a state that is not "
                                           "admissible (lost acknowledged write, torn / foreign / resurrected value)" % c,
                                           cline + "\n# history: " + hline, "recovered=%s" % d1[:600])
                        bad = True
                        break
                    if d2 != with_zz(d1):
                        v.property_failure("crash-continuation", "a write acknowledged after recovering from a crash at offset %s is lost "
                                           "or the recovered state changes at the next reopen" % c, cline + "\n# history: " + hline,
                                           "after recovery=%s\nafter set(zz)+reopen=%s" % (d1[:400], d2[:400]))
                        bad = True
                        break
                if not bad:
                    nontrivial.add(cline)
                if ri != rm:
                    disagree += 1
                    if not bad:
                        v.disagreement("C11 correspondence: model load() and real reopen differ on a crash image", cline, ri[:1500], rm[:1500])
            # ---- JsonFileStore
            jc = json_cases(rng, 30 if not thorough else 400)
            li3, lm3, _ = vlib.run_pair(ctx, impl_exe, model_exe, jc, "c11j")
            for line, ri, rm in zip(jc, li3, lm3):
                kinds["json"] = kinds.get("json", 0) + 1
                if " img=BAD" in ri:
                    v.property_failure("jsonstore-crash-image", "a process killed inside a JsonFileStore flush leaves a store that reopens to neither "
                                       "the last completed flush nor the flush in progress (" + ri.split(" img=")[1][:160] + ")", line, ri[:600])
                elif ri.endswith("trunc=1"):
                    v.property_failure("jsonstore-truncates-in-place", "JsonFileStore re-opens its store file with a truncating mode: "
                                       "a crash before the data is written leaves an empty store", line, ri[:300])
                elif ri.startswith("EXC") or ri.startswith("CRASH"):
                    v.property_failure("impl-throws-or-crashes", "JsonFileStore crashed (%s)" % ri[:200], line, ri[:400])
                elif ri != rm:
                    disagree += 1
                    v.disagreement("C11 correspondence: JsonFileStore model and implementation differ", line, ri, rm)
                else:
                    nontrivial.add(line)
            total = len(hist) + sum(len(c[2]) for c in cut_cases) + len(jc)
            cov = {
                "evaluations": total,
                "distinct_nontrivial": len(nontrivial),
                "rule": "phase 1: random histories (set / set-with-TTL / remove / expireAt / persist / batch / clear over 7 binary keys, "
                        "values 0..40 bytes) executed on a real KVStore; phase 2: the real log is cut at EVERY byte offset (all "
                        "offsets for logs up to the tier's bound, otherwise record boundaries +/- random offsets), each image is "
                        "reopened by a fresh KVStore, checked for admissibility against the operation list, continued with an "
                        "acknowledged set, closed and reopened again; compaction windows (new snapshot + old log); histories in which a "
                        "stale <store>.tmp (a full / torn earlier snapshot or junk, as a process killed inside a compaction leaves it) is "
                        "present when the next compaction runs, followed by reopen, an acknowledged set and another reopen; JsonFileStore "
                        "histories with the flush discipline observed through fopen interposition. evaluations counts crash images; "
                        "non-trivial = distinct images/histories whose every cut was admissible and agreed with the model.",
                "samples": [h[0][:300] for h in hist[:2]] + [c[0][:200] for c in cut_cases[:2]],
                "case_kinds": kinds,
                "disagreements_model_vs_impl": disagree,
                "crash_images": sum(len(c[2]) for c in cut_cases),
            }
    rc = v.finish()
    ctx["assumptions"] = [
        "process-crash model: a crash leaves a prefix of the bytes appended to the log; rename() is atomic; no reordering of appends",
        "the harness builds crash images by truncating copies of the real files instead of killing the process",
    ]
    vlib.write_evidence(ctx, proof, cov, time.time() - t0, len(v.violations))
    return rc


def strip_win(reads):
    return " ".join(t for t in reads.split(" ") if not t.startswith("win="))


def boundaries(steps):
    out, pos = [], 0
    for size, _, _ in steps:
        out += [max(0, pos - 1), pos, pos + 1, pos + 4, pos + 5]
        pos += size
    out.append(pos)
    return out
