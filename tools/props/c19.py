"""C19 — DNS messages decode exactly or are rejected; cached answers honour TTL.

prove:      coq/C19/Properties.v
correspond: harness/c19_impl.cpp (real DnsMessage::parse/decodeName/encodeName/buildQuery,
            DnsCache with an interposed steady clock) vs. the extracted model, plus an
            independent Python encoder/compressor + expected-decoding oracle.
"""
import os
import time

import vlib

PID = "C19"
HARNESSES = [{"name": "c19_impl"}]
META = {
    "category": "proof",
    "technique": "Coq proof (inductive RFC-1035 name spec, invariants over cache histories) + differential correspondence",
    "text": "Coq theorems over an executable model of DnsMessage (name decoder with compression and loop detection, header/"
            "question/RR parsing, RDATA validation, all nine typed decoders, encodeName/buildQuery) and of DnsCache over "
            "ExpiringCache: exact decoding of every RFC-1035-shaped (compressed) name, totality and in-bounds reads for "
            "arbitrary bytes for the whole parser, loops/out-of-range pointers are errors, encode/decode and query round "
            "trips, cache soundness for every history. One statement is refuted with a witness (A records such as "
            "192.0.0.0 rejected by the 'malicious pointer' heuristic, which the repository's own tests pin) and recorded as a "
            "known finding; the same heuristic no longer rejects AAAA / TXT data (C19-F4c repaired). Tied to the code by running "
            "model and implementation on the same generated messages / histories every run.",
    "design_ref": "DESIGN.md §7 C19",
    "note": "Trusted: Coq kernel; extraction + OCaml driver; harness/c19_impl.cpp (private statics via #define private "
            "public; clock_gettime interposed for steady_clock); the Python generator/oracle. Modelled not verified: "
            "std::string/vector, unordered_set as a finite set, inet_ntop formatting (compared through inet_pton), the "
            "ExpiringCache purge thread (not observable through get), statistics counters (not modelled), DNS transport.",
}

# ---- additions of the translator / tie session (appended to the manifest texts)
META["text"] += " GenTie.v: label / name limits are the DNS constants of the current headers."

LABEL_POOL = [b"www", b"example", b"com", b"org", b"a", b"b", b"mail", b"_sip", b"_udp", b"x" * 63, b"ns1", b"Ex-1"]
T_A, T_NS, T_CNAME, T_SOA, T_PTR, T_MX, T_TXT, T_AAAA, T_SRV, T_NAPTR = 1, 2, 5, 6, 12, 15, 16, 28, 33, 35


def hx(b):
    return bytes(b).hex() if b else "-"


def rand_name(rng, maxlabels=4):
    n = rng.choice([0, 1, 2, 2, 3, 3, maxlabels])
    return tuple(rng.choice(LABEL_POOL[:9]) if rng.random() < 0.9 else bytes(rng.randrange(33, 127) for _ in range(rng.randint(1, 12)))
                 for _ in range(n))


def dotted(labels):
    return b".".join(labels)


class Enc:
    """reference encoder with a compressor that may point any name suffix at an earlier occurrence"""

    def __init__(self, rng, compress=0.7):
        self.buf = bytearray()
        self.rng = rng
        self.compress = compress
        self.suffixes = {}

    def u16(self, v):
        self.buf += int(v).to_bytes(2, "big")

    def u32(self, v):
        self.buf += int(v).to_bytes(4, "big")

    def name(self, labels, allow_compress=True):
        labels = list(labels)
        for i in range(len(labels)):
            suf = tuple(labels[i:])
            if allow_compress and suf in self.suffixes and self.rng.random() < self.compress:
                self.u16(0xC000 | self.suffixes[suf])
                return
            if len(self.buf) < 0x3FFF and suf not in self.suffixes:
                self.suffixes[suf] = len(self.buf)
            self.buf.append(len(labels[i]))
            self.buf += labels[i]
        self.buf.append(0)


def safe_bytes(rng, n):
    """bytes that do not trip the 'malicious pointer' heuristic (no byte >= 0xC0)"""
    return bytes(rng.randrange(0, 0xC0) for _ in range(n))


def gen_record(rng, tricky=False):
    ty = rng.choice([T_A, T_AAAA, T_SRV, T_NAPTR, T_CNAME, T_MX, T_TXT, T_PTR, T_SOA, 99, T_NS])
    rec = {"name": rand_name(rng), "type": ty, "cls": rng.choice([1, 1, 1, 3]), "ttl": rng.choice([0, 1, 60, 3600, 2 ** 32 - 1])}
    if ty == T_A:
        rec["addr"] = bytes([rng.randrange(0, 256) if tricky else rng.randrange(0, 0xC0)]) + bytes(rng.getrandbits(8) for _ in range(3))
    elif ty == T_AAAA:
        # any 16 octets (fe80::1, fd00::, 2001:db8::c0a8:1 ...): bytes >= 0xC0 are ordinary address bytes
        rec["addr"] = rng.choice([bytes.fromhex("fe80" + "00" * 13 + "01"), bytes.fromhex("fd00" + "00" * 13 + "01"),
                                  bytes.fromhex("20010db8" + "00" * 8 + "c0a80001")]) if rng.random() < 0.3 \
            else bytes(rng.getrandbits(8) for _ in range(16))
    elif ty == T_SRV:
        rec.update(prio=rng.getrandbits(16), weight=rng.getrandbits(16), port=rng.getrandbits(16), target=rand_name(rng))
    elif ty == T_NAPTR:
        rec.update(order=rng.getrandbits(16), pref=rng.getrandbits(16), flags=rng.choice([b"", b"S", b"U"]),
                   service=rng.choice([b"", b"SIP+D2U", b"E2U+sip"]), regexp=rng.choice([b"", b"!^.*$!sip:info@example.com!"]),
                   repl=rand_name(rng))
    elif ty in (T_CNAME, T_PTR, T_NS):
        rec["target"] = rand_name(rng)
    elif ty == T_MX:
        rec.update(pref=rng.getrandbits(16), target=rand_name(rng))
    elif ty == T_TXT:
        k = rng.choice([0, 1, 1, 2, 3])
        # character-strings are opaque octets: UTF-8 text, bytes >= 0xC0 included
        rec["texts"] = [rng.choice(["héllo wörld".encode(), "日本語".encode(), b"v=spf1 -all"]) if rng.random() < 0.2
                        else bytes(rng.getrandbits(8) for _ in range(rng.randint(0, 20))) for _ in range(k)]
    elif ty == T_SOA:
        rec.update(mname=rand_name(rng), rname=rand_name(rng), serial=rng.getrandbits(32), refresh=rng.getrandbits(32),
                   retry=rng.getrandbits(32), expire=rng.getrandbits(32), minimum=rng.getrandbits(32))
    else:
        rec["raw"] = safe_bytes(rng, rng.randint(0, 12))
    return rec


def encode_rdata(enc, rec):
    """append RDATA; returns nothing (rdlength patched by caller)"""
    ty = rec["type"]
    if ty in (T_A, T_AAAA):
        enc.buf += rec["addr"]
    elif ty == T_SRV:
        enc.u16(rec["prio"]); enc.u16(rec["weight"]); enc.u16(rec["port"]); enc.name(rec["target"])
    elif ty == T_NAPTR:
        enc.u16(rec["order"]); enc.u16(rec["pref"])
        for s in (rec["flags"], rec["service"], rec["regexp"]):
            enc.buf.append(len(s)); enc.buf += s
        enc.name(rec["repl"])
    elif ty in (T_CNAME, T_PTR, T_NS):
        enc.name(rec["target"])
    elif ty == T_MX:
        enc.u16(rec["pref"]); enc.name(rec["target"])
    elif ty == T_TXT:
        for s in rec["texts"]:
            enc.buf.append(len(s)); enc.buf += s
    elif ty == T_SOA:
        enc.name(rec["mname"]); enc.name(rec["rname"])
        for k in ("serial", "refresh", "retry", "expire", "minimum"):
            enc.u32(rec[k])
    else:
        enc.buf += rec["raw"]


def gen_message(rng, tricky=False):
    m = {"id": rng.getrandbits(16), "flags": rng.choice([0x8180, 0x8580, 0x8183, 0x0100, rng.getrandbits(16)]),
         "qs": [(rand_name(rng), rng.choice([1, 28, 33, 35, 255]), 1) for _ in range(rng.choice([0, 1, 1, 2]))],
         "an": [gen_record(rng, tricky) for _ in range(rng.choice([0, 1, 2, 4]))],
         "ns": [gen_record(rng, tricky) for _ in range(rng.choice([0, 0, 1, 2]))],
         "ar": [gen_record(rng, tricky) for _ in range(rng.choice([0, 0, 1, 3]))]}
    return m


def encode_message(rng, m, compress=0.7):
    enc = Enc(rng, compress)
    enc.u16(m["id"]); enc.u16(m["flags"])
    enc.u16(len(m["qs"])); enc.u16(len(m["an"])); enc.u16(len(m["ns"])); enc.u16(len(m["ar"]))
    for (n, ty, cl) in m["qs"]:
        enc.name(n); enc.u16(ty); enc.u16(cl)
    raws = {"an": [], "ns": [], "ar": []}
    for sec in ("an", "ns", "ar"):
        for rec in m[sec]:
            enc.name(rec["name"]); enc.u16(rec["type"]); enc.u16(rec["cls"]); enc.u32(rec["ttl"])
            pos = len(enc.buf)
            enc.u16(0)
            encode_rdata(enc, rec)
            rdl = len(enc.buf) - pos - 2
            enc.buf[pos:pos + 2] = rdl.to_bytes(2, "big")
            raws[sec].append(bytes(enc.buf[pos + 2:]))
    return bytes(enc.buf), raws


def expected_dump(m, raws):
    """what the message decodes to, computed from the structure (not from the bytes)"""
    out = ["H:%d:%d:%d:%d:%d:%d" % (m["id"], m["flags"], len(m["qs"]), len(m["an"]), len(m["ns"]), len(m["ar"]))]
    for (n, ty, cl) in m["qs"]:
        out.append("Q:%s:%d:%d" % (hx(dotted(n)), ty, cl))
    typed = []
    for sec in ("an", "ns", "ar"):
        for rec, raw in zip(m[sec], raws[sec]):
            nm = hx(dotted(rec["name"]))
            out.append("R%s:%s:%d:%d:%d:%s" % (sec, nm, rec["type"], rec["cls"], rec["ttl"], hx(raw)))
            ty, ttl = rec["type"], rec["ttl"]
            if ty == T_A:
                typed.append((0, "A:%s:%s:%d" % (nm, hx(rec["addr"]), ttl)))
            elif ty == T_AAAA:
                typed.append((1, "AAAA:%s:%s:%d" % (nm, hx(rec["addr"]), ttl)))
            elif ty == T_SRV:
                typed.append((2, "SRV:%s:%d:%d:%d:%s:%d" % (nm, rec["prio"], rec["weight"], rec["port"], hx(dotted(rec["target"])), ttl)))
            elif ty == T_NAPTR:
                typed.append((3, "NAPTR:%s:%d:%d:%s:%s:%s:%s:%d" % (nm, rec["order"], rec["pref"], hx(rec["flags"]), hx(rec["service"]),
                                                                  hx(rec["regexp"]), hx(dotted(rec["repl"])), ttl)))
            elif ty == T_CNAME:
                typed.append((4, "CNAME:%s:%s:%d" % (nm, hx(dotted(rec["target"])), ttl)))
            elif ty == T_MX:
                typed.append((5, "MX:%s:%d:%s:%d" % (nm, rec["pref"], hx(dotted(rec["target"])), ttl)))
            elif ty == T_TXT:
                typed.append((6, "TXT:%s:%s:%d" % (nm, ",".join(hx(s) for s in rec["texts"]), ttl)))
            elif ty == T_PTR:
                typed.append((7, "PTR:%s:%s:%d" % (nm, hx(dotted(rec["target"])), ttl)))
            elif ty == T_SOA:
                typed.append((8, "SOA:%s:%s:%s:%d:%d:%d:%d:%d:%d" % (nm, hx(dotted(rec["mname"])), hx(dotted(rec["rname"])),
                                                                   rec["serial"], rec["refresh"], rec["retry"], rec["expire"],
                                                                   rec["minimum"], ttl)))
    typed.sort(key=lambda x: x[0])
    return " ".join(out + [t for _, t in typed])


def trips_heuristic(m):
    """does the (legitimate) message contain data the 'malicious pointer' heuristic rejects?"""
    for sec in ("an", "ns", "ar"):
        for rec in m[sec]:
            if rec["type"] == T_A:
                a = rec["addr"]
                if a[0] & 0xC0 == 0xC0 and (((a[0] & 0x3F) << 8) | a[1]) < 64 and a[2] == 0 and a[3] == 0:
                    return True
    return False


def name_total(labels):
    return sum(len(l) + 1 for l in labels)


# --------------------------------------------------------------------- cache oracle

def cache_oracle(default, ops):
    store = {}
    outs = []
    for op in ops:
        t, k = op[0], op[1]
        if k == "C":
            store.clear()
            continue
        key = (op[2].lower(), op[3], op[4])
        if k == "P":
            ttls = op[6]
            ttl = min(ttls) if ttls else default
            if key in store and store[key][2] <= t:
                del store[key]
            if ttl == 0:
                store.pop(key, None)
            else:
                store[key] = (op[5], 0, t + ttl)
        elif k == "N":
            ttl = op[6]
            if ttl == 0:
                store.pop(key, None)
            else:
                store[key] = (op[5], 1, t + ttl)
        elif k == "A":
            soas, auth = op[6], op[7]
            if soas:
                ttl = min(soas[0])           # RFC 2308: bounded by the SOA's MINIMUM field and by its own TTL
            else:
                st = [x[1] for x in auth if x[0]]
                ttl = st[0] if st else default
            if ttl == 0:
                store.pop(key, None)
            else:
                store[key] = (op[5], 1, t + ttl)
        elif k == "G":
            e = store.get(key)
            if e and t < e[2]:
                outs.append("%d/%d" % (e[0], e[1]))
            else:
                store.pop(key, None)
                outs.append("-")
        elif k == "R":
            store.pop(key, None)
    return " ".join(outs)


def cache_case(default, ops):
    parts = []
    for op in ops:
        t, k = op[0], op[1]
        if k == "C":
            parts.append("%d:C" % t)
        elif k == "P":
            parts.append("%d:P:%s:%d:%d:%d:%s" % (t, hx(op[2]), op[3], op[4], op[5], ",".join(map(str, op[6])) if op[6] else "-"))
        elif k == "A":
            parts.append("%d:A:%s:%d:%d:%d:%s:%s" % (t, hx(op[2]), op[3], op[4], op[5],
                                                     ",".join("%d/%d" % x for x in op[6]) or "-",
                                                     ",".join("%s%d" % ("S" if a else "O", b) for a, b in op[7]) or "-"))
        elif k == "N":
            parts.append("%d:N:%s:%d:%d:%d:%d" % (t, hx(op[2]), op[3], op[4], op[5], op[6]))
        else:
            parts.append("%d:%s:%s:%d:%d" % (t, k, hx(op[2]), op[3], op[4]))
    return "K %d %s" % (default, ";".join(parts))


def gen_cache_history(rng):
    default = rng.choice([2, 5, 300])
    names = [b"Example.COM", b"example.com", b"a.b", b"A.B", b"x"]
    t = 0
    ops = []
    live = []   # (expiry) boundaries worth straddling
    val = 1
    for _ in range(rng.randint(3, 14)):
        r = rng.random()
        if live and r < 0.35:
            b = rng.choice(live)
            nt = b + rng.choice([-1, 0, 1])
            t = max(t, nt)
        else:
            t += rng.choice([0, 0, 1, 2, 7])
        n, ty, cl = rng.choice(names), rng.choice([1, 1, 28]), 1
        r = rng.random()
        if r < 0.3:
            ttls = [rng.choice([0, 1, 2, 3, 5, 60]) for _ in range(rng.choice([0, 1, 1, 2, 3]))]
            ops.append((t, "P", n, ty, cl, val, ttls))
            live.append(t + (min(ttls) if ttls else default))
            val += 1
        elif r < 0.4:
            ttl = rng.choice([0, 1, 2, 5])
            ops.append((t, "N", n, ty, cl, val, ttl))
            live.append(t + ttl)
            val += 1
        elif r < 0.52:
            # negative answer whose TTL comes from the response: SOA TTL below / equal / above MINIMUM, several SOAs,
            # SOA only in the raw authority section, no SOA at all
            soas = [(rng.choice([0, 1, 2, 3, 5, 60]), rng.choice([0, 1, 2, 3, 5, 60])) for _ in range(rng.choice([0, 1, 1, 1, 2]))]
            auth = [(rng.random() < 0.5, rng.choice([1, 2, 4, 7])) for _ in range(rng.choice([0, 0, 1, 2]))]
            ops.append((t, "A", n, ty, cl, val, soas, auth))
            ttl = min(soas[0]) if soas else ([x[1] for x in auth if x[0]] + [default])[0]
            live.append(t + ttl)
            if soas:
                live.append(t + max(soas[0]))
            val += 1
        elif r < 0.85:
            ops.append((t, "G", n, ty, cl))
        elif r < 0.95:
            ops.append((t, "R", n, ty, cl))
        else:
            ops.append((t, "C"))
    ops.append((t + rng.choice([0, 1]), "G", rng.choice(names), 1, 1))
    return default, ops


# ------------------------------------------------------------------------- cases

def build_cases(ctx):
    rng = vlib.rng_for(ctx)
    thorough = ctx["tier"] == "thorough"
    cases = []

    def add(line, **meta):
        cases.append((line, meta))

    cdir = os.path.join(vlib.VERIF, "corpus", PID)
    if os.path.isdir(cdir):
        for fn in sorted(os.listdir(cdir)):
            for line in open(os.path.join(cdir, fn)):
                line = line.strip()
                if line and not line.startswith("#"):
                    add(line, kind="corpus")

    # 1. well-formed messages, compressed at random positions
    nmsg = 250 if not thorough else 6000
    for i in range(nmsg):
        tricky = rng.random() < 0.1
        m = gen_message(rng, tricky)
        wire, raws = encode_message(rng, m, compress=rng.choice([0.0, 0.5, 0.9, 1.0]))
        add("M " + hx(wire), kind="msg", expect=expected_dump(m, raws), heur=trips_heuristic(m))
        # 2. mutations of it
        nmut = 6 if not thorough else 12
        for _ in range(nmut):
            w = bytearray(wire)
            r = rng.random()
            if r < 0.35 and len(w) > 1:
                w = w[:rng.randrange(0, len(w))]
            elif r < 0.6 and len(w) > 12:
                pos = rng.randrange(12, len(w))          # pointer rewrite
                tgt = rng.choice([pos, max(0, pos - 2), len(w), len(w) + 5, 0x3FFF, rng.randrange(0, len(w))])
                w[pos:pos + 2] = (0xC000 | (tgt & 0x3FFF)).to_bytes(2, "big")
            elif r < 0.75 and len(w) > 12:
                w[rng.randrange(12, len(w))] = rng.choice([64, 0x40, 0x80, 0xFF, 63, 0])
            elif r < 0.85:
                w[rng.randrange(4, 12)] = rng.choice([0, 1, 5, 255])   # counts exceeding content
            else:
                for _ in range(rng.randint(1, 4)):
                    w[rng.randrange(len(w))] = rng.getrandbits(8)
            add("M " + hx(bytes(w)), kind="mut")
        if thorough and len(wire) <= 120:
            for cut in range(len(wire)):
                add("M " + hx(wire[:cut]), kind="mut")

    # 3. names: loops, out-of-range pointers, oversize labels/names, boundaries
    loops = [
        (bytes([0xC0, 0x00]), 0), (bytes([0xC0, 0x02, 0xC0, 0x00]), 0), (bytes([1, 97, 0xC0, 0x00]), 0),
        (bytes([0xC0, 0x02, 0xC0, 0x04, 0xC0, 0x00]), 0), (bytes([1, 97, 0xC0, 0x04, 1, 98, 0xC0, 0x00]), 0),
        (bytes([0xC0, 0x09]), 0), (bytes([0xC0, 0x02]), 0), (bytes([0xFF, 0xFF]), 0), (bytes([0xC0]), 0),
    ]
    for b, off in loops:
        add("N %s %d" % (hx(b), off), kind="name-loop")
    for n in (62, 63, 64, 65):
        add("N %s 0" % hx(bytes([n]) + b"a" * n + b"\x00"), kind="name-bound")
    for total in (250, 252, 253, 254, 255, 300):
        labs, left = [], total
        while left > 0:
            k = min(63, left - 1)
            if k <= 0:
                break
            labs.append(b"b" * k)
            left -= k + 1
        wire = b"".join(bytes([len(l)]) + l for l in labs) + b"\x00"
        add("N %s 0" % hx(wire), kind="name-bound")
    for _ in range(60 if not thorough else 1500):
        n1, n2 = rand_name(rng), rand_name(rng)
        enc = Enc(rng, 1.0)
        enc.buf += bytes(rng.randint(0, 5))
        enc.name(n1 + n2)
        off = len(enc.buf)
        enc.name(rand_name(rng, 2) + n2)
        w = bytearray(enc.buf)
        if rng.random() < 0.4:
            w[rng.randrange(len(w))] = rng.choice([0xC0, 0xFF, 64, 0, rng.getrandbits(8)])
        add("N %s %d" % (hx(bytes(w)), rng.choice([off, 0, rng.randrange(0, len(w) + 2)])), kind="name")

    # 4. encodeName / buildQuery round trips (predicate: parse(build) gives the questions back)
    for _ in range(60 if not thorough else 1500):
        labs = list(rand_name(rng))
        if rng.random() < 0.15:
            labs.append(b"y" * rng.choice([63, 64]))
        if rng.random() < 0.1:
            labs = [b"z" * 63] * rng.choice([3, 4])
        labs = [l.replace(b".", b"-") for l in labs]
        add("E " + (",".join(hx(l) for l in labs) if labs else "-"), kind="encname", labels=labs)
    for _ in range(60 if not thorough else 1500):
        qs = []
        for _ in range(rng.choice([0, 1, 1, 2, 3])):
            labs = [l.replace(b".", b"-") for l in rand_name(rng)]
            qs.append((labs, rng.choice([1, 28, 33, 35, 65535]), rng.choice([1, 3, 255])))
        idv = rng.randrange(1, 65536)
        rdf = rng.randint(0, 1)
        spec = ";".join("%s:%d:%d" % (",".join(hx(l) for l in labs) if labs else "-", ty, cl) for labs, ty, cl in qs) or "-"
        add("Q %d %d %s" % (idv, rdf, spec), kind="query", qs=qs, id=idv, rd=rdf)

    # 5. cache histories with time steps on both sides of every TTL boundary
    for _ in range(150 if not thorough else 4000):
        default, ops = gen_cache_history(rng)
        add(cache_case(default, ops), kind="cache", expect=cache_oracle(default, ops))
    return cases


def witness_cases():
    a192 = bytes([0, 1, 0x81, 0x80, 0, 0, 0, 1, 0, 0, 0, 0, 0, 0, 1, 0, 1, 0, 0, 0, 60, 0, 4, 192, 0, 0, 0])
    exp = "H:1:33152:0:1:0:0 Ran:-:1:1:60:c0000000 A:-:c0000000:60"
    return [("M " + hx(a192), {"kind": "msg", "expect": exp, "heur": True})]


def evaluate(ctx, v, cases, impl, model):
    stats = {"kinds": {}, "nontrivial": set(), "disagree": 0}
    pending_q = []
    for (line, meta), ri, rm in zip(cases, impl, model):
        k = meta["kind"]
        stats["kinds"][k] = stats["kinds"].get(k, 0) + 1
        failed = False
        if ri.startswith("EXC") or ri.startswith("CRASH"):
            v.property_failure("impl-throws-or-crashes", "DNS code crashed / threw a foreign exception / read out of bounds (%s)" % ri,
                               line, ri)
            failed = True
        elif k == "msg":
            if ri != meta["expect"]:
                if meta.get("heur") and ri == "ERR":
                    v.property_failure("legit-record-rejected-as-malicious",
                                       "a well-formed response is rejected by the compression-pointer heuristic", line, ri)
                else:
                    v.property_failure("decode-exact", "a well-formed response does not decode to the records it encodes", line,
                                       "impl=%s\nexpected=%s" % (ri[:1500], meta["expect"][:1500]))
                failed = True
            else:
                stats["nontrivial"].add(line)
        elif k == "name-loop":
            if ri != "ERR":
                v.property_failure("pointer-loop-accepted", "a looping / out-of-range compression pointer is not an error", line, ri)
                failed = True
            else:
                stats["nontrivial"].add(line)
        elif k == "encname":
            labs = [l for l in meta["labels"] if l]
            ok = all(len(l) <= 63 for l in labs) and sum(len(l) + 1 for l in labs) + 1 <= 253
            exp = hx(b"".join(bytes([len(l)]) + l for l in labs) + b"\x00") if ok else "ERR"
            if ri != exp:
                v.property_failure("encode-name", "encodeName differs from RFC 1035 encoding", line, "impl=%s expected=%s" % (ri, exp))
                failed = True
            else:
                stats["nontrivial"].add(line)
        elif k == "query":
            if ri not in ("ERR",) and not ri.startswith("EXC"):
                pending_q.append((line, meta, ri))
        elif k == "cache":
            if ri != meta["expect"]:
                v.property_failure("cache-ttl", "cache served / withheld an answer against its TTL or key", line,
                                   "impl=%s\nexpected=%s" % (ri, meta["expect"]))
                failed = True
            elif "/" in ri:
                stats["nontrivial"].add(line)
        elif k in ("mut", "name", "name-bound", "corpus"):
            if ri not in ("ERR", "") and not ri.startswith("EXC"):
                stats["nontrivial"].add(line)
        if ri != rm:
            stats["disagree"] += 1
            if not failed:
                v.disagreement("C19 correspondence: model and implementation differ on a %s case" % k, line, ri, rm)
    return stats, pending_q


def run(ctx):
    t0 = time.time()
    v = vlib.Verdict(ctx)
    proof = vlib.prove(ctx, "C19", extra_targets=["C19/Extract.vo"])
    if proof["broken"]:
        v.proof_broken(proof["broken"], proof["log_tail"])
    cov = {"evaluations": 0, "distinct_nontrivial": 0, "rule": "", "samples": []}
    model_exe = None
    try:
        model_exe = vlib.build_driver("c19")
    except Exception as e:
        v.harness_broken("model driver failed to build", str(e)[-2000:])
    impl_exe, blog = vlib.build_harness("c19_impl")
    if impl_exe is None:
        v.harness_broken("harness/c19_impl.cpp no longer compiles against /repo/include", blog)
    if model_exe and impl_exe:
        if ctx.get("replay"):
            cases = [(l.strip(), {"kind": "corpus"}) for l in open(ctx["replay"]) if l.strip() and not l.startswith("#")]
        else:
            cases = witness_cases() + build_cases(ctx)
        li, lm, logs = vlib.run_pair(ctx, impl_exe, model_exe, [c[0] for c in cases], "c19")
        stats, pending_q = evaluate(ctx, v, cases, li, lm)
        # second pass: queries built by the implementation must parse back (on the implementation)
        if pending_q:
            q2 = ["M " + r for _, _, r in pending_q]
            li2, lm2, _ = vlib.run_pair(ctx, impl_exe, model_exe, q2, "c19q")
            for (line, meta, built), ri, rm in zip(pending_q, li2, lm2):
                exp = " ".join(["H:%d:%d:%d:0:0:0" % (meta["id"], 256 if meta["rd"] else 0, len(meta["qs"]))] +
                               ["Q:%s:%d:%d" % (hx(b".".join(l for l in labs if l)), ty, cl) for labs, ty, cl in meta["qs"]])
                if ri != exp:
                    v.property_failure("query-roundtrip", "a query built by the library does not decode back to its questions",
                                       line, "built=%s\nimpl=%s\nexpected=%s" % (built, ri, exp))
                else:
                    stats["nontrivial"].add(line)
                if ri != rm:
                    v.disagreement("C19 correspondence: model and implementation differ on a built query", "M " + built, ri, rm)
        if ctx.get("replay"):
            for (line, _), a, b in zip(cases, li, lm):
                print("case:  %s\nimpl:  %s\nmodel: %s" % (line[:300], a[:800], b[:800]))
        cov = {
            "evaluations": len(cases) + len(pending_q),
            "distinct_nontrivial": len(stats["nontrivial"]),
            "rule": "seeded structure-aware generator: random messages over 11 record types encoded by an independent Python "
                    "encoder whose compressor may point any name suffix at any earlier occurrence; expected decoding computed "
                    "from the structure; mutations (truncation, pointer rewrites incl. self/forward/out-of-range, label/length "
                    "bytes, counts); hand-made pointer loops; label 62..65 and name 250..300 boundaries; encodeName/buildQuery "
                    "round trips; cache histories whose time steps straddle each TTL boundary, checked against a Python "
                    "reference cache. Non-trivial = decoded successfully to the expected value (msg/query/encode), a cache "
                    "history with at least one hit, a mutation that still decodes; distinct = distinct case lines.",
            "samples": [c[0][:300] for c in cases[:2]] + [c[0][:300] for c in cases[-2:]],
            "case_kinds": stats["kinds"],
            "disagreements_model_vs_impl": stats["disagree"],
            "impl_rc": logs[0], "model_rc": logs[2],
        }
        if logs[0] != 0 and not any(x["sig"] == "impl-throws-or-crashes" for x in v.violations):
            v.property_failure("impl-throws-or-crashes", "harness exited abnormally (sanitizer report?)", "", logs[1])
    rc = v.finish()
    ctx["assumptions"] = [
        "std::string/std::vector/std::unordered_set semantics; inet_ntop/inet_pton are inverse on the addresses compared",
        "the steady clock is whatever clock_gettime(CLOCK_MONOTONIC) returns (interposed in the harness)",
        "DnsCache is exercised single-threaded; its purge thread only removes entries that get() already treats as missing",
    ]
    vlib.write_evidence(ctx, proof, cov, time.time() - t0, len(v.violations))
    return rc
