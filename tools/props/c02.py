"""C02 — every session gets exactly one close; nothing before announce or after close.

prove:      coq/C02/Properties.v
correspond: harness/c02_impl.cpp (real TcpEngine / UdpEngine under the real Transport on loopback, raw sockets as
            peers) vs. the extracted engine+fan-out model on the same scenarios; concurrent storms whose
            recorded per-identifier logs are judged by the extracted acceptor.
"""
import time

import vlib

PID = "C02"
HARNESS_OPTS = {"name": "c02_impl", "libs": "-lpthread -ldl -lssl -lcrypto"}
HARNESSES = [HARNESS_OPTS]
META = {
    "category": "proof",
    "technique": "Coq proof (lifecycle invariant of the session table / command queue / close routine over all interleavings, "
                 "refinement of the close fan-out to a history-level specification) + differential correspondence + trace acceptance",
    "text": "Coq theorems over an executable model of both engines' session bookkeeping (id allocation, command queue with its "
            "closed flag, doConnect with every failure path, accept, connect / handshake completion, the single close routine "
            "guarded by table membership, timer-originated closes with their re-validation, GC, back-pressure, the two halves of "
            "shutdownDrain) composed with Transport's close handler (global callback, observers, user data): for EVERY interleaving "
            "of application calls, I/O-thread steps with arbitrary kernel answers and stop, no identifier is closed twice, nothing "
            "is delivered outside its announce..close window, after an orderly stop every identifier handed out has had its close, "
            "while running no identifier is forgotten, identifiers are never reused, the gauge equals the table size and is zero "
            "after the drain; the fan-out is global, then the still-registered observers in registration order, then the cleanup, "
            "each at most once. Tied to the code by scenarios on real loopback sessions (refused / unresolvable / black-holed "
            "connects, TLS handshakes that complete / fail / hang in both roles, accepts, peer close / reset, application close, back-pressure close, GC close, stale and live timer closes, "
            "stop with commands still queued, a connect inside the drain window via hook) and by concurrent storms judged by the "
            "extracted acceptor.",
    "design_ref": "DESIGN.md §7 C02",
    "note": "partial: TLS sessions are driven for the lifecycle only (handshake completes / fails / hangs, TLS listener with a real "
            "OpenSSL client or a plaintext peer, handshake-timeout closes live and stale); certificate policy is C07's; 'never none while the transport keeps running' is proved as "
            "the safety invariant that an identifier is always a queued command, a table entry or closed - that the kernel "
            "eventually reports the failure of a pending connect is the OS's; restart (start after stop) is not modelled. Trusted: "
            "Coq kernel; extraction + OCaml driver (which mirrors the harness's per-operation settling and keeps the write-queue "
            "length the lifecycle model abstracts to a flag); harness/c02_impl.cpp.",
}

# ---- additions of the translator / tie session
META["text"] += (" The model's single close routine is tied to the source: coq/Gen/CloseShape.v (closeNow of TcpEngine and UdpEngine: "
                 "test of the closed flag with early return, store of the flag, removal from the table, gauge decrement, callback - "
                 "from clang's AST, regenerated every run) and C02/GenTie.v engines_generated_close_routine_ok.")


def pick(rng, xs):
    # recent identifiers are more interesting
    if rng.random() < 0.6:
        return xs[-1 - min(len(xs) - 1, int(rng.expovariate(0.7)))]
    return rng.choice(xs)


def gen_case(rng, udp):
    maxq = rng.choice([2, 3, 5])
    st = {"next": 3, "stopped": False, "obs": 0, "tok": 0}
    allids, live = [], []
    tls, nodata = set(), set()     # TLS sessions: no raw peer data, no send() interposition
    ops = []

    def connect(kind, queued=False):
        sid = st["next"]
        st["next"] += 1
        if not st["stopped"]:
            allids.append(sid)
            if kind in ("ok", "via") and not queued:
                live.append(sid)

    def stop_variant():
        r = rng.random()
        if r < 0.4:
            ops.append("z")
        elif r < 0.8:
            subs = []
            for _ in range(rng.randint(1, 4)):
                q = rng.random()
                if q < 0.6:
                    kind = rng.choice(["ok", "ok", "resolve"] if udp else ["ok", "ok", "refused", "hole", "resolve", "sync", "eacces"])
                    subs.append("c/" + kind)
                    connect(kind, queued=True)
                elif q < 0.8 and allids:
                    subs.append("x/%d" % pick(rng, allids))
                elif allids:
                    subs.append("s/%d" % pick(rng, allids))
            ops.append("Z:" + ",".join(subs))
        else:
            ops.append("y")
            st["next"] += 1
        st["stopped"] = True

    for _ in range(rng.randint(6, 24)):
        r = rng.random()
        if r < 0.22:
            kinds = ["ok"] * 4 + ["resolve"] if udp else ["ok"] * 5 + ["refused"] * 2 + ["resolve", "hole", "hole", "sync", "eacces"]
            kind = rng.choice(kinds)
            ops.append("c:" + kind)
            connect(kind)
        elif r < 0.30 and not udp:
            # TLS sessions: handshake completes / fails / never progresses; TLS listener with a real client / a plaintext peer
            kind = rng.choice(["c:tlsok", "c:tlsok", "c:tlsbad", "c:tlshang", "a:tls", "a:tls", "a:tlsbad"])
            ops.append(kind)
            if kind.endswith("bad") and rng.random() < 0.5:
                ops.append("q")
            if kind.startswith("c:"):
                sid = st["next"]
                st["next"] += 1
                if not st["stopped"]:
                    allids.append(sid)
                    tls.add(sid)
                    if kind == "c:tlsok":
                        live.append(sid)
                        nodata.add(sid)
            elif not st["stopped"]:
                sid = st["next"]
                st["next"] += 1
                allids.append(sid)
                tls.add(sid)
                if kind == "a:tls":
                    live.append(sid)
                    nodata.add(sid)
        elif r < 0.26 and udp:
            ops.append("v")
            connect("via")
        elif r < 0.36:
            ops.append("a")
            if not st["stopped"]:
                sid = st["next"]
                st["next"] += 1
                allids.append(sid)
                live.append(sid)
        elif r < 0.46 and [x for x in live if x not in nodata]:
            ops.append("d:%d" % pick(rng, [x for x in live if x not in nodata]))
        elif r < 0.54 and live and not udp:
            sid = pick(rng, live)
            live.remove(sid)
            ops.append("%s:%d" % (rng.choice("kr"), sid))
        elif r < 0.63 and allids:
            sid = pick(rng, allids) if rng.random() < 0.95 else 999
            ops.append("x:%d" % sid)
            if udp and sid in live:
                live.remove(sid)     # UDP: a later datagram of that peer would be a NEW session, not data of this one
        elif r < 0.69 and [x for x in allids if x not in tls]:
            ops.append("s:%d" % pick(rng, [x for x in allids if x not in tls]))
        elif r < 0.73 and [x for x in allids if x not in tls] and not udp:
            ops.append("b:%d" % pick(rng, [x for x in allids if x not in tls]))
        elif r < 0.76 and [x for x in allids if x not in tls] and not udp:
            ops.append("p:%d" % pick(rng, [x for x in allids if x not in tls]))
        elif r < 0.81 and allids:
            sid = pick(rng, allids)
            ops.append("g:%d" % sid)
            if udp and sid in live:
                live.remove(sid)
        elif r < 0.87 and allids and not udp:
            ops.append("t:%d:%s" % (pick(rng, allids), rng.choice("chw")))
        elif r < 0.93 and allids:
            if rng.random() < 0.35:
                # several observers on ONE session, some of the older ones unregistered: the fan-out must keep registration order
                sid = pick(rng, allids)
                first = st["obs"] + 1
                k = rng.randint(3, 5)
                for _ in range(k):
                    ops.append("o:%d" % sid)
                    st["obs"] += 1
                for oid in rng.sample(range(first, first + k - 1), rng.randint(1, 2)):
                    ops.append("u:%d" % oid)
                if rng.random() < 0.5:
                    ops.append("x:%d" % sid)
                    if udp and sid in live:
                        live.remove(sid)
            else:
                ops.append("o:%d" % pick(rng, allids))
                st["obs"] += 1
        elif r < 0.95 and st["obs"]:
            ops.append("u:%d" % rng.randint(1, st["obs"]))
        elif r < 0.97 and allids:
            st["tok"] += 1
            ops.append("m:%d:%d" % (pick(rng, allids), st["tok"]))
        elif r < 0.995:
            ops.append("q")
        elif not st["stopped"]:
            stop_variant()
    if not st["stopped"] and rng.random() < 0.7:
        ops.append("q")
        stop_variant()
        ops.append("q")
        for _ in range(rng.randint(0, 3)):
            r = rng.random()
            if r < 0.4:
                ops.append("c:ok")
                st["next"] += 1
            elif r < 0.6 and allids:
                ops.append("x:%d" % pick(rng, allids))
            elif r < 0.8 and allids:
                ops.append("o:%d" % pick(rng, allids))
            else:
                ops.append("a")
    return ("U %s" % ";".join(ops)) if udp else ("T %d %s" % (maxq, ";".join(ops)))


def gen_cap_case(rng):
    """UDP with a session cap: fill it with accepted peers, connectViaListener at the cap (the id must get its close),
    free a slot, connectViaListener again (succeeds)"""
    cap = rng.choice([1, 2, 3])
    ops, live, nid = [], [], 3          # ids 1 and 2 are the barrier sessions
    for _ in range(cap):
        ops.append("a"); live.append(nid); nid += 1
    for _ in range(rng.randint(1, 2)):
        ops.append("v"); nid += 1       # at the cap: id handed out, close only
    if rng.random() < 0.5:
        ops.append("d:%d" % rng.choice(live))
    victim = rng.choice(live)
    ops.append("x:%d" % victim); live.remove(victim)
    ops.append("v"); live.append(nid); nid += 1     # below the cap again: a real session
    ops.append("o:%d" % live[-1])
    ops.append("q")
    if rng.random() < 0.5:
        ops.append("v"); nid += 1       # at the cap once more
    ops.append("q")
    return "UC %d %s" % (cap, ";".join(ops))


CORPUS = [
    "T 2 c:ok;o:3;o:3;o:3;o:3;o:3;u:2;u:1;m:3:4;x:3;q",
    "T 2 c:tlsok;o:3;c:tlsbad;c:tlshang;t:5:h;t:3:h;a:tls;a:tlsbad;t:6:c;k:3;q;x:6;q;z;q",
    "T 2 c:ok;o:3;o:3;m:3:1;a;d:3;d:4;u:1;t:3:c;x:3;c:refused;c:hole;t:7:c;q;z;q;c:ok",
    "T 2 c:ok;a;c:hole;p:3;t:3:w;t:4:w;b:4;g:5;q;Z:c/ok,c/refused,x/3,c/hole;q",
    "T 3 c:ok;o:3;m:3:9;y;q",
    "U c:ok;a;d:3;d:4;v;o:4;m:4:2;g:4;x:3;q;Z:c/ok,c/resolve;q",
    "U a;c:ok;y;q",
]


def run(ctx):
    t0 = time.time()
    v = vlib.Verdict(ctx)
    proof = vlib.prove(ctx, "C02", extra_targets=["C02/Extract.vo"])
    if proof["broken"]:
        v.proof_broken(proof["broken"], proof["log_tail"])
    cov = {"evaluations": 0, "distinct_nontrivial": 0, "rule": "", "samples": []}
    model_exe = None
    try:
        model_exe = vlib.build_driver("c02")
    except Exception as e:
        v.harness_broken("model driver failed to build", str(e)[-2000:])
    impl_exe, blog = vlib.build_harness(**HARNESS_OPTS)
    if impl_exe is None:
        v.harness_broken("harness/c02_impl.cpp no longer compiles against /repo/include", blog)
    if model_exe and impl_exe:
        rng = vlib.rng_for(ctx)
        thorough = ctx["tier"] == "thorough"
        if ctx.get("replay"):
            lines = [l.strip() for l in open(ctx["replay"]) if l.strip() and not l.startswith("#")]
            li, lm, _ = vlib.run_pair(ctx, impl_exe, model_exe, lines, "c02r")
            for a, b, c in zip(lines, li, lm):
                print("case:  %s\nimpl:  %s\nmodel: %s" % (a[:1500], b[:1500], c[:1500]))
            cov["evaluations"] = len(lines)
        else:
            n = 240 if not thorough else 3000
            lines = list(CORPUS)
            for i in range(n):
                lines.append(gen_case(rng, udp=(i % 3 == 2)))
            for i in range(8 if not thorough else 100):
                lines.append(gen_cap_case(rng))
            nstorm = 24 if not thorough else 300
            base = rng.randint(1, 10 ** 6)
            storms = ["X %s %d %d %d" % ("udp" if i % 3 == 2 else "tcp", 4, 120 if not thorough else 400, base + i) for i in range(nstorm)]
            lines += storms
            li, lm, _ = vlib.run_pair(ctx, impl_exe, model_exe, lines, "c02h", timeout=3000)
            toks = {}
            nontrivial = 0
            recorded = []
            for line, ri, rm in zip(lines, li, lm):
                if ri.startswith("CRASH") or ri.startswith("EXC") or "TIMEOUT" in ri or ri.endswith("FAIL"):
                    v.property_failure("impl-crashes", "engine crashed / hung / did not start (%s)" % ri[-200:], line, ri[-600:])
                    continue
                if line.startswith("X "):
                    recorded.append((line, ri))
                    continue
                for t in ri.split("#")[0].replace("=", ",").replace(" ", ",").split(","):
                    if t and not t.isdigit():
                        k = t[0] if t[0] in "OU" else t
                        toks[k] = toks.get(k, 0) + 1
                if ri != rm:
                    what, sig = classify(ri, rm)
                    v.property_failure(sig, what, line, "impl:  %s\nmodel: %s" % (ri[:1500], rm[:1500]))
                else:
                    nontrivial += 1
            # second pass: the extracted acceptor judges the recorded storm logs
            if recorded:
                l2 = [ri for _, ri in recorded]
                _, lm2, _ = vlib.run_pair(ctx, model_exe, model_exe, l2, "c02a", timeout=600)
                for (line, ri), verdict in zip(recorded, lm2):
                    extra = ri.split("#")[1] if "#" in ri else ""
                    kv = dict(x.split("=") for x in extra.split() if "=" in x)
                    if verdict != "ok":
                        sig = "no-close-for-returned-id" if verdict.startswith("not-closed") else ("close-twice-or-outside-window" if verdict.startswith("bad-shape") else verdict)
                        v.property_failure(sig, "storm: the recorded per-identifier log is not a legal lifecycle (%s)" % verdict[:120], line,
                                           "acceptor: %s\nlog: %s" % (verdict, ri[:3000]))
                    elif kv.get("gauge", "0") != "0":
                        v.property_failure("gauge-not-zero", "storm: every session has closed but the gauge reads %s" % kv.get("gauge"), line, ri[-300:])
                    elif kv.get("obs2", "0") != "0":
                        v.property_failure("observer-twice", "storm: %s observers fired more than once" % kv.get("obs2"), line, ri[-300:])
                    elif int(kv.get("cleanupRan", "0")) > int(kv.get("cleanupSet", "0")):
                        v.property_failure("cleanup-twice", "storm: more cleanups ran than were registered", line, ri[-300:])
                    else:
                        nontrivial += 1
                        toks["storm-events"] = toks.get("storm-events", 0) + len(ri.split())
            cov["evaluations"] = len(lines)
            cov["distinct_nontrivial"] = nontrivial
            cov["rule"] = ("random scenarios on the real Transport over TcpEngine (2/3) and UdpEngine (1/3): connects to an accepting "
                           "listener / a closed port / an unresolvable name / a listener with a full backlog, connectViaListener (also at a UDP session cap), accepts, "
                           "peer data / close / reset, application close (also of unknown ids), sends, back-pressure overflow, a parked "
                           "write, idle GC, timer-originated closes of the three origins (live and stale), observe / unobserve / "
                           "setSessionData at random points, gauge reads, stop in three variants (plain; with commands queued while the I/O "
                           "thread is held; with a connect inside the drain window), operations after stop; per-identifier callback "
                           "projections + gauge + connect results compared with the extracted model. Storms: 4 threads x N random "
                           "operations racing peers and stop; logs judged by the extracted acceptor (shape, all closed, ids unique) plus "
                           "gauge / observer-once / cleanup counters.")
            cov["samples"] = ["callback tokens: %s" % sorted(toks.items())]
    rc = v.finish()
    ctx["assumptions"] = ["loopback TCP / UDP; nonblocking connect to a loopback listener whose accept queue is full stays pending"]
    vlib.write_evidence(ctx, proof, cov, time.time() - t0, len(v.violations))
    return rc


def classify(ri, rm):
    """name the kind of disagreement from the per-identifier projections"""
    def per(s):
        d = {}
        for part in s.split("#")[0].split():
            if "=" in part:
                k, val = part.split("=", 1)
                d[k] = val.split(",")
        return d
    pi, pm = per(ri), per(rm)
    for sid in sorted(set(pi) | set(pm), key=lambda x: int(x)):
        a, b = pi.get(sid, []), pm.get(sid, [])
        if a != b:
            if a.count("GX") > 1:
                return ("identifier %s received two close notifications" % sid, "close-twice-or-outside-window")
            if "GX" in b and "GX" not in a:
                return ("identifier %s never received its close notification (impl %s, model %s)" % (sid, a, b), "no-close-for-returned-id")
            if "GX" in a and a.index("GX") < len(a) - 1 and any(t.startswith("G") for t in a[a.index("GX") + 1:]):
                return ("identifier %s received events after its close (%s)" % (sid, a), "close-twice-or-outside-window")
            if [t for t in a if t[0] in "OU"] != [t for t in b if t[0] in "OU"]:
                return ("close fan-out of identifier %s differs: impl %s, model %s" % (sid, a, b), "fanout-differs")
            return ("lifecycle of identifier %s differs: impl %s, model %s" % (sid, a, b), "lifecycle-differs")
    if ri.split("#")[1:2] != rm.split("#")[1:2]:
        return ("open-session gauge differs: impl %s, model %s" % (ri.split("#")[1:2], rm.split("#")[1:2]), "gauge-differs")
    return ("connect results differ: impl %s, model %s" % (ri.split("#")[2:], rm.split("#")[2:]), "connect-result-differs")
