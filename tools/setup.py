#!/usr/bin/env python3
"""setup.py — MANIFEST.setup_cmd: offline full build of the Coq development, the extracted
OCaml model drivers and the C++ correspondence harnesses (against /repo's current headers)."""
import glob
import importlib
import os
import sys
import time
from concurrent.futures import ThreadPoolExecutor

sys.path.insert(0, os.path.dirname(os.path.abspath(__file__)))
import vlib  # noqa: E402


def prop_modules():
    mods = []
    for p in sorted(glob.glob(os.path.join(vlib.VERIF, "tools", "props", "c[0-9]*.py"))):
        name = os.path.basename(p)[:-3]
        mods.append(importlib.import_module("props.%s" % name))
    return mods


def main():
    t0 = time.time()
    mods = prop_modules()
    ctx = {"tier": "quick", "seed": 1}
    # 1. translators (coq/Gen/*.v)
    os.makedirs(os.path.join(vlib.COQ, "Gen"), exist_ok=True)
    import translate
    for name, ok, msg in translate.translate():
        print("translate %s: %s (%s)" % (name, "ok" if ok else "FAILED", msg[:300]))
    # 2. the whole Coq development (full .vo build)
    vlib.coq_makefile()
    rc, out = vlib.sh("make -k -j%d" % vlib.NCPU, cwd=vlib.COQ, timeout=3400)
    print(out[-3000:])
    if rc != 0:
        print("setup: Coq build FAILED (rc=%d)" % rc)
    # 3. OCaml drivers
    for p in sorted(glob.glob(os.path.join(vlib.OCAML_SRC, "*_driver.ml"))):
        name = os.path.basename(p)[:-len("_driver.ml")]
        try:
            vlib.build_driver(name)
            print("driver %s ok" % name)
        except Exception as e:
            print("driver %s FAILED: %s" % (name, str(e)[-1500:]))
            rc = rc or 1
    # 4. harnesses (parallel)
    jobs = []
    for m in mods:
        for h in getattr(m, "HARNESSES", []):
            jobs.append(h)

    def build(h):
        exe, log = vlib.build_harness(**h)
        return h["name"], exe, log

    with ThreadPoolExecutor(max_workers=8) as ex:
        for name, exe, log in ex.map(build, jobs):
            print("harness %s: %s" % (name, "ok" if exe else "FAILED\n" + (log or "")))
            if not exe:
                rc = rc or 1
    print("setup done in %.1fs rc=%d" % (time.time() - t0, rc))
    sys.exit(0 if rc == 0 else 1)


if __name__ == "__main__":
    main()
