"""vlib.py — shared machinery for the /verif checks (see DESIGN.md §2).

A check run is:  translate -> prove -> correspond -> decide -> evidence.
Property modules live in tools/props/cNN.py and implement `run(ctx)`.
"""
import hashlib
import json
import os
import random
import re
import shutil
import subprocess
import sys
import time

VERIF = os.path.dirname(os.path.dirname(os.path.abspath(__file__)))
REPO = os.environ.get("VERIF_REPO", "/repo")
COQ = os.path.join(VERIF, "coq")
BUILD = os.path.join(VERIF, "build")
OCAML_SRC = os.path.join(VERIF, "ocaml")
HARNESS = os.path.join(VERIF, "harness")
NCPU = os.cpu_count() or 4

FORBIDDEN = re.compile(
    r"\b(Admitted|admit|Axiom|Axioms|Parameter|Parameters|Conjecture|Conjectures|Abort All)\b"
    r"|Unset\s+Guard|Unset\s+Positivity|Unset\s+Universe|bypass_check|type-in-type|impredicative-set"
    r"|Admit\s+Obligations|native_compute")


def sh(cmd, timeout=600, cwd=None, env=None, check=False):
    """run a shell command, return (rc, stdout+stderr)"""
    e = dict(os.environ)
    if env:
        e.update(env)
    try:
        p = subprocess.run(cmd, shell=isinstance(cmd, str), cwd=cwd, env=e, timeout=timeout,
                           stdout=subprocess.PIPE, stderr=subprocess.STDOUT)
        out = p.stdout.decode("utf-8", "replace")
        rc = p.returncode
    except subprocess.TimeoutExpired as ex:
        out = (ex.stdout or b"").decode("utf-8", "replace") + "\n[timeout after %ss]" % timeout
        rc = 124
    if check and rc != 0:
        raise RuntimeError("command failed (%s): %s\n%s" % (rc, cmd, out[-4000:]))
    return rc, out


# --------------------------------------------------------------------------- Coq

def coq_sources():
    res = []
    for root, _, files in os.walk(COQ):
        for f in sorted(files):
            if f.endswith(".v"):
                res.append(os.path.relpath(os.path.join(root, f), COQ))
    return sorted(res)


def coq_makefile():
    """(re)generate coq/_CoqProject and coq/Makefile when the file list changed"""
    os.makedirs(os.path.join(BUILD, "ocaml"), exist_ok=True)
    srcs = coq_sources()
    proj = "-Q . IoraVerif\n" + "\n".join(srcs) + "\n"
    pp = os.path.join(COQ, "_CoqProject")
    old = open(pp).read() if os.path.exists(pp) else None
    if old != proj or not os.path.exists(os.path.join(COQ, "Makefile")):
        with open(pp, "w") as f:
            f.write(proj)
        sh("coq_makefile -f _CoqProject -o Makefile", cwd=COQ, check=True)


def coq_make(targets, timeout=1500, clean=False):
    coq_makefile()
    if clean:
        for t in targets:
            for ext in (".vo", ".vok", ".vos", ".glob"):
                p = os.path.join(COQ, t[:-3] + ext)
                if os.path.exists(p):
                    os.remove(p)
    rc, out = sh("make -k -j%d %s" % (NCPU, " ".join(targets)), cwd=COQ, timeout=timeout)
    return rc, out


def theorem_names(vfile):
    txt = open(os.path.join(COQ, vfile)).read()
    return re.findall(r"^\s*Theorem\s+([A-Za-z0-9_']+)", txt, re.M)


def forbidden_scan(dirs):
    """grep the development for constructs the brief forbids (comments stripped)"""
    hits = []
    for d in dirs:
        base = os.path.join(COQ, d)
        paths = []
        if os.path.isdir(base):
            for root, _, files in os.walk(base):
                paths += [os.path.join(root, f) for f in files if f.endswith(".v")]
        elif os.path.exists(base):
            paths = [base]
        for p in paths:
            txt = open(p).read()
            txt = strip_coq_comments(txt)
            for i, line in enumerate(txt.split("\n"), 1):
                if FORBIDDEN.search(line):
                    hits.append("%s:%d: %s" % (os.path.relpath(p, COQ), i, line.strip()[:120]))
    return hits


def strip_coq_comments(txt):
    out = []
    depth = 0
    i = 0
    n = len(txt)
    while i < n:
        if txt.startswith("(*", i):
            depth += 1
            i += 2
        elif txt.startswith("*)", i) and depth > 0:
            depth -= 1
            i += 2
        else:
            if depth == 0:
                out.append(txt[i])
            elif txt[i] == "\n":
                out.append("\n")
            i += 1
    return "".join(out)


def print_assumptions(module, theorems, tag):
    """coqc a tiny file that prints the assumptions of each theorem; returns dict name->text"""
    os.makedirs(BUILD, exist_ok=True)
    vf = os.path.join(BUILD, "Assump_%s.v" % tag)
    with open(vf, "w") as f:
        f.write("From IoraVerif Require Import %s.\n" % module)
        for t in theorems:
            f.write('Goal True. idtac "@@ %s". Abort.\nPrint Assumptions %s.\n' % (t, t))
    rc, out = sh("coqc -Q %s IoraVerif %s" % (COQ, vf), timeout=300, cwd=BUILD)
    res = {}
    cur = None
    for line in out.split("\n"):
        if line.startswith("@@ "):
            cur = line[3:].strip()
            res[cur] = ""
        elif cur is not None:
            res[cur] += line.strip() + " "
    for k in res:
        res[k] = re.sub(r"\s+", " ", res[k]).strip()
    return rc, res, out


def prove(ctx, coq_dir, extra_targets=()):
    """translate (coq/Gen/*.v from /repo's current tree), then build <dir>/Properties.vo (+ <dir>/GenTie.vo, the
    obligations that tie the model to the generated facts, + Extract.vo); return proof status dict"""
    t0 = time.time()
    import translate as _tr
    tr_res = _tr.translate()
    props_v = "%s/Properties.v" % coq_dir
    tie_v = "%s/GenTie.v" % coq_dir
    has_tie = os.path.exists(os.path.join(COQ, tie_v))
    targets = ["%s/Properties.vo" % coq_dir] + (["%s/GenTie.vo" % coq_dir] if has_tie else []) + list(extra_targets)
    clean = ctx["tier"] == "thorough"
    rc, out = coq_make(targets, clean=clean)
    thms = theorem_names(props_v)
    tie_thms = theorem_names(tie_v) if has_tie else []
    def up_to_date(target):
        """make -q: exit 0 iff the target exists and nothing it depends on is newer (a dependency that failed to
        compile leaves a stale .vo behind, which must not count)"""
        return rc == 0 or sh("make -q %s" % target, cwd=COQ, timeout=300)[0] == 0
    built = up_to_date("%s/Properties.vo" % coq_dir)
    tie_built = has_tie and up_to_date("%s/GenTie.vo" % coq_dir)
    status = {"obligations": len(thms) + len(tie_thms), "discharged": 0, "theorems": thms + tie_thms, "broken": [],
              "assumptions": {}, "forbidden": [], "make_rc": rc, "log_tail": "",
              "translator": [{"file": n, "ok": ok, "note": msg[:300]} for n, ok, msg in tr_res],
              "tie_theorems": tie_thms}
    forb = forbidden_scan(["Common", "Gen", coq_dir])
    status["forbidden"] = forb
    n_ok = 0
    if built:
        arc, ass, aout = print_assumptions("%s.Properties" % coq_dir, thms, coq_dir)
        status["assumptions"].update(ass)
        n_ok += len([t for t in thms if t in ass])
        status["broken"] += [t for t in thms if t not in ass]
        if arc != 0:
            status["log_tail"] = aout[-2000:]
    else:
        status["broken"] += broken_from_log(out, coq_dir, thms)
        status["log_tail"] = out[-3000:]
    if has_tie:
        if tie_built:
            arc, ass, aout = print_assumptions("%s.GenTie" % coq_dir, tie_thms, coq_dir + "_tie")
            status["assumptions"].update(ass)
            n_ok += len([t for t in tie_thms if t in ass])
            status["broken"] += [t for t in tie_thms if t not in ass]
        else:
            why = [("%s: %s" % (n, msg[:200])) for n, ok, msg in tr_res if not ok]
            status["broken"] += ["%s (tie to the regenerated coq/Gen facts%s)" % (
                ", ".join(tie_thms) or tie_v, "; " + "; ".join(why) if why else "")]
            if built:
                status["log_tail"] = out[-3000:]
    status["discharged"] = n_ok if not forb else 0
    if forb:
        status["broken"] = status["broken"] or ["<forbidden construct>"]
    status["checker_cmd"] = "tools/translate.py (coq/Gen/*.v from /repo) ; make -C coq -k -j%d %s  (coqc 8.16.1, full .vo build; clean=%s)" % (
        NCPU, " ".join(targets), clean)
    if ctx["tier"] == "thorough" and built and os.environ.get("VERIF_COQCHK", "1") == "1":
        mods = "IoraVerif.%s.Properties" % coq_dir + (" IoraVerif.%s.GenTie" % coq_dir if tie_built else "")
        crc, cout = sh("coqchk -o -silent -Q %s IoraVerif %s" % (COQ, mods), timeout=900)
        status["coqchk_rc"] = crc
        status["coqchk_tail"] = cout[-1500:]
        if crc != 0:
            status["broken"].append("<coqchk>")
            status["discharged"] = 0
    status["wall_s"] = round(time.time() - t0, 2)
    return status


def broken_from_log(out, coq_dir, thms):
    """name the theorem / file that failed to compile"""
    m = re.search(r'File "\./([^"]+)", line (\d+)', out)
    if not m:
        return ["<%s: build failed>" % coq_dir]
    f, line = m.group(1), int(m.group(2))
    name = "%s:%d" % (f, line)
    try:
        txt = open(os.path.join(COQ, f)).read().split("\n")
        for i in range(min(line, len(txt)) - 1, -1, -1):
            mm = re.match(r"\s*(Theorem|Lemma|Example|Corollary|Definition|Fixpoint)\s+([A-Za-z0-9_']+)", txt[i])
            if mm:
                name = "%s (%s:%d)" % (mm.group(2), f, line)
                break
    except OSError:
        pass
    return [name]


# ------------------------------------------------------------------------- OCaml

def build_driver(name):
    """build build/ocaml/<name>_driver from the extracted <name>_model.ml and ocaml/<name>_driver.ml"""
    d = os.path.join(BUILD, "ocaml")
    os.makedirs(d, exist_ok=True)
    model = os.path.join(d, "%s_model.ml" % name)
    drv_src = os.path.join(OCAML_SRC, "%s_driver.ml" % name)
    inc = open(os.path.join(OCAML_SRC, "conv.ml.inc")).read()
    exe = os.path.join(d, "%s_driver" % name)
    if not os.path.exists(model):
        raise RuntimeError("extracted model missing: %s" % model)
    full = open(drv_src).read().replace('#include "conv.ml.inc"', inc)
    key = hashlib.sha256((open(model).read() + full).encode()).hexdigest()
    stamp = exe + ".stamp"
    if os.path.exists(exe) and os.path.exists(stamp) and open(stamp).read() == key:
        return exe
    fullp = os.path.join(d, "%s_driver_full.ml" % name)
    with open(fullp, "w") as f:
        f.write(full)
    sh("ocamlfind ocamlopt -w -a -O2 -package str %s_model.mli %s_model.ml %s_driver_full.ml -linkpkg -o %s_driver"
       % (name, name, name, name), cwd=d, timeout=300, check=True)
    with open(stamp, "w") as f:
        f.write(key)
    return exe


# ----------------------------------------------------------------------- harness

def tree_hash(paths):
    h = hashlib.sha256()
    for base in paths:
        if os.path.isfile(base):
            h.update(base.encode())
            h.update(open(base, "rb").read())
            continue
        for root, dirs, files in os.walk(base):
            dirs.sort()
            for f in sorted(files):
                p = os.path.join(root, f)
                h.update(p.encode())
                try:
                    h.update(open(p, "rb").read())
                except OSError:
                    pass
    return h.hexdigest()


SAN_FLAGS = "-fsanitize=address,undefined -fno-sanitize-recover=all -fno-omit-frame-pointer"


def build_harness(name, src=None, sanitize="asan", extra="", libs="-lssl -lcrypto -lpthread -ldl",
                  incs=(), defines="-DIORA_VERIF"):
    """compile harness/<name>.cpp against /repo's CURRENT headers; cached on a content hash of
    /repo/include (+ tests seam) + the harness sources + flags"""
    src = src or os.path.join(HARNESS, "%s.cpp" % name)
    os.makedirs(BUILD, exist_ok=True)
    san = {"asan": SAN_FLAGS, "tsan": "-fsanitize=thread", "none": ""}[sanitize]
    flags = "-std=c++17 -O1 -g %s %s %s -I%s/include -I%s -I%s/tests/network %s" % (
        san, defines, extra, REPO, HARNESS, REPO, " ".join("-I" + i for i in incs))
    key = tree_hash([os.path.join(REPO, "include"), os.path.join(REPO, "tests/network/transport_test_seam.hpp"),
                     HARNESS]) + flags + libs
    key = hashlib.sha256(key.encode()).hexdigest()
    exe = os.path.join(BUILD, "%s_%s" % (name, sanitize))
    stamp = exe + ".stamp"
    if os.path.exists(exe) and os.path.exists(stamp) and open(stamp).read() == key:
        return exe, None
    t0 = time.time()
    rc, out = sh("g++ %s %s -o %s %s" % (flags, src, exe, libs), timeout=900)
    if rc != 0:
        return None, out[-6000:]
    with open(stamp, "w") as f:
        f.write(key)
    return exe, "built in %.1fs" % (time.time() - t0)


ASAN_ENV = {"ASAN_OPTIONS": "detect_leaks=0:abort_on_error=0:exitcode=99",
            "UBSAN_OPTIONS": "print_stacktrace=1:halt_on_error=1:exitcode=98"}


def run_pair(ctx, impl_exe, model_exe, cases, tag, timeout=1800):
    """write cases to a file, run both sides, return (impl_lines, model_lines, impl_log)"""
    d = ctx["workdir"]
    cf = os.path.join(d, "%s.cases" % tag)
    with open(cf, "w") as f:
        for c in cases:
            f.write(c + "\n")
    fi, fm = cf + ".impl", cf + ".model"
    for p in (fi, fm):
        if os.path.exists(p):
            os.remove(p)
    rc_i, out_i = sh([impl_exe, cf, fi], timeout=timeout, env=ASAN_ENV)
    rc_m, out_m = sh("ulimit -s unlimited 2>/dev/null; %s %s %s" % (model_exe, cf, fm), timeout=timeout)
    li = open(fi).read().split("\n") if os.path.exists(fi) else []
    lm = open(fm).read().split("\n") if os.path.exists(fm) else []
    if li and li[-1] == "":
        li.pop()
    if lm and lm[-1] == "":
        lm.pop()
    # a crashed implementation run leaves fewer lines: mark the first missing one
    while len(li) < len(cases):
        li.append("CRASH(rc=%d%s)" % (rc_i, ", hang: timeout" if rc_i == 124 else ""))
    while len(lm) < len(cases):
        lm.append("MODEL-CRASH(rc=%d)" % rc_m)
    return li, lm, (rc_i, out_i[-3000:], rc_m, out_m[-2000:])


# ------------------------------------------------------------- findings / verdict

def load_known():
    p = os.path.join(VERIF, "known_findings.json")
    if not os.path.exists(p):
        return []
    return json.load(open(p)).get("findings", [])


class Verdict:
    """collects what a check found and turns it into the interface's output"""

    def __init__(self, ctx):
        self.ctx = ctx
        self.pid = ctx["pid"]
        self.violations = []      # dict(kind, sig, what, replay_text, concrete)
        self.known_hits = {}      # finding id -> what
        self.known = [k for k in load_known() if k.get("property") == self.pid and k.get("status") == "known"]

    def known_sigs(self):
        return {k["sig"]: k for k in self.known}

    def property_failure(self, sig, what, case, detail=""):
        """the implementation violates the property on a concrete input"""
        ks = self.known_sigs()
        if sig in ks:
            self.known_hits.setdefault(ks[sig]["id"], ks[sig]["what"])
            return
        self.violations.append({"kind": "property", "sig": sig, "what": what, "case": case,
                                "detail": detail, "concrete": True})

    def disagreement(self, what, case, impl, model):
        """model and implementation differ on a case and no property predicate failed on it"""
        self.violations.append({"kind": "correspondence", "sig": "correspondence", "what": what,
                                "case": case, "detail": "impl=%s\nmodel=%s" % (impl[:2000], model[:2000]),
                                "concrete": False})

    def proof_broken(self, names, log_tail):
        self.violations.append({"kind": "proof", "sig": "proof", "what": "proof obligation(s) no longer check: "
                                + ", ".join(names), "case": "", "detail": log_tail, "concrete": False})

    def harness_broken(self, what, log):
        self.violations.append({"kind": "harness", "sig": "harness", "what": what, "case": "",
                                "detail": log, "concrete": False})

    def finish(self):
        """print KNOWN-FINDING / VIOLATION lines; return exit code"""
        for fid, what in sorted(self.known_hits.items()):
            print("KNOWN-FINDING: property=%s %s (%s)" % (self.pid, what, fid))
        if not self.violations:
            return 0
        os.makedirs(os.path.join(VERIF, "replays"), exist_ok=True)
        # concrete ones first; one VIOLATION line per distinct signature
        seen = set()
        conc = [v for v in self.violations if v["concrete"]]
        rest = [v for v in self.violations if not v["concrete"]]
        # if a concrete failing input exists, non-concrete reports are folded into it
        todo = conc if conc else rest
        for v in todo:
            if v["sig"] in seen:
                continue
            seen.add(v["sig"])
            shrunk = None
            if getattr(self, "shrinker", None) and v["case"] and "\n" not in v["case"].strip():
                try:
                    shrunk, evals = self.shrinker(v["case"].strip())
                    if shrunk == v["case"].strip():
                        shrunk = None
                except Exception as e:  # the shrinker must never hide a violation
                    shrunk = None
            h = hashlib.sha256((v["sig"] + v["case"] + v["what"]).encode()).hexdigest()[:12]
            rp = os.path.join("replays", "%s-%s.case" % (self.pid, h))
            with open(os.path.join(VERIF, rp), "w") as f:
                f.write("# property=%s kind=%s sig=%s\n# %s\n" % (self.pid, v["kind"], v["sig"], v["what"]))
                if not v["concrete"]:
                    f.write("# no concrete failing input was found; what no longer checks: %s\n" % v["what"])
                    for o in rest:
                        if o is not v:
                            f.write("# also: %s\n" % o["what"])
                for dl in v["detail"].split("\n"):
                    f.write("# " + dl + "\n")
                if shrunk:
                    f.write("# minimised by delta debugging (same failure signature); the case as generated follows as a comment\n")
                    f.write("# generated: " + v["case"].strip() + "\n")
                    f.write(shrunk + "\n")
                elif v["case"]:
                    f.write(v["case"] + "\n")
            line = "VIOLATION property=%s replay=%s" % (self.pid, rp)
            if not v["concrete"]:
                line += " no-failing-input-found"
            print(line)
            print("  -> %s" % v["what"])
        return 1


def write_evidence(ctx, proof, cov, wall, violations, assumptions_extra=()):
    pid = ctx["pid"]
    tb = [
        "Coq 8.16.1 kernel (coqc, full .vo build); vm_compute used for finite sweeps/examples; no native_compute",
        "axioms per theorem (Print Assumptions): " + "; ".join(
            "%s: %s" % (k, v) for k, v in sorted(proof.get("assumptions", {}).items())),
        "extraction: ExtrOcamlBasic only (bool/option/list/prod/unit/sumbool mapped to OCaml's), no Extract Constant; OCaml 4.13.1 ocamlopt; driver ocaml/%s_driver.ml + ocaml/conv.ml.inc" % pid.lower(),
        "correspondence harness harness/%s_impl.cpp compiled against /repo/include of the current tree (g++ -std=c++17, ASan+UBSan) and tools/props/%s.py (generator, canonicaliser, diff)" % (pid.lower(), pid.lower()),
        "translator tools/translate.py: coq/Gen/Constants.v (values printed by harness/gen_constants.cpp compiled against /repo/include) and coq/Gen/{RingProto,QueueShape,PoolShape,ConnectShape,WheelShape,CloseShape,TeardownShape}.v (event sequences of the named functions read off clang's JSON AST) are regenerated on every run (status per file: coverage.translator); the theorems of coq/%s/GenTie.v (if present; coverage.tie_theorems) tie the model to them" % pid,
    ] + list(ctx.get("trusted_extra", []))
    coverage = {
        "obligations": proof["obligations"],
        "discharged": proof["discharged"],
        "checker_cmd": proof.get("checker_cmd", ""),
        "trusted_base": tb,
        "theorems": proof.get("theorems", []),
        "broken": proof.get("broken", []),
        "forbidden_constructs": proof.get("forbidden", []),
        "translator": proof.get("translator", []),
        "tie_theorems": proof.get("tie_theorems", []),
    }
    if "coqchk_rc" in proof:
        coverage["coqchk_rc"] = proof["coqchk_rc"]
        coverage["coqchk_tail"] = proof.get("coqchk_tail", "")
    coverage.update(cov)
    ev = {
        "property_id": pid,
        "tier": ctx["tier"],
        "seed": ctx["seed"],
        "level": ctx.get("level", "proof"),
        "coverage": coverage,
        "assumptions": list(ctx.get("assumptions", [])) + list(assumptions_extra),
        "wall_s": round(wall, 2),
        "violations": violations,
    }
    os.makedirs(os.path.join(VERIF, "evidence"), exist_ok=True)
    with open(os.path.join(VERIF, "evidence", "%s.json" % pid), "w") as f:
        json.dump(ev, f, indent=1)
    return ev


def ddmin_ops(ops, fails, budget=80):
    """delta debugging over a list of operations: a 1-minimal sublist (order kept) on which fails() still holds;
    at most `budget` evaluations of fails"""
    calls = [0]

    def f(x):
        calls[0] += 1
        return fails(x)
    n = 2
    cur = list(ops)
    while len(cur) >= 2 and calls[0] < budget:
        size = max(1, len(cur) // n)
        chunks = [cur[i:i + size] for i in range(0, len(cur), size)]
        reduced = False
        for i in range(len(chunks)):
            comp = [x for j, c in enumerate(chunks) if j != i for x in c]
            if comp and calls[0] < budget and f(comp):
                cur = comp
                n = max(n - 1, 2)
                reduced = True
                break
        if not reduced:
            if n >= len(cur):
                break
            n = min(len(cur), n * 2)
    return cur


def shrink_line(ctx, impl_exe, model_exe, line, split, join, judge, tag="shrink", budget=60):
    """minimise a failing case line: `split(line) -> (head, ops)`, `join(head, ops) -> line`,
    `judge(line, impl_out, model_out) -> signature or None`.  Returns (minimal line, evaluations) - the original line if
    nothing smaller fails with the same signature."""
    head, ops = split(line)
    li, lm, _ = run_pair(ctx, impl_exe, model_exe, [line], tag, timeout=120)
    sig = judge(line, li[0], lm[0])
    if sig is None or len(ops) < 2:
        return line, 0
    n = [0]

    def fails(sub):
        n[0] += 1
        cand = join(head, sub)
        a, b, _ = run_pair(ctx, impl_exe, model_exe, [cand], tag, timeout=120)
        return judge(cand, a[0], b[0]) == sig
    best = ddmin_ops(ops, fails, budget)
    return join(head, best), n[0]


def hexs(b):
    return b.hex() if b else "-"


def rng_for(ctx, salt=""):
    return random.Random("%s/%s/%s" % (ctx["seed"], ctx["pid"], salt))
